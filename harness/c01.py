"""C01 — HTTP/1 forwarding is framing-consistent: no request or response desync.

The real HttpLayer (regular / reverse / transparent mode, validate_inbound_headers=True) is driven through
harness/common/world.py (see c01_run.py).  Direct oracle = the independent strict RFC 9112 parser of
harness/common/refparsers.py applied to the bytes written to the server / client connections, compared with the flows
recorded at the hooks.  Model tie = the same exchanges through the Lean model (Model/C01.lean + Model/C02.lean `Proxy`).
"""
import json, os
from common.check import PropertyCheck, hx, unhx
from common import refparsers as R
import c01_run as X


def canon(v: bytes) -> bytes:
    """field value as an RFC 9112 recipient reads it: obs-fold -> SP, surrounding OWS removed"""
    return R.unfold(v)


def req_eq(m, snap, body=True):
    """'same method, target, header fields and body' (C01 sentence 1)"""
    d = []
    if hx(m["method"]) != snap["method"]: d.append("method")
    if hx(m["target"]) != snap["target"]:
        # a request line that says HTTP/2.0 or HTTP/3.0 on an HTTP/1 connection is recorded with its authority (as an
        # h2 flow would be) and sent in origin-form: same target, other form
        t = unhx(snap["target"])
        if not (unhx(snap["version"]) in (b"HTTP/2.0", b"HTTP/3.0") and b"://" in t and
                b"/" + t.split(b"://", 1)[1].partition(b"/")[2] == m["target"]):
            d.append("target")
    if [[hx(k), hx(v)] for k, v in m["fields"]] != [[k, hx(canon(unhx(v)))] for k, v in snap["fields"]]: d.append("fields")
    if body and hx(m.get("body", b"")) != (snap["body"] or "-"): d.append("body")
    return d


def resp_eq(m, snap, body=True):
    d = []
    if m["status"] != snap["status"]: d.append("status")
    if [[hx(k), hx(v)] for k, v in m["fields"]] != [[k, hx(canon(unhx(v)))] for k, v in snap["fields"]]: d.append("fields")
    if body and hx(m.get("body", b"")) != (snap["body"] or "-"): d.append("body")
    return d


def relayed(f):
    """the response hook completed on a flow that had not failed before: the response was written to the client"""
    h = f["hooks"]
    return "response" in h and f["resp"] is not None and "error" not in h[:h.index("response")]


def upstream_messages(obs):
    """reference parse of what each server connection received, in emission order"""
    msgs, problems, partial = [], [], []
    first_seq = {}          # (label, byte offset) -> global emission number of the write containing that offset
    off = {}
    for seq, (lab, h) in enumerate(obs["server_log"]):
        o = off.get(lab, 0)
        first_seq[(lab, o)] = seq
        off[lab] = o + len(h) // 2
    def seq_of(lab, pos):
        best = -1
        for (l, o), s in first_seq.items():
            if l == lab and o <= pos: best = max(best, s)
        return best
    for lab in obs["server_order"]:
        p = R.parse_requests(bytes.fromhex(obs["server_out"][lab]))
        msgs += [(lab, m) for m in p.messages]
        if p.stop is not None:
            if p.stop[0] == "incomplete" and p.partial is not None:
                partial.append((lab, p.partial))
            else:
                problems.append((lab, p.stop))
    msgs.sort(key=lambda t: seq_of(t[0], t[1]["start"]))
    return msgs, problems, partial


def client_bytes(obs):
    return b"".join(bytes.fromhex(x) for x in obs["client_out"] if not x.startswith("ERR"))


def h2_versioned(f):
    s = f["req"] or f.get("req_head")
    return s is not None and unhx(s["version"]) in (b"HTTP/2.0", b"HTTP/3.0")


def oracle_c01(case, obs):
    fails = []
    flows = obs["flows"]
    if any(h2_versioned(f) for f in flows):
        # a request line announcing HTTP/2.0 / HTTP/3.0 on an HTTP/1 connection makes the flow an "h2 flow" that is
        # converted (copied, Host inserted, authority dropped) for sending: HTTP/2-3 inputs are C06's subject
        return []
    # ---- requests ----------------------------------------------------------------------------------------------
    # C01: "the bytes mitmproxy forwards upstream are framed so that an independent RFC 9112 parser reads exactly the
    # requests mitmproxy recorded as flows: same number and order, same method, target, header fields and body,
    # including any addon edits."
    msgs, problems, partial = upstream_messages(obs)
    for lab, st in problems:
        fails.append(f"req: bytes forwarded to {lab} are not a sequence of RFC 9112 requests: {st}")
    exp = [f for f in flows if f["req"] is not None and "request" in f["hooks"]]
    streaming_open = [f for f in flows if f["req"] is None and f.get("req_head") is not None]
    if len(msgs) != len(exp):
        fails.append(f"req: reference parser reads {len(msgs)} request(s) upstream, {len(exp)} flow(s) were recorded as forwarded")
    else:
        for i, ((lab, m), f) in enumerate(zip(msgs, exp)):
            d = req_eq(m, f["req"])
            if d: fails.append(f"req: forwarded request #{i} differs from the recorded flow in {d}")
    if partial:
        if len(partial) == 1 and len(streaming_open) == 1:
            head = dict(streaming_open[0]["req_head"])
            # documented rewrite after the requestheaders hook: "Expect: 100-continue" is answered by the proxy and removed
            if any(unhx(k).lower() == b"expect" and unhx(v).lower() == b"100-continue" for k, v in head["fields"]):
                head["fields"] = [[k, v] for k, v in head["fields"] if unhx(k).lower() != b"expect"]
            d = req_eq(partial[0][1], head, body=False)
            if d: fails.append(f"req: partially streamed request differs from the recorded flow in {d}")
        else:
            fails.append(f"req: incomplete request on the wire to {partial[0][0]} without a streaming flow")
    # C01: "Messages whose framing is ambiguous (conflicting or malformed Content-Length/Transfer-Encoding, invalid
    # field names) are rejected instead of forwarded."
    s = R.parse_requests(unhx(case["client_hex"]))
    nfwd = len(msgs) + len(partial)
    if s.stop is not None and s.stop[0] == "ambiguous" and nfwd > len(s.messages):
        fails.append(f"req-ambiguous: client request #{len(s.messages)} is ambiguous ({s.stop[1]}) but {nfwd} request(s) were forwarded")
    # ---- responses ---------------------------------------------------------------------------------------------
    # C01: "The same holds for responses relayed to the client, interpreted in the context of the request method."
    methods = [unhx(f["req"]["method"]) if f["req"] else (unhx(f["req_head"]["method"]) if f.get("req_head") else None) for f in flows]
    # flows that never got as far as a recorded request (rejected at the head) still consume a response slot: the error page
    cb = client_bytes(obs)
    eof = "client" in obs["closed"]
    connect = [("http_connect" in f["hooks"]) for f in flows]
    meths = []
    for f, m, c in zip(flows, methods, connect):
        meths.append(b"CONNECT" if c else (m or b"GET"))
    p = R.parse_responses(cb, meths, eof=eof)
    finals = [m for m in p.messages if not m["interim"]]
    interim = [m for m in p.messages if m["interim"]]
    head_only = None
    if p.stop is not None and p.stop[0] == "incomplete" and p.partial is not None:
        head_only = p.partial; finals.append(head_only)     # head on the wire, body still open
    if p.stop is not None and p.stop[0] not in ("tunnel",):
        if not (p.stop[0] == "incomplete" and p.partial is not None and any(f.get("resp_head") and f["resp"] is None for f in flows)):
            fails.append(f"resp: bytes relayed to the client are not a sequence of RFC 9112 responses: {p.stop}")
    # what the proxy says it sent: per flow, in order
    expected = []
    for f in flows:
        if relayed(f):
            expected.append(("flow", f))
        elif f.get("resp_head") is not None and "error" not in f["hooks"][:f["hooks"].index("responseheaders")]:
            expected.append(("head", f))     # streamed: the head is on the wire, the body never ended
        elif "http_connected" in f["hooks"] or "http_connect_error" in f["hooks"]:
            expected.append(("connect", f))
    # a 1xx recorded as a flow's response is read by the client as interim: the reference reader then pairs the
    # *next* final response with this request (desync)
    if len(finals) != len([e for e in expected]):
        kinds = [m["status"] for m in p.messages]
        fails.append(f"resp: client-side reference parser reads {len(finals)} final response(s) {kinds}, "
                     f"{len(expected)} flow(s) recorded a relayed response")
    else:
        for i, (m, (kind, f)) in enumerate(zip(finals, expected)):
            if m is head_only and kind != "head":
                fails.append(f"resp: response #{i} is incomplete on the wire although the flow recorded it as relayed")
            if kind == "head":
                d = resp_eq(m, f["resp_head"], body=False)
                if d: fails.append(f"resp: streamed response head #{i} differs from the recorded flow in {d}")
            if kind == "flow" and m is not head_only:
                d = resp_eq(m, f["resp"])
                if d: fails.append(f"resp: relayed response #{i} differs from the recorded flow in {d}")
    for m in interim:
        # the only interim responses the proxy may originate itself are 100 Continue for Expect: 100-continue
        if m["status"] != 100:
            fails.append(f"resp: interim {m['status']} on the client connection")
    # ambiguous responses are rejected instead of relayed
    by_conn = {}
    for f in flows:
        if f["server"] and f["req"] is not None and "request" in f["hooks"]:
            by_conn.setdefault(f["server"], []).append(f)
    # server streams are scripted per forwarded request: response k answers forwarded request k
    fw = [f for f in flows if f["req"] is not None and "request" in f["hooks"]]
    for k, (f, r) in enumerate(zip(fw, case.get("resps", []))):
        sp = R.parse_responses(unhx(r["data_hex"]), [unhx(f["req"]["method"])], eof=bool(r.get("close")))
        if sp.stop is not None and sp.stop[0] == "ambiguous" and not sp.messages and relayed(f):
            fails.append(f"resp-ambiguous: server response #{k} is ambiguous ({sp.stop[1]}) but was relayed")
    return fails


def branch_labels(case, obs):
    out = ["mode:" + case["mode"]]
    s = R.parse_requests(unhx(case["client_hex"]))
    out.append("client-strict:" + ("ok" if s.stop is None else s.stop[0] + ":" + str(s.stop[1])))
    out.append("flows:%d" % len(obs["flows"]))
    out.append("forwarded:%d" % sum(1 for f in obs["flows"] if "request" in f["hooks"]))
    out.append("relayed:%d" % sum(1 for f in obs["flows"] if relayed(f)))
    for x in obs["client_out"]:
        if x.startswith("ERR"): out.append("errpage:" + x[3:])
    for m in R.parse_requests(b"".join(bytes.fromhex(v) for v in obs["server_out"].values())).messages:
        out.append("fwd-framing:" + m["framing"])
    if obs["crash"]: out.append("crash:" + obs["crash"][0])
    if case.get("edits"): out.append("edits")
    if any(e["op"] == "stream" for e in case.get("edits", [])): out.append("stream")
    return out


class Check(PropertyCheck):
    prop = "C01"
    design_ref = "§5 C01"
    level_text = "TODO"
    level_note = "TODO"
    technique = "Lean 4 proof + differential correspondence + independent reference parser oracle"
    rule = "TODO"
    budget = {"quick": 2500, "thorough": 120000}
    time_budget = {"quick": 35, "thorough": 600}
    fingerprints = []
    trusted_base = []
    parallel = True
    has_model = False

    def generate(self, rng, tier):
        while True:
            c = X.gen_exchange(rng)
            if rng.chance(0.3): c = X.gen_schedule(rng, c)
            yield c

    def impl(self, case):
        return X.run(case)

    def oracle(self, case, obs):
        return oracle_c01(case, obs)

    def classify(self, case, obs):
        return json.dumps([case["mode"], case["client_hex"], [r["data_hex"] for r in case["resps"]], case.get("edits")])

    def branches(self, case, obs):
        return branch_labels(case, obs)
