"""C01 — HTTP/1 forwarding is framing-consistent: no request or response desync.

The real HttpLayer (regular / reverse / transparent mode, validate_inbound_headers=True) is driven through
harness/common/world.py (see c01_run.py).  Direct oracle = the independent strict RFC 9112 parser of
harness/common/refparsers.py applied to the bytes written to the server / client connections, compared with the flows
recorded at the hooks.  Model tie = the same exchanges through the Lean model (Model/C01.lean + Model/C02.lean `Proxy`).
"""
import json, os, re
from common.check import PropertyCheck, hx, unhx
from common import refparsers as R
import c01_run as X


def canon(v: bytes) -> bytes:
    """field value as an RFC 9112 recipient reads it: obs-fold -> SP, surrounding OWS removed"""
    return R.unfold(v)


def h2_converted(snap):
    """A request line announcing HTTP/2.0 / HTTP/3.0 on an HTTP/1 connection makes the flow an "h2 flow": Http1Client.send
    converts a copy for the wire — origin-form target, `Host: <authority>` inserted in front when there is no Host field,
    several Cookie fields joined with "; ".  The recorded flow is compared modulo exactly this conversion (everything else —
    method, the other fields in order, body, count, order — is compared as for any flow)."""
    out = dict(snap)
    fields = [[k, v] for k, v in snap["fields"]]
    auth = unhx(snap["authority"]) or None
    if unhx(snap["method"]).upper() != b"CONNECT":
        out["target"] = snap["path"]
    cookies = [v for k, v in fields if unhx(k).lower() == b"cookie"]
    if len(cookies) > 1:
        first = True; nf = []
        for k, v in fields:
            if unhx(k).lower() == b"cookie":
                if first: nf.append([k, hx(b"; ".join(unhx(c) for c in cookies))]); first = False
            else: nf.append([k, v])
        fields = nf
    if auth and not any(unhx(k).lower() == b"host" for k, v in fields):
        fields.insert(0, [hx(b"Host"), hx(auth)])
    out["fields"] = fields
    return out


def req_eq(m, snap, body=True):
    """'same method, target, header fields and body' (C01 sentence 1)"""
    if unhx(snap["version"]) in (b"HTTP/2.0", b"HTTP/3.0"):
        snap = h2_converted(snap)
    d = []
    if hx(m["method"]) != snap["method"]: d.append("method")
    if hx(m["target"]) != snap["target"]: d.append("target")
    if [[hx(k), hx(v)] for k, v in m["fields"]] != [[k, hx(canon(unhx(v)))] for k, v in snap["fields"]]: d.append("fields")
    if body and hx(m.get("body", b"")) != (snap["body"] or "-"): d.append("body")
    return d


def resp_eq(m, snap, body=True):
    d = []
    if m["status"] != snap["status"]: d.append("status")
    if [[hx(k), hx(v)] for k, v in m["fields"]] != [[k, hx(canon(unhx(v)))] for k, v in snap["fields"]]: d.append("fields")
    if body and hx(m.get("body", b"")) != (snap["body"] or "-"): d.append("body")
    return d


def relayed(f):
    """the response hook completed on a flow that had not failed before: the response was written to the client"""
    h = f["hooks"]
    return "response" in h and f["resp"] is not None and "error" not in h[:h.index("response")]


def upstream_messages(obs):
    """reference parse of what each server connection received, in emission order"""
    msgs, problems, partial = [], [], []
    first_seq = {}          # (label, byte offset) -> global emission number of the write containing that offset
    off = {}
    for seq, (lab, h) in enumerate(obs["server_log"]):
        o = off.get(lab, 0)
        first_seq[(lab, o)] = seq
        off[lab] = o + len(h) // 2
    def seq_of(lab, pos):
        best = -1
        for (l, o), s in first_seq.items():
            if l == lab and o <= pos: best = max(best, s)
        return best
    for lab in obs["server_order"]:
        p = R.parse_requests(bytes.fromhex(obs["server_out"][lab]))
        msgs += [(lab, m) for m in p.messages]
        if p.stop is not None:
            if p.stop[0] == "incomplete" and p.partial is not None:
                partial.append((lab, p.partial))
            else:
                problems.append((lab, p.stop))
    msgs.sort(key=lambda t: seq_of(t[0], t[1]["start"]))
    return msgs, problems, partial


def client_bytes(obs):
    return b"".join(bytes.fromhex(x) for x in obs["client_out"] if not x.startswith("ERR"))


def h2_versioned(f):
    s = f["req"] or f.get("req_head")
    return s is not None and unhx(s["version"]) in (b"HTTP/2.0", b"HTTP/3.0")


def oracle_c01(case, obs):
    fails = []
    flows = obs["flows"]
    # ---- requests ----------------------------------------------------------------------------------------------
    # C01: "the bytes mitmproxy forwards upstream are framed so that an independent RFC 9112 parser reads exactly the
    # requests mitmproxy recorded as flows: same number and order, same method, target, header fields and body,
    # including any addon edits."
    msgs, problems, partial = upstream_messages(obs)
    for lab, st in problems:
        fails.append(f"req: bytes forwarded to {lab} are not a sequence of RFC 9112 requests: {st}")
    exp = [f for f in flows if f["req"] is not None and "request" in f["hooks"]]
    streaming_open = [f for f in flows if f["req"] is None and f.get("req_head") is not None]
    if len(msgs) != len(exp):
        fails.append(f"req: reference parser reads {len(msgs)} request(s) upstream, {len(exp)} flow(s) were recorded as forwarded")
    else:
        for i, ((lab, m), f) in enumerate(zip(msgs, exp)):
            d = req_eq(m, f["req"])
            if d: fails.append(f"req: forwarded request #{i} differs from the recorded flow in {d}")
    if partial:
        if len(partial) == 1 and len(streaming_open) == 1:
            head = dict(streaming_open[0]["req_head"])
            # documented rewrite after the requestheaders hook: "Expect: 100-continue" is answered by the proxy and removed
            if any(unhx(k).lower() == b"expect" and unhx(v).lower() == b"100-continue" for k, v in head["fields"]):
                head["fields"] = [[k, v] for k, v in head["fields"] if unhx(k).lower() != b"expect"]
            d = req_eq(partial[0][1], head, body=False)
            if d: fails.append(f"req: partially streamed request differs from the recorded flow in {d}")
        else:
            fails.append(f"req: incomplete request on the wire to {partial[0][0]} without a streaming flow")
    # C01: "Messages whose framing is ambiguous (conflicting or malformed Content-Length/Transfer-Encoding, invalid
    # field names) are rejected instead of forwarded."
    s = R.parse_requests(unhx(case["client_hex"]))
    nfwd = len(msgs) + len(partial)
    if s.stop is not None and s.stop[0] == "ambiguous" and nfwd > len(s.messages):
        fails.append(f"req-ambiguous: client request #{len(s.messages)} is ambiguous ({s.stop[1]}) but {nfwd} request(s) were forwarded")
    # ---- responses ---------------------------------------------------------------------------------------------
    # C01: "The same holds for responses relayed to the client, interpreted in the context of the request method."
    methods = [unhx(f["req"]["method"]) if f["req"] else (unhx(f["req_head"]["method"]) if f.get("req_head") else None) for f in flows]
    # flows that never got as far as a recorded request (rejected at the head) still consume a response slot: the error page
    cb = client_bytes(obs)
    eof = "client" in obs["closed"]
    connect = [("http_connect" in f["hooks"]) for f in flows]
    meths = []
    for f, m, c in zip(flows, methods, connect):
        meths.append(b"CONNECT" if c else (m or b"GET"))
    p = R.parse_responses(cb, meths, eof=eof)
    finals = [m for m in p.messages if not m["interim"]]
    interim = [m for m in p.messages if m["interim"]]
    head_only = None
    if p.stop is not None and p.stop[0] == "incomplete" and p.partial is not None:
        head_only = p.partial; finals.append(head_only)     # head on the wire, body still open
    # what the proxy says it sent: per flow, in order
    expected = []
    for f in flows:
        if relayed(f):
            expected.append(("flow", f))
        elif f.get("resp_head") is not None and "error" not in f["hooks"][:f["hooks"].index("responseheaders")]:
            expected.append(("head", f))     # streamed: the head is on the wire, the body never ended
        elif "http_connected" in f["hooks"] or "http_connect_error" in f["hooks"]:
            expected.append(("connect", f))
    if p.stop is not None and p.stop[0] not in ("tunnel",):
        # an unfinished message on the client connection is legitimate only as the body of a streamed response that is
        # still open: the LAST response the proxy started
        if not (p.stop[0] == "incomplete" and p.partial is not None and expected and expected[-1][0] == "head"):
            fails.append(f"resp: bytes relayed to the client are not a sequence of RFC 9112 responses: {p.stop}")
    # a 1xx recorded as a flow's response is read by the client as interim: the reference reader then pairs the
    # *next* final response with this request (desync)
    if len(finals) != len([e for e in expected]):
        kinds = [m["status"] for m in p.messages]
        fails.append(f"resp: client-side reference parser reads {len(finals)} final response(s) {kinds}, "
                     f"{len(expected)} flow(s) recorded a relayed response")
    else:
        for i, (m, (kind, f)) in enumerate(zip(finals, expected)):
            if m is head_only and kind != "head":
                fails.append(f"resp: response #{i} is incomplete on the wire although the flow recorded it as relayed")
            if kind == "head":
                d = resp_eq(m, f["resp_head"], body=False)
                if d: fails.append(f"resp: streamed response head #{i} differs from the recorded flow in {d}")
            if kind == "flow" and m is not head_only:
                d = resp_eq(m, f["resp"])
                if d: fails.append(f"resp: relayed response #{i} differs from the recorded flow in {d}")
    for m in interim:
        # the only interim responses the proxy may originate itself are 100 Continue for Expect: 100-continue
        if m["status"] != 100:
            fails.append(f"resp: interim {m['status']} on the client connection")
    # ambiguous responses are rejected instead of relayed
    by_conn = {}
    for f in flows:
        if f["server"] and f["req"] is not None and "request" in f["hooks"]:
            by_conn.setdefault(f["server"], []).append(f)
    # server streams are scripted per forwarded request: response k answers forwarded request k
    fw = [f for f in flows if f["req"] is not None and "request" in f["hooks"]]
    for k, (f, r) in enumerate(zip(fw, case.get("resps", []))):
        sp = R.parse_responses(unhx(r["data_hex"]), [unhx(f["req"]["method"])], eof=bool(r.get("close")))
        if sp.stop is not None and sp.stop[0] == "ambiguous" and not [m for m in sp.messages if not m["interim"]] and relayed(f):
            # an interim 1xx response is swallowed by the proxy, never relayed: a malformed one is thereby rejected, and
            # the final response that follows is judged on its own
            m1 = re.match(rb"[\r\n]*HTTP/[0-9]\.[0-9] (1[0-9][0-9])(?: |\r?\n)", unhx(r["data_hex"])[sp.rest:])
            if m1 and m1.group(1) != b"101":
                continue
            fails.append(f"resp-ambiguous: server response #{k} is ambiguous ({sp.stop[1]}) but was relayed")
    # C01: "responses relayed to the client ... each response matched to its own request" — the response recorded (and relayed)
    # for forwarded request k must be the one the server sent in answer to request k (the scripted stream k, read by the
    # reference parser in the context of that request's method); bytes the server sent unasked are never relayed.
    for k, (f, r) in enumerate(zip(fw, case.get("resps", []))):
        if not relayed(f):
            continue
        sp = R.parse_responses(unhx(r["data_hex"]), [unhx(f["req"]["method"])], eof=True)
        mine = [m for m in sp.messages if not m["interim"]]
        if not mine:
            continue        # the reference parser cannot read what the server sent for this request: nothing to pair with
        # an addon edit of this flow's response legitimately changes what it touches — and only that: the status never,
        # the fields for header edits and for a body replacement (Content-Length), the body for a body replacement
        ops = {e["op"] for e in case.get("edits", []) if e["flow"] == flows.index(f) and e["at"].startswith("response")}
        d = resp_eq(mine[0], f["resp"])
        if ops & {"set", "add", "del", "body"}: d = [x for x in d if x != "fields"]
        if "body" in ops: d = [x for x in d if x != "body"]
        if d:
            fails.append(f"resp-pairing: the response relayed for request #{k} is not the one the server sent for it (differs in {d})")
    return fails


# ---- F-C01a: addon edits that write framing fields are forwarded unvalidated -------------------------------------------
FRAMING_EDITS = [(b"Content-Length", b"7"), (b"Content-Length", b"0"), (b"Content-Length", b"x"), (b"Content-Length", b"3, 4"),
                 (b"Transfer-Encoding", b"gzip"), (b"Transfer-Encoding", b"chunked"), (b"Transfer-Encoding", b"chunked, gzip"),
                 (b"X Bad", b"v"), (b"X-Bad:", b"v"), (b"", b"v")]


def is_framing_edit(e):
    """the edit WRITES a field that takes part in the framing decision or is not a field at all: Content-Length,
    Transfer-Encoding, or a name that is not an RFC 9110 token"""
    if e.get("op") not in ("set", "add"): return False
    name = unhx(e.get("name_hex", "-"))
    return name.lower() in (b"content-length", b"transfer-encoding") or not R.TOKEN.match(name)


def add_framing_edit(edits, flow, at, op, name, value):
    streamed = {(e["flow"], e["at"][:-7]) for e in edits if e["op"] == "stream"}
    if (flow, at) in streamed: at += "headers"          # once the head is streamed, later edits cannot reach the wire (as gen_edits)
    return list(edits) + [{"flow": flow, "at": at, "op": op, "name_hex": hx(name), "value_hex": hx(value)}]


def self_inconsistent(snap, is_request, req_method=None):
    """does the message the flow holds (after the edits) no longer describe itself — for the strict reader its fields are
    ambiguous / not fields, or they announce another body than the one the flow holds?  -> reason | None"""
    if snap is None: return None
    fields = [(unhx(k), unhx(v)) for k, v in snap["fields"]]
    if any(not R.TOKEN.match(k) for k, _ in fields): return "bad-field-name"
    fr = R.framing(fields, unhx(snap["version"]), is_request, snap.get("status"), req_method)
    body = unhx(snap["body"]) if snap.get("body") else b""
    if fr[0] == "ambiguous": return "ambiguous:" + str(fr[1])
    if fr[0] == "cl" and fr[1] != len(body): return "content-length-differs-from-body"
    if fr[0] == "none" and body: return "body-without-framing"
    # ... or the edited head no longer passes mitmproxy's own validate_headers (the proviso of the round-trip theorems), e.g. a
    # second Content-Length with the SAME value: fine for the strict reader, 'invalid content-length header: 0, 0' for mitmproxy
    # (Http1Client.send then raises after the request has gone out)
    from mitmproxy import http
    from mitmproxy.net.http import validate
    hdrs = http.Headers(fields)
    try:
        if is_request:
            m = http.Request(host="", port=0, method=unhx(snap["method"]), scheme=b"", authority=b"", path=b"/", http_version=unhx(snap["version"]),
                             headers=hdrs, content=None, trailers=None, timestamp_start=0, timestamp_end=0)
        else:
            m = http.Response(http_version=unhx(snap["version"]), status_code=snap["status"], reason=b"", headers=hdrs, content=None,
                              trailers=None, timestamp_start=0, timestamp_end=0)
        validate.validate_headers(m)
    except ValueError as e:
        return "validate_headers: " + str(e)
    return None


def branch_labels(case, obs):
    out = ["mode:" + case["mode"]]
    s = R.parse_requests(unhx(case["client_hex"]))
    out.append("client-strict:" + ("ok" if s.stop is None else s.stop[0] + ":" + str(s.stop[1])))
    out.append("flows:%d" % len(obs["flows"]))
    out.append("forwarded:%d" % sum(1 for f in obs["flows"] if "request" in f["hooks"]))
    out.append("relayed:%d" % sum(1 for f in obs["flows"] if relayed(f)))
    for x in obs["client_out"]:
        if x.startswith("ERR"): out.append("errpage:" + x[3:])
    for m in R.parse_requests(b"".join(bytes.fromhex(v) for v in obs["server_out"].values())).messages:
        out.append("fwd-framing:" + m["framing"])
    if obs["crash"]: out.append("crash:" + obs["crash"][0])
    if case.get("edits"): out.append("edits")
    if any(e["op"] == "stream" for e in case.get("edits", [])): out.append("stream")
    return out



# ================================================================================================================
# function-level correspondence (model tie): the real parsing / assembling functions vs Model/C01.lean
import re as _re
SIMPLE_AUTH = _re.compile(rb"[A-Za-z0-9.\-]+(:[0-9]{1,5})?\Z")


def show_fields(fs):
    return "-" if not fs else ",".join(hx(k) + ":" + hx(v) for k, v in fs)


def show_size(f):
    try:
        n = f()
    except ValueError:
        return "err"
    return "chunked" if n is None else "eof" if n == -1 else str(n)


def real_extract(data):
    from h11._receivebuffer import ReceiveBuffer
    buf = ReceiveBuffer(); buf += data
    lines = buf.maybe_extract_lines()
    return lines, bytes(buf)


def impl_reqhead(data):
    from mitmproxy.net.http import http1, validate
    lines, rest = real_extract(data)
    if lines is None: return "more"
    if lines == []: return "blank " + hx(rest)
    try:
        r = http1.read_request_head([bytes(x) for x in lines])
    except ValueError:
        return "err " + hx(rest)
    try:
        validate.validate_headers(r); v = "valid"
    except ValueError:
        v = "invalid"
    d = r.data
    return " ".join(["ok", hx(d.method), hx(d.scheme), hx(d.authority), hx(d.path), hx(d.http_version), show_fields(r.headers.fields), v,
                     show_size(lambda: http1.expected_http_body_size(r)),
                     "close" if http1.connection_close(d.http_version, r.headers) else "keep", hx(rest)])


def impl_resphead(method, data):
    from mitmproxy.net.http import http1, validate
    from mitmproxy import http
    lines, rest = real_extract(data)
    if lines is None: return "more"
    if lines == []: return "blank " + hx(rest)
    try:
        r = http1.read_response_head([bytes(x) for x in lines])
    except ValueError:
        return "err " + hx(rest)
    try:
        validate.validate_headers(r); v = "valid"
    except ValueError:
        v = "invalid"
    req = http.Request.make("GET", "http://origin.example/"); req.data.method = method
    return " ".join(["ok", hx(r.data.http_version), str(r.status_code), hx(r.data.reason), show_fields(r.headers.fields), v,
                     show_size(lambda: http1.expected_http_body_size(req, r)),
                     "close" if http1.connection_close(r.data.http_version, r.headers) else "keep", hx(rest)])


def _ctx():
    from mitmproxy.test import taddons
    from mitmproxy.addons import proxyserver
    from common.world import make_context
    tctx = taddons.context(proxyserver.Proxyserver())
    return make_context(opts=tctx.options)


def impl_fwdreq(data, body):
    """the real Http1Client.send for RequestHeaders / RequestData / RequestEndOfMessage of a buffered request"""
    from mitmproxy.net.http import http1
    from mitmproxy.proxy import events, commands
    from mitmproxy.proxy.layers.http import _http1, _events
    from mitmproxy.connection import Server, ConnectionState
    lines, rest = real_extract(data)
    if not lines: return "err"
    try:
        r = http1.read_request_head([bytes(x) for x in lines])
    except ValueError:
        return "err"
    from mitmproxy.net.http import validate
    try:
        validate.validate_headers(r)
    except ValueError:
        return "invalid"          # never reaches send(): rejected by check_invalid
    ctx = _ctx(); ctx.server = Server(address=("origin.example", 80)); ctx.server.state = ConnectionState.OPEN
    c = _http1.Http1Client(ctx)
    list(c.handle_event(events.Start()))
    out = b""
    evs = [_events.RequestHeaders(1, r, not body)] + ([_events.RequestData(1, body)] if body else []) + [_events.RequestEndOfMessage(1)]
    for e in evs:
        for cmd in c.handle_event(e):
            if isinstance(cmd, commands.SendData): out += cmd.data
    return hx(out)


def impl_fwdresp(method, data, body):
    from mitmproxy.net.http import http1
    from mitmproxy import http
    from mitmproxy.proxy import events, commands
    from mitmproxy.proxy.layers.http import _http1, _events
    lines, rest = real_extract(data)
    if not lines: return "err"
    try:
        r = http1.read_response_head([bytes(x) for x in lines])
    except ValueError:
        return "err"
    from mitmproxy.net.http import validate
    try:
        validate.validate_headers(r)
    except ValueError:
        return "invalid"
    ctx = _ctx()
    s = _http1.Http1Server(ctx)
    list(s.handle_event(events.Start()))
    req = http.Request.make("GET", "http://origin.example/"); req.data.method = method
    s.request = req
    out = b""
    evs = [_events.ResponseHeaders(1, r, not body)] + ([_events.ResponseData(1, body)] if body else []) + [_events.ResponseEndOfMessage(1)]
    for e in evs:
        for cmd in s.handle_event(e):
            if isinstance(cmd, commands.SendData): out += cmd.data
    return hx(out)


REF_CLASS = {"bad-field-name": 1, "cl+te": 2, "te-unknown": 3, "te-chunked-not-final": 4, "te-http10": 5, "te-on-1xx-204": 6,
             "te-request-not-chunked": 7, "cl-malformed": 8, "cl-conflict": 9}


def show_stop(st):
    if st is None: return "end"
    if st[0] == "ambiguous": return "ambiguous:%d" % REF_CLASS[st[1]]
    if st[0] == "incomplete": return "incomplete"
    if st[0] == "tunnel": return "end"
    return "malformed"


def show_msg(m):
    fr = m["framing"]
    if fr == "cl": fr = "cl%d" % len(m["body"])
    if m["kind"] == "request":
        a, b, c = m["method"], m["target"], m["version"]
    else:
        a, b, c = m["version"], b"%03d" % m["status"], m["reason"]
    return "/".join([hx(a), hx(b), hx(c), show_fields(m["fields"]), hx(m["body"]), fr])


def impl_refreqs(data):
    p = R.parse_requests(data)
    return (";".join(show_msg(m) for m in p.messages) or "-") + " " + show_stop(p.stop)


def impl_refresp(method, eof, data):
    p = R.parse_responses(data, [method], eof=eof)
    if p.messages:
        m = p.messages[0]
        return "ok " + show_msg(m) + " " + hx(data[m["end"]:])
    return show_stop(p.stop) if p.stop else "incomplete"


def fn_impl(case):
    op = case["op"]
    d = unhx(case.get("data_hex", "-"))
    if op == "reqhead": return impl_reqhead(d)
    if op == "resphead": return impl_resphead(unhx(case["method_hex"]), d)
    if op == "fwdreq": return impl_fwdreq(d, unhx(case["body_hex"]))
    if op == "fwdresp": return impl_fwdresp(unhx(case["method_hex"]), d, unhx(case["body_hex"]))
    if op == "refreqs": return impl_refreqs(d)
    if op == "refresp": return impl_refresp(unhx(case["method_hex"]), bool(case["eof"]), d)
    if op == "unfold": return hx(R.unfold(d))
    if op == "chunkhdr":
        from h11._readers import chunk_header_re
        m = chunk_header_re.fullmatch(d + b"\r\n")
        return str(int(m["chunk_size"], 16)) if m else "err"
    if op == "te":
        from mitmproxy.net.http import validate
        try:
            t = validate.parse_transfer_encoding(d)
        except ValueError:
            return "err"
        return ("chunked " if t.endswith("chunked") else "other ") + hx(t.encode())
    if op == "cl":
        from mitmproxy.net.http import validate
        try:
            return str(validate.parse_content_length(d))
        except ValueError:
            return "err"
    raise KeyError(op)


def fn_lines(case):
    op = case["op"]
    d = case.get("data_hex", "-")
    if op in ("reqhead", "fwdreq"):
        # the authority check (url.parse_authority / url.parse) is a model parameter: only simple authorities are compared
        raw = unhx(d)
        first = raw.lstrip(b"\r\n").split(b"\n", 1)[0]
        parts = first.split()
        if len(parts) == 3 and not (parts[1] == b"*" or parts[1].startswith(b"/")):
            t = parts[1]
            auth = t if parts[0] == b"CONNECT" else (t.split(b"://", 1)[1].partition(b"/")[0] if b"://" in t else None)
            scheme_ok = parts[0] == b"CONNECT" or t.split(b"://", 1)[0].lower() in (b"http", b"https")
            if auth is None or not SIMPLE_AUTH.match(auth) or not scheme_ok or (parts[0] == b"CONNECT" and b":" not in auth):
                return None
            if b":" in auth and not (1 <= int(auth.split(b":")[1]) <= 65535): return None
            if any(c in t for c in b"\x00\x7f") or any(c < 0x21 or c > 0x7e for c in t): return None
    if op in ("fwdreq",) and (b" HTTP/2.0" in unhx(d).split(b"\n")[0] or b" HTTP/3.0" in unhx(d).split(b"\n")[0]): return None   # h2->h1 conversion path (C06)
    if op == "reqhead": return [f"reqhead {d}"]
    if op == "resphead": return [f"resphead {case['method_hex']} {d}"]
    if op == "fwdreq": return [f"fwdreq {d} {case['body_hex']}"]
    if op == "fwdresp": return [f"fwdresp {case['method_hex']} {d} {case['body_hex']}"]
    if op == "refreqs": return [f"refreqs {d}"]
    if op == "refresp": return [f"refresp {case['method_hex']} {case['eof']} {d}"]
    return [f"{op} {d}"]


def lean_bytes(b: bytes) -> str:
    return "[" + ", ".join(str(x) for x in b) + "]"


class Check(PropertyCheck):
    prop = "C01"
    design_ref = "§5 C01"
    level_text = ("Lean theorems about the executable model of mitmproxy's HTTP/1 reading and writing functions (h11 "
                  "maybe_extract_lines, _read_headers, request/status line, validate_headers, parse_transfer_encoding over the "
                  "regenerated whitelist, parse_content_length, expected_http_body_size, head assembly and the chunk re-framing of "
                  "Http1Client.send/Http1Server.send) against `Ref`, a strict RFC 9112 reader written as the specification. Proved for "
                  "ALL field lists, versions, statuses and request methods: framing_agrees (whatever validate_headers accepts, the "
                  "reference reader finds unambiguous AND delimits exactly as expected_http_body_size does: chunked / length n / "
                  "until close / none, incl. HEAD, 1xx, 204, 304, CONNECT-2xx), ambiguous_rejected (its contrapositive for every "
                  "ambiguity class: CL+TE, differing or malformed CL, unknown / misplaced / repeated coding, non-chunked request "
                  "coding, TE on HTTP/1.0, TE on 1xx/204), bad_field_name_rejected and lines_ambiguous_rejected (the same for the raw "
                  "head lines as BOTH readers see them: whatever _read_headers accepts and the strict reader — which represents folded "
                  "and padded values differently — calls ambiguous, validate_headers rejects) and raw_ambiguous_rejected (the same on raw bytes: if the strict reader finds the request "
                  "at the front of a byte stream ambiguous, what mitmproxy reads from the same bytes with h11 maybe_extract_lines + "
                  "read_request_head is refused by validate_headers; extractLines_of_headLines and splitWs_of_requestLine show that the "
                  "two readers split head and request line identically; raw_ambiguous_rejected_response is the response side, in the context "
                  "of the request method, with readResponseLine_of_statusLine for version and status); the whitelist lemma parseTE_codings (what "
                  "parse_transfer_encoding accepts is read by the reference reader as exactly the codings of the whitelist entry); "
                  "forward_request_roundtrip_nofold (for every request validate_headers accepts — from the wire or after addon edits — "
                  "with whitespace-free request-line parts, fold-free values and a body consistent with the headers, the reference "
                  "reader reads the bytes written by Http1Client.send back as exactly method, target, version, fields, body and leaves "
                  "exactly what follows: Content-Length, no body, and the one-chunk + last-chunk re-framing incl. the inverse of %x) and "
                  "forward_stream_roundtrip_nofold (pipelined messages by induction: same number, order, method, target, fields, body, "
                  "nothing left over); relay_response_roundtrip (the response analogue in the context of the request method: for "
                  "every response validate_headers accepts, HTTP/d.d, status 100..999, fold-free values, and every body consistent "
                  "with expected_http_body_size — HEAD/1xx/204/304 shortcuts, Content-Length, chunked re-framing, read-until-close — "
                  "the reference reader reads what Http1Server.send writes back as exactly version, status, reason, fields, body); "
                  "forward_request_roundtrip_obsfold / relay_response_roundtrip_obsfold / forward_stream_roundtrip_obsfold (the same with "
                  "obs-fold in the values, single messages and pipelined streams; framing_fields_plain derives from validate_headers that "
                  "Content-Length / Transfer-Encoding themselves are never folded — parseTE_plain — so the fold theorems carry no extra "
                  "hypothesis); forward_request_roundtrip / forward_stream_roundtrip / relay_response_roundtrip_full: the full DESIGN "
                  "statements (ForwardRequestRoundtrip, ForwardStreamRoundtrip) for EVERY message validate_headers accepts — values "
                  "with CR LF or bare-LF folds included, no decomposition assumed (dec, dec_ok, joinG_dec compute and justify it); "
                  "ForwardStreamRoundtrip compares, for the whole pipelined stream, number, order and per message method, target, "
                  "version, header fields (folds read as SP) and body (strengthened in audit round 6: it used to compare method, "
                  "target and body only). "
                  "The oracle's abstentions are each as narrow as their reason (HTTP/2.0-versioned request lines are compared modulo "
                  "exactly the h2->h1 conversion of that flow; response pairing skips only what an addon edit touched). "
                  "The real HttpLayer (regular/reverse/transparent, validate_inbound_headers on) is checked directly: bytes written "
                  "upstream/downstream are parsed by an independent Python RFC 9112 parser and compared with the flows recorded at the "
                  "hooks (count, order, method, target, fields, body; ambiguous messages not forwarded); the model is tied function by "
                  "function to the real code, and the Lean Ref to the Python reference parser.")
    level_note = ("The round-trip theorems quantify over ReqHead/RespHead records that validate_headers accepts, with whitespace-free "
                  "request-line parts / HTTP/d.d + status 100..999 + a reason without line breaks, names without LF and a body "
                  "consistent with the headers (what the readers produce and set_content maintains). ADDON EDITS: 'including any addon "
                  "edits' is proved in exactly this form — the theorems hold for the fields and body that are SENT, wherever they come "
                  "from, PROVIDED the edited head still passes validate_headers and the body is still consistent with it "
                  "(BodyConsistent; set_content maintains it, a direct edit of Content-Length does not). The code does NOT establish "
                  "that proviso for edited messages: validate_headers runs in HttpStream.check_invalid before the hooks and is not "
                  "re-run before Http1Client.send / Http1Server.send. Edits that write Content-Length, Transfer-Encoding or a non-token "
                  "name and break the proviso are forwarded as edited: finding F-C01a (by design: inbound validation, trusted addons; "
                  "generated at 4% of the exchanges, classified exactly, everything else about such a case is still judged). "
                  "Responses: there is no pipelined-stream theorem on the response side — 'the same holds for responses' is proved per "
                  "message (relay_response_roundtrip_full); number and order of several responses on one connection are C02's "
                  "answered_in_order (model) and the resp:/resp-pairing oracle clauses here (real layer). A 2xx answer to "
                  "CONNECT (produced by the proxy itself, opens a tunnel) is excluded from relay_response_roundtrip; status codes are "
                  "rendered with three digits (100..999, what the HTTP/1 reader produces). The real layer's bytes are covered by the "
                  "reference-parser oracle and the fwdreq/fwdresp/refreqs/refresp "
                  "ties. Parameters/assumptions: url.parse_authority/url.parse "
                  "(authOk; only simple host[:port] authorities are compared), h11 readers as transcribed, Python regex `$` semantics "
                  "(trailing newline) modelled in parseCL/nameOk, connection_close's str.strip modelled on the ASCII range only. "
                  "Reference reader deliberately lenient where framing is not at stake: "
                  "request-line tokens only need to be SP-delimited (a non-token method is not judged), NUL only rejected in field "
                  "values. Excluded: request lines announcing HTTP/2.0 or HTTP/3.0 on an HTTP/1 connection (h2->h1 conversion path, "
                  "C06), addon edits that break the message themselves in ways other than F-C01a (body on HEAD/1xx/204/304 response, edits after "
                  "streaming started: not generated).")
    technique = "Lean 4 proof (induction over field lists / bytes) + translator table + function-level differential correspondence + independent reference-parser oracle on the real layer"
    rule = ("every generator also draws non-ASCII look-alikes (Unicode decimal digits, Unicode whitespace, fullwidth / Kelvin letters, "
            "latin-1 superscripts, lone high bytes) into Content-Length, Transfer-Encoding, status, version and chunk-size positions; "
            "x: grammar-directed exchanges (1-3 pipelined requests x scripted origin responses x addon edit script x mode; ~70% "
            "valid, ~20% one-byte/line mutations, ~10% token soup), 30% with a random segmentation; fn: the request and response "
            "heads, TE/CL values, bodies of the same grammar fed to single functions (model tie) and to both reference parsers. "
            "distinct = distinct case; non-trivial = at least one flow / a non-empty input.")
    budget = {"quick": 6000, "thorough": 150000}
    time_budget = {"quick": 15, "thorough": 480}
    fingerprints = ["mitmproxy.net.http.http1.read:_read_headers", "mitmproxy.net.http.http1.read:_read_request_line",
                    "mitmproxy.net.http.http1.read:_read_response_line", "mitmproxy.net.http.http1.read:expected_http_body_size",
                    "mitmproxy.net.http.http1.read:connection_close", "mitmproxy.net.http.http1.read:raise_if_http_version_unknown",
                    "mitmproxy.net.http.validate:validate_headers", "mitmproxy.net.http.validate:parse_content_length",
                    "mitmproxy.net.http.validate:parse_transfer_encoding",
                    "mitmproxy.net.http.http1.assemble:assemble_request_head", "mitmproxy.net.http.http1.assemble:assemble_response_head",
                    "mitmproxy.net.http.http1.assemble:_assemble_request_line", "mitmproxy.net.http.http1.assemble:_assemble_response_line",
                    "mitmproxy.http:Headers.__bytes__",
                    "mitmproxy.proxy.layers.http._http1:Http1Client.send", "mitmproxy.proxy.layers.http._http1:Http1Server.send",
                    "mitmproxy.proxy.layers.http._http1:Http1Server.read_headers", "mitmproxy.proxy.layers.http._http1:Http1Client.read_headers",
                    "mitmproxy.proxy.layers.http._http1:Http1Connection.read_body",
                    "mitmproxy.proxy.layers.http:HttpStream.check_invalid", "mitmproxy.proxy.layers.http:validate_request",
                    "h11._readers:ChunkedReader.__call__", "h11._receivebuffer:ReceiveBuffer.maybe_extract_lines",
                    "h11._receivebuffer:ReceiveBuffer.maybe_extract_next_line"]
    trusted_base = ["h11 ReceiveBuffer.maybe_extract_lines and the h11 body readers as transcribed in the model (tied by the correspondence)",
                    "mitmproxy.net.http.url.parse_authority / url.parse: a model parameter (authOk); only simple host[:port] authorities are compared",
                    "harness/common/refparsers.py (independent strict RFC 9112 parser) as the oracle; tied to its Lean twin `Ref` on every run"]
    parallel = True
    has_model = True

    def setup(self, tier):
        # the fork pool pays off for the thorough tier only; on a loaded machine it starves the quick tier
        self.parallel = (tier == "thorough")
        self.known_selftest()

    # ---- known finding -------------------------------------------------------------------------------------------
    def known(self, case, obs, failure, _rerun=None):
        """F-C01a, exactly as recorded.  Input class: an exchange with an addon edit that WRITES Content-Length,
        Transfer-Encoding or a non-token field name on one side (request / response) of flow i.  Failure: a clause of the
        round-trip sentence for THAT side ('req:' / 'resp:' — not the ambiguity, pairing or other-side clauses).  Observation:
        (1) the message flow i holds after the edits breaks the proviso of the round-trip theorems: it no longer describes itself
        (strict reader: ambiguous fields, bad name, or a Content-Length / no framing that differs from the body the flow holds)
        or it no longer passes mitmproxy's own validate_headers, (2) the proxy wrote the edited field line
        verbatim on that side's connection, (3) the same case WITHOUT the framing-writing edits of that side passes every
        clause of the oracle (the failure is the edit's, nothing else is excused)."""
        if case.get("op", "x") != "x": return None
        side = "request" if failure.startswith("req: ") else "response" if failure.startswith("resp: ") else None
        if side is None: return None
        fe = [e for e in case.get("edits", []) if is_framing_edit(e) and e["at"].startswith(side)]
        if not fe: return None
        flows = obs.get("flows", [])
        hit = False
        for e in fe:
            if e["flow"] >= len(flows): continue
            f = flows[e["flow"]]
            if side == "request":
                snap = f["req"] or f.get("req_head")
                why = self_inconsistent(snap, True)
                wire = b"".join(bytes.fromhex(h) for h in obs["server_out"].values())
            else:
                snap = f["resp"] or f.get("resp_head")
                rq = f["req"] or f.get("req_head")
                why = self_inconsistent(snap, False, unhx(rq["method"]) if rq else None)
                wire = client_bytes(obs)
            line = unhx(e["name_hex"]) + b": " + unhx(e["value_hex"]) + b"\r\n"
            # (`headers[name] = v` keeps the spelling of an existing field's name: names compared case-insensitively)
            if why is not None and line.lower() in wire.lower(): hit = True
        if not hit: return None
        c2 = dict(case); c2["edits"] = [e for e in case["edits"] if e not in fe]
        rest = (_rerun or (lambda c: oracle_c01(c, X.run(c))))(c2)
        if rest: return None
        return "F-C01a"

    def known_selftest(self):
        """positive witnesses + near misses of the F-C01a classifier (notes/known_audit.txt); AssertionError = INFRA"""
        req = b"POST /a HTTP/1.1\r\nHost: origin.example\r\nContent-Length: 3\r\n\r\nabc"
        resp = b"HTTP/1.1 200 OK\r\nContent-Length: 2\r\n\r\nhi"
        def mk(at, name, val, op="add"):
            return {"op": "x", "mode": "reverse", "client_hex": hx(req), "resps": [{"data_hex": hx(resp), "close": False}],
                    "edits": [{"flow": 0, "at": at, "op": op, "name_hex": hx(name), "value_hex": hx(val)}]}
        for at, name, val, op in [("request", b"Content-Length", b"7", "add"), ("request", b"Transfer-Encoding", b"gzip", "add"),
                                  ("request", b"X Bad", b"v", "add"), ("request", b"Content-Length", b"7", "set"),
                                  ("response", b"Content-Length", b"7", "add"), ("response", b"Transfer-Encoding", b"chunked", "add")]:
            c = mk(at, name, val, op); o = self.impl(c); fs = self.oracle(c, o)
            assert fs and all(self.known(c, o, f) == "F-C01a" for f in fs), ("F-C01a witness no longer classified", at, name, val, fs)
        # a second Content-Length with the SAME value: self-describing for the strict reader, but no longer valid for mitmproxy
        # (Http1Client.send raises after request #0 went out; the pipelined request #1 is recorded and never forwarded)
        c = mk("requestheaders", b"Content-Length", b"3"); c["client_hex"] = hx(req + req); c["resps"] = c["resps"] * 2
        o = self.impl(c); fs = self.oracle(c, o)
        assert fs and all(self.known(c, o, f) == "F-C01a" for f in fs), ("F-C01a (duplicate Content-Length) witness no longer classified", fs)
        c = mk("request", b"Content-Length", b"7"); o = self.impl(c); fs = self.oracle(c, o)
        # (a) same input class, different failure: other clauses / the other side
        for other in ("resp-pairing: the response relayed for request #0 is not the one the server sent for it (differs in ['body'])",
                      "req-ambiguous: client request #0 is ambiguous (cl-conflict) but 1 request(s) were forwarded",
                      "resp-ambiguous: server response #0 is ambiguous (cl-conflict) but was relayed",
                      "resp: relayed response #0 differs from the recorded flow in ['body']"):
            assert self.known(c, o, other) is None, ("another clause must not be excused", other)
        # ... and a failure that is still there without the edit is not the edit's
        assert self.known(c, o, fs[0], _rerun=lambda c2: ["req: forwarded request #0 differs from the recorded flow in ['body']"]) is None
        # (b) neighbouring inputs, same kind of failure (observation transplanted)
        near = mk("request", b"X-A", b"7")
        assert self.known(near, o, fs[0]) is None, "an edit of a neutral header is outside the class"
        near = mk("request", b"Content-Length", b"7"); near["edits"][0]["op"] = "del"
        assert self.known(near, o, fs[0]) is None, "deleting a header is outside the class"
        near = mk("request", b"Content-Length", b"9")
        assert self.known(near, o, fs[0]) is None, "the edited line is not what was written: outside the recorded observation"
        near = mk("request", b"Content-Length", b"3", "set"); o2 = self.impl(near)
        assert not self.oracle(near, o2) and self.known(near, o2, fs[0]) is None, "an edit that keeps the message consistent is forwarded correctly"
        near = mk("response", b"Content-Length", b"7")
        assert self.known(near, o, fs[0]) is None, "a response-side edit does not excuse a request-side failure"

    # ---- translator ---------------------------------------------------------------------------------------------
    def translate(self):
        import typing
        from mitmproxy.net.http import validate, http1
        from mitmproxy import http
        wl = sorted(typing.get_args(validate.TransferEncoding))
        assert set(wl) == set(validate._HTTP_1_1_TRANSFER_ENCODINGS)
        chunked, other, identity = [], [], []
        for te in wl:
            resp = http.Response.make(200, b"", {"Transfer-Encoding": te}); resp.headers.pop("content-length", None)
            req = http.Request.make("GET", "http://origin.example/")
            n = http1.expected_http_body_size(req, resp)
            (chunked if n is None else other).append(te)
            # the request-side special case: a non-chunked coding that falls through to Content-Length even without one
            rq = http.Request.make("POST", "http://origin.example/", b"", {"Transfer-Encoding": te}); rq.headers.pop("content-length", None)
            if n is not None and http1.expected_http_body_size(rq) == 0: identity.append(te)
        assert len(identity) == 1
        L = ["/- generated by harness/c01.py translate() from /repo — do not edit -/",
             "import MitmVerif.Basic.Bytes", "namespace MitmVerif.Gen.C01", "open MitmVerif", "",
             "/-- validate._HTTP_1_1_TRANSFER_ENCODINGS members for which expected_http_body_size says 'chunked' -/",
             "def teChunked : List Bytes := [" + ", ".join(lean_bytes(t.encode()) for t in chunked) + "]",
             "/-- the other members (read until close for responses) -/",
             "def teOther : List Bytes := [" + ", ".join(lean_bytes(t.encode()) for t in other) + "]",
             "/-- the member that falls through to Content-Length on a request without Content-Length -/",
             "def teIdentity : Bytes := " + lean_bytes(identity[0].encode()),
             "/-- transfer codings the reference reader knows (harness/common/refparsers.py KNOWN_CODINGS) -/",
             "def refCodings : List Bytes := [" + ", ".join(lean_bytes(t) for t in sorted(R.KNOWN_CODINGS)) + "]",
             "end MitmVerif.Gen.C01", ""]
        return {"MitmVerif/Gen/C01.lean": "\n".join(L)}

    # ---- generator ----------------------------------------------------------------------------------------------
    def fn_cases(self, rng):
        """function-level cases cut from the same grammar"""
        r = rng.random()
        if r < 0.3:
            req = X.gen_request(rng, rng.pick(["regular", "reverse"]))
            if rng.chance(0.25): req = X.mutate(rng, req)
            yield {"op": "reqhead", "data_hex": hx(req)}
            yield {"op": "refreqs", "data_hex": hx(req + (X.gen_request(rng, "reverse") if rng.chance(0.3) else b""))}
            if rng.chance(0.5): yield {"op": "fwdreq", "data_hex": hx(req), "body_hex": hx(X.gen_body(rng))}
        elif r < 0.6:
            resp = X.gen_response(rng)
            if rng.chance(0.25): resp = X.mutate(rng, resp)
            m = rng.pick([b"GET", b"HEAD", b"head", b"CONNECT", b"POST"])
            yield {"op": "resphead", "method_hex": hx(m), "data_hex": hx(resp)}
            yield {"op": "refresp", "method_hex": hx(m), "eof": rng.randint(0, 1), "data_hex": hx(resp)}
            if rng.chance(0.5): yield {"op": "fwdresp", "method_hex": hx(m), "data_hex": hx(resp), "body_hex": hx(X.gen_body(rng))}
        elif r < 0.75:
            v = rng.pick(X.TE_VALUES)
            if rng.chance(0.4): v = X.mutate(rng, v) if v else v
            yield {"op": "te", "data_hex": hx(v)}
        elif r < 0.85:
            v = rng.pick(X.CL_VALUES)
            if rng.chance(0.4): v = X.mutate(rng, v) if v else v
            yield {"op": "cl", "data_hex": hx(v)}
        elif r < 0.89:
            v = rng.pick([b"0", b"5", b"a", b"FF", b"1f", b"0005", b"5;x", b"5;a=b;c", b"5 ", b"5\t ", b"5 ;x", b"", b";x", b"g", b"5;a\rb", b"5;a\nb",
                          b"5x", b"0;\x00", b"123456789012345678901", b"12345678901234567890", b"5; ", b" 5", b"5;\xc3\xa9"])
            if rng.chance(0.4) and v: v = X.mutate(rng, v)
            if b"\r\n" not in v: yield {"op": "chunkhdr", "data_hex": hx(v)}
        elif r < 0.93:
            yield {"op": "unfold", "data_hex": hx(rng.pick([b"a\r\n b", b" a \r\n\t b \r\n  c ", b"\r\n x", b"a\r\n ", b"a\n b", b"plain", b"", b"a\r"]) )}
        else:
            body = X.chunked_body(rng, X.gen_body(rng))
            if rng.chance(0.3): body = X.mutate(rng, body)
            yield {"op": "refreqs", "data_hex": hx(b"POST / HTTP/1.1\r\nHost: h\r\nTransfer-Encoding: chunked\r\n\r\n" + body)}

    def generate(self, rng, tier):
        for v in X.TE_VALUES: yield {"op": "te", "data_hex": hx(v)}
        for v in X.CL_VALUES: yield {"op": "cl", "data_hex": hx(v)}
        while True:
            if rng.chance(0.45):
                c = X.gen_exchange(rng); c["op"] = "x"
                if "scuts" not in c and rng.chance(0.3): c = X.gen_schedule(rng, c)
                if rng.chance(0.04):
                    # "arbitrary addon edits of headers": an addon that writes a framing field or a non-token name (F-C01a)
                    k, v = rng.pick(FRAMING_EDITS)
                    c["edits"] = add_framing_edit(c.get("edits", []), rng.randrange(3), rng.pick(["request", "response", "requestheaders", "responseheaders"]),
                                                  rng.pick(["add", "set"]), k, v)
                yield c
            else:
                yield from self.fn_cases(rng)

    def impl(self, case):
        if case.get("op", "x") == "x":
            return X.run(case)
        return {"fn": fn_impl(case)}

    def oracle(self, case, obs):
        if case.get("op", "x") == "x":
            return oracle_c01(case, obs)
        return []

    def model_lines(self, case):
        if case.get("op", "x") == "x":
            return None
        return fn_lines(case)

    @staticmethod
    def _mask(case, text):
        # connection_close() strips tokens with str.strip(): for non-ASCII header bytes (U+0085, U+00A0 …) that is outside the
        # byte-level model; the keep/close verdict is not a C01 observable, so it is masked for such inputs
        if case["op"] in ("reqhead", "resphead") and any(
                ln.split(b":", 1)[0].lower() == b"connection" and any(c >= 0x80 for c in ln)
                for ln in unhx(case["data_hex"]).replace(b"\r", b"\n").split(b"\n")):
            return re.sub(r" (close|keep) ", " ? ", text)
        return text

    def model_obs(self, case, replies):
        return self._mask(case, replies[0])

    def impl_view(self, case, obs):
        return self._mask(case, obs["fn"])

    def classify(self, case, obs):
        if case.get("op", "x") == "x":
            return json.dumps([case["mode"], case["client_hex"], [r["data_hex"] for r in case["resps"]], case.get("edits")]) if obs["flows"] else None
        return json.dumps(case, sort_keys=True) if case.get("data_hex", "-") != "-" else None

    def branches(self, case, obs):
        if case.get("op", "x") == "x":
            return branch_labels(case, obs)
        return ["fn:" + case["op"] + ":" + obs["fn"].split(" ")[0][:12]]
