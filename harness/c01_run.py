"""Shared by harness/c01.py and harness/c02.py: drive the real HttpLayer (HTTP/1 on both sides) through
harness/common/world.py with a scripted client stream, scripted origin-server responses, an edit script standing for an
addon, and a schedule (segmentation of both streams + interleaving), and return everything the properties name:
bytes per connection, the flows as seen at the hooks, the hook sequence per flow.

case = {
  "mode": "regular" | "transparent" | "reverse",
  "client_hex": the whole client byte stream,
  "resps": [{"data_hex": bytes the origin sends in answer to the k-th forwarded request, "close": bool (FIN after them)}],
  "edits": [{"flow": k, "at": "requestheaders"|"request"|"responseheaders"|"response",
             "op": "set"|"add"|"del"|"body"|"stream", "name_hex":…, "value_hex":…}],
  "ccuts": [offsets]   cut points of the client stream   ([] = one segment),
  "scuts": [[offsets]] cut points per response,
  "sched": [0/1,…]     when both a client segment and a server segment are deliverable: 1 = client first (default 0),
}
Causality: bytes of response k are delivered only after request k has been forwarded completely (as judged by the
reference parser on the bytes written to that server connection).  The client half-closes only at the very end.
"""
import re
from common.check import hx, unhx
from common import refparsers as R
from common.world import World, make_context

from mitmproxy.proxy.layers import http as http_layer
from mitmproxy.proxy.layers.http import HTTPMode, _http1
from mitmproxy.proxy.mode_specs import ProxyMode
from mitmproxy.connection import Server
from mitmproxy.test import taddons
from mitmproxy.addons import proxyserver

FLOW_HOOKS = ("requestheaders", "request", "responseheaders", "response", "error", "http_connect", "http_connected",
              "http_connect_error")
ORIGIN = ("origin.example", 80)


def cut(b: bytes, cuts):
    out, prev = [], 0
    for c in sorted(set(c for c in cuts if 0 < c < len(b))):
        out.append(b[prev:c]); prev = c
    out.append(b[prev:])
    return [s for s in out if s] or ([] if not b else [b])


def target_of(req) -> bytes:
    """the request-target a recorded request denotes (RFC 9112 §3.2): authority-form for CONNECT, absolute-form when the
    flow carries an authority, origin-form otherwise"""
    d = req.data
    if d.method.upper() == b"CONNECT":
        return d.authority
    if d.authority:
        return d.scheme + b"://" + d.authority + d.path
    return d.path


def snap_req(req):
    return {"method": hx(req.data.method), "target": hx(target_of(req)), "path": hx(req.data.path), "authority": hx(req.data.authority),
            "version": hx(req.data.http_version),
            "fields": [[hx(k), hx(v)] for k, v in req.headers.fields],
            "body": None if req.raw_content is None else hx(req.raw_content)}


def snap_resp(resp):
    return {"version": hx(resp.data.http_version), "status": resp.status_code, "reason": hx(resp.data.reason),
            "fields": [[hx(k), hx(v)] for k, v in resp.headers.fields],
            "body": None if resp.raw_content is None else hx(resp.raw_content)}


class ErrPages:
    """make_error_response outputs are replaced, at the observation point, by the marker ERR<status>: the page text is
    C12's subject, C01/C02 only name 'an error response with this status'."""
    def __enter__(self):
        self.orig = _http1.make_error_response
        self.pages = {}

        def mer(status_code, message=""):
            out = self.orig(status_code, message)
            self.pages[out] = status_code
            return out
        _http1.make_error_response = mer
        return self

    def __exit__(self, *a):
        _http1.make_error_response = self.orig


def may_have_body(flow, msg):
    if msg is flow.request:
        return True
    st = msg.status_code
    return not (flow.request.method.upper() == "HEAD" or 100 <= st <= 199 or st in (204, 304))


def apply_edit(msg, e, flow=None):
    op = e["op"]
    if op == "body" and flow is not None and not may_have_body(flow, msg):
        return          # an addon that puts a body on a HEAD/1xx/204/304 response breaks the message itself
    if op == "body" and msg.stream:
        return          # a streamed body is not the addon's to replace
    name = unhx(e.get("name_hex", "-")); val = unhx(e.get("value_hex", "-"))
    if op == "set":
        msg.headers[name] = val
    elif op == "add":
        msg.headers.add(name, val)
    elif op == "del":
        msg.headers.pop(name, None)
    elif op == "body":
        msg.set_content(val)
    elif op == "stream":
        msg.stream = True


def run(case, whole=False):
    client = unhx(case["client_hex"])
    resps = case.get("resps", [])
    edits = case.get("edits", [])
    csegs = [client] if (whole or not case.get("ccuts")) else cut(client, case["ccuts"])
    csegs = [s for s in csegs if s]
    sched = [] if whole else list(case.get("sched", []))
    flows, order = {}, []     # id(flow) -> record

    def rec(flow):
        k = id(flow)
        if k not in flows:
            flows[k] = {"hooks": [], "req": None, "resp": None, "flow": flow, "idx": len(order)}
            order.append(k)
        return flows[k]

    def on_hook(w, hook):
        if hook.name not in FLOW_HOOKS:
            return None
        flow = hook.flow
        r = rec(flow)
        r["hooks"].append(hook.name)
        if case.get("via") and hook.name == "requestheaders":
            # an addon routes this flow through a parent HTTP proxy (the documented per-flow `server_conn.via`): the proxy
            # then opens a CONNECT tunnel there and reads the parent's HTTP/1 reply (HttpUpstreamProxy.receive_handshake_data)
            flow.server_conn.via = ("http", ("proxy.example", 3128))
        for e in edits:
            if e["flow"] == r["idx"] and e["at"] == hook.name:
                apply_edit(flow.request if hook.name.startswith("request") else flow.response, e, flow)
        if hook.name == "request":
            r["req"] = snap_req(flow.request)
        elif hook.name == "requestheaders" and flow.request.stream:
            r["req_head"] = snap_req(flow.request)
        elif hook.name == "response":
            r["resp"] = snap_resp(flow.response)
        elif hook.name == "responseheaders" and flow.response.stream:
            r["resp_head"] = snap_resp(flow.response)
        return None

    with taddons.context(proxyserver.Proxyserver()) as tctx, ErrPages() as pages:
        tctx.options.validate_inbound_headers = True
        tctx.options.store_streamed_bodies = True
        ctx = make_context(opts=tctx.options)
        mode = HTTPMode.regular
        if case["mode"] in ("transparent", "reverse"):
            mode = HTTPMode.transparent
            ctx.server = Server(address=ORIGIN)
            if case["mode"] == "reverse":
                ctx.client.proxy_mode = ProxyMode.parse("reverse:http://%s:%d" % ORIGIN)
        lay = http_layer.HttpLayer(ctx, mode)
        w = World(lay, ctx, on_hook=on_hook)
        w.start()

        answered = {}          # label -> responses delivered (started) on that connection
        next_resp = 0
        cur = None             # (label, remaining segments, close?)
        ci = 0

        def forwarded_complete(label):
            p = R.parse_requests(w.sent_to(label))
            return len(p.messages)

        preplies = case.get("proxy_replies", [])
        next_prep = 0

        def due():
            """is there a server segment that may be delivered now?"""
            nonlocal cur, next_resp, next_prep
            if cur is not None:
                return True
            for lab in w.server_labels():
                msgs = R.parse_requests(w.sent_to(lab)).messages
                k = answered.get(lab, 0)
                if len(msgs) > k and msgs[k]["method"] == b"CONNECT":
                    # the parent proxy answers the CONNECT the proxy itself sent
                    if next_prep >= len(preplies):
                        continue
                    pr = preplies[next_prep]
                    data = unhx(pr["data_hex"])
                    cuts = [] if whole else pr.get("cuts", [])
                    segs = [data] if whole else cut(data, cuts)
                    cur = [lab, [x for x in segs if x], bool(pr.get("close"))]
                    answered[lab] = k + 1
                    next_prep += 1
                    return True
            if next_resp >= len(resps):
                return False
            for lab in w.server_labels():
                if forwarded_complete(lab) > answered.get(lab, 0):
                    r = resps[next_resp]
                    data = unhx(r["data_hex"])
                    cuts = [] if whole else (case.get("scuts") or [[]] * len(resps))[next_resp] if next_resp < len(case.get("scuts") or []) else []
                    segs = [data] if whole else cut(data, cuts)
                    cur = [lab, [s for s in segs if s], bool(r.get("close"))]
                    answered[lab] = answered.get(lab, 0) + 1
                    next_resp += 1
                    return True
            return False

        def server_step():
            nonlocal cur
            lab, segs, close = cur
            if segs:
                w.recv(lab, segs.pop(0))
            if not segs:
                if close:
                    w.peer_close(lab)
                cur = None

        steps = 0
        recv_log = []          # the segments in the order they were actually delivered: "c:<hex>" / "s:<hex>"
        while True:
            steps += 1
            if steps > 5000: raise RuntimeError("schedule does not terminate")
            can_c = ci < len(csegs)
            can_s = due()
            if not can_c and not can_s:
                break
            pick_client = can_c and (not can_s or (sched.pop(0) if sched else 0) == 1)
            if pick_client:
                recv_log.append("c:" + csegs[ci].hex())
                w.recv("client", csegs[ci]); ci += 1
            else:
                if cur[1]: recv_log.append("s:" + cur[1][0].hex())
                server_step()
        mark_quiescent = len(w.sent_log)
        # quiescent: the client half-closes
        w.peer_close("client")

        out = {"client_out": [], "server_out": {}, "flows": [], "crash": [e[0] for e in w.errors],
               "closed": sorted(lab for (k, lab, *rest) in [t for t in w.trace if t[0] == "close"] if True)}
        cl = []
        for lab, data in w.sent_log:
            if lab == "client":
                if data in pages.pages:
                    cl.append("ERR%d" % pages.pages[data])
                elif cl and not cl[-1].startswith("ERR"):
                    cl[-1] = cl[-1] + data.hex()
                else:
                    cl.append(data.hex())
            else:
                out["server_out"][lab] = out["server_out"].get(lab, "") + data.hex()
        out["client_out"] = cl
        # C02's tie of the two coupled readers (Model/C02 sysRun): what was delivered, and everything the proxy sent before
        # the final half-close of the client, in emission order
        out["recv_log"] = recv_log
        out["sent_log"] = [[lab, ("ERR%d" % pages.pages[data]) if (lab == "client" and data in pages.pages) else data.hex()]
                           for lab, data in w.sent_log[:mark_quiescent]]
        # order in which server connections received their first byte, and the emission order of messages
        out["server_order"] = []
        for lab, data in w.sent_log:
            if lab != "client" and lab not in out["server_order"]:
                out["server_order"].append(lab)
        out["server_log"] = [[lab, data.hex()] for lab, data in w.sent_log if lab != "client"]
        out["half_closed"] = sorted({t[1] for t in w.trace if t[0] == "close" and t[2]})
        out["closed"] = sorted({t[1] for t in w.trace if t[0] == "close" and not t[2]})
        for k in order:
            r = flows[k]
            f = r["flow"]
            out["flows"].append({"hooks": r["hooks"], "req": r["req"], "resp": r["resp"],
                                 "req_head": r.get("req_head"), "resp_head": r.get("resp_head"),
                                 "error": bool(f.error),
                                 "server": w.labels.get(id(f.server_conn)) if f.server_conn else None})
        return out


# ================================================================================================================
# generator: grammar-directed HTTP/1 exchanges (≈70 % valid, ≈20 % one-field mutations, ≈10 % raw)
METHODS = [b"GET", b"POST", b"PUT", b"HEAD", b"OPTIONS", b"DELETE", b"get", b"PoSt"]
HOSTS = [b"origin.example", b"origin.example", b"origin.example", b"other.example:8080", b"origin.example:80"]
PATHS = [b"/", b"/a", b"/a/b?x=1", b"/%41", b"/a;b", b"*"]
CL_VALUES = [b"0", b"3", b"5", b"10", b"03", b"+3", b"3 ", b" 3", b"3, 3", b"3,4", b"-1", b"0x3", b"3.0", b"", b"abc", b"99999999999999999999", b"3\t",
             b"\xd9\xa3", b"1\xd9\xa0", b"\xef\xbc\x93", b"\xe0\xa5\xa9", b"\xb3", b"\xc2\xb3", b"3\xc2\xa0", b"\xc2\xa03", b"\xe2\x80\x833",
             b"3\xff", b"\xf0\x9d\x9f\x91", b"\x1c3", b"3\x85"]
TE_VALUES = [b"chunked", b"Chunked", b"CHUNKED", b"gzip, chunked", b"gzip,chunked", b"gzip ,\tchunked", b"deflate, chunked",
             b"compress, chunked", b"identity", b"gzip", b"deflate", b"compress", b"chunked, gzip", b"chunked, chunked",
             b"xchunked", b"chunked ", b" chunked", b"\tchunked", b"x-gzip, chunked", b"gzip, gzip, chunked", b"",
             b"chunked;q=1", b"chun\xc4\xb7ed", b"\xe2\x84\xaahunked", b"identity, chunked", b",chunked", b"chunked,",
             b"chunked\xc2\xa0", b"\xc2\xa0chunked", b"chun\xef\xbd\x8bed", b"gzip\xef\xbc\x8cchunked", b"gzip,\xe2\x80\x83chunked", b"chunked\x85",
             b"\xef\xbb\xbfchunked", b"chunked\xe2\x80\x8b", b"\x1cchunked", b"CHUN\xe2\x84\xaaED"]
NEUTRAL = [(b"Accept", b"*/*"), (b"X-A", b"1"), (b"x-a", b"2"), (b"Cookie", b"a=b; c=d"), (b"X-Empty", b""),
           (b"Connection", b"keep-alive"), (b"Connection", b"close"), (b"User-Agent", b"t/1.0 (x; y)"),
           (b"X-Obs", b"\xe9\xff"), (b"X-Tab", b"a\tb"), (b"Expect", b"100-continue"), (b"Content-Type", b"text/plain")]
BAD_LINES = [b"X-Sp : v", b" X-Lead: v", b": v", b"NoColon", b"X\x00N: v", b"X-N: a\x00b", b"X-Cr: a\rb", b"X-Cr2: a\r", b"X(: v",
             b"X-Fold: a\r\n b", b"X-Fold2: a\r\n\tb\r\n c", b"X-Fold3: a\r\n ", b"X-\xc3\xa9: v", b"X-Ctl: a\x01b", b"X-Del: a\x7fb",
             b"Content-Length : 3", b"Transfer-Encoding : chunked", b"Content-Length\t: 3", b"Content_Length: 3",
             b"Transfer-Encoding: chunked\r\n ", b"Content-Length: 3\r\n 0", b"X: a\x0bb", b"X: a\x0cb", b"\x0bX: v"]


def chunked_body(rng, body: bytes, quirks=True):
    out, i = b"", 0
    while i < len(body):
        n = rng.randint(1, max(1, len(body) - i))
        size = b"%x" % n
        if quirks and rng.chance(0.2): size = size.upper()
        if quirks and rng.chance(0.1): size = b"0" * rng.randint(1, 3) + size
        if quirks and rng.chance(0.04): size = unicodeify(rng, size)
        ext = rng.pick([b";a=b", b";x", b" ", b";a=\"q\"", b"\t"]) if quirks and rng.chance(0.15) else b""
        out += size + ext + b"\r\n" + body[i:i + n] + b"\r\n"
        i += n
    last = b"0"
    if quirks and rng.chance(0.1): last = b"00"
    if quirks and rng.chance(0.1): last += b";e"
    tail = b"\r\n"
    if quirks and rng.chance(0.08): tail = b"X-T: v\r\n\r\n"          # trailer section
    if quirks and rng.chance(0.05): tail = b"\n"                      # bare LF ends the trailer for h11
    return out + last + b"\r\n" + tail


def gen_body(rng):
    n = rng.pick([0, 0, 1, 3, 3, 5, 10, 17])
    alpha = b"abc\r\n0 :"
    return bytes(rng.pick(alpha) for _ in range(n))


def gen_headers_and_body(rng, is_request, version11=True):
    """-> (list of raw header lines, body bytes as sent on the wire)"""
    lines, wire = [], b""
    kind = rng.weighted([(30, "none"), (30, "cl"), (22, "te"), (6, "cl+te"), (4, "cl+cl"), (3, "te+te"), (5, "soup")])
    body = gen_body(rng)
    if kind == "none":
        wire = b"" if is_request or rng.chance(0.5) else body
    elif kind == "cl":
        v = b"%d" % len(body) if rng.chance(0.8) else rng.pick(CL_VALUES)
        if rng.chance(0.06): v = unicodeify(rng, b"%d" % len(body))
        lines.append(rng.pick([b"Content-Length", b"content-length", b"CONTENT-LENGTH"]) + b": " + v)
        wire = body
    elif kind == "te":
        v = rng.pick(TE_VALUES[:4]) if rng.chance(0.7) else rng.pick(TE_VALUES)
        lines.append(rng.pick([b"Transfer-Encoding", b"transfer-encoding"]) + b": " + v)
        wire = chunked_body(rng, body) if b"chunked" in v.lower() or rng.chance(0.3) else body
    elif kind == "cl+te":
        lines.append(b"Content-Length: %d" % len(body)); lines.append(b"Transfer-Encoding: " + rng.pick(TE_VALUES[:3]))
        if rng.chance(0.5): lines.reverse()
        wire = chunked_body(rng, body, quirks=False)
    elif kind == "cl+cl":
        a = b"%d" % len(body); b = a if rng.chance(0.4) else rng.pick(CL_VALUES)
        lines += [b"Content-Length: " + a, rng.pick([b"Content-Length", b"content-length"]) + b": " + b]
        wire = body
    elif kind == "te+te":
        lines += [b"Transfer-Encoding: " + rng.pick([b"gzip", b"chunked"]), b"Transfer-Encoding: chunked"]
        wire = chunked_body(rng, body, quirks=False)
    else:
        for _ in range(rng.randint(1, 3)):
            lines.append(rng.pick([b"Content-Length: " + rng.pick(CL_VALUES), b"Transfer-Encoding: " + rng.pick(TE_VALUES),
                                   rng.pick(BAD_LINES)]))
        wire = rng.pick([body, chunked_body(rng, body)])
    for _ in range(rng.weighted([(4, 0), (4, 1), (2, 2), (1, 3)])):
        k, v = rng.pick(NEUTRAL)
        lines.insert(rng.randint(0, len(lines)), k + rng.pick([b": ", b":", b":  ", b":\t"]) + v + rng.pick([b"", b"", b" "]))
    if rng.chance(0.08):
        lines.insert(rng.randint(0, len(lines)), rng.pick(BAD_LINES))
    return lines, wire


def gen_request(rng, mode):
    method = rng.pick(METHODS)
    v = rng.weighted([(85, b"HTTP/1.1"), (12, b"HTTP/1.0"), (1, b"HTTP/2.0"), (1, b"HTTP/1.2"), (1, b"http/1.1")])
    host = rng.pick(HOSTS)
    path = rng.pick(PATHS)
    absolute = (mode == "regular" and rng.chance(0.8)) or (mode != "regular" and rng.chance(0.1))
    if rng.chance(0.02) :
        method, target = b"CONNECT", host if b":" in host else host + b":443"
    elif absolute and path != b"*":
        target = rng.pick([b"http://", b"http://", b"HTTP://"]) + host + path
    else:
        target = path
    sp = b" " if rng.chance(0.95) else rng.pick([b"  ", b"\t", b" \t"])
    if rng.chance(0.02): v = unicodeify(rng, v)
    line = method + sp + target + b" " + v
    lines, wire = gen_headers_and_body(rng, True, v == b"HTTP/1.1")
    if rng.chance(0.93):
        lines.insert(0 if rng.chance(0.8) else rng.randint(0, len(lines)), rng.pick([b"Host", b"host"]) + b": " + host)
    if method == b"CONNECT": wire = b""
    eol = b"\r\n" if rng.chance(0.92) else b"\n"
    head = eol.join([line] + lines) + eol + eol
    if rng.chance(0.04): head = rng.pick([b"\r\n", b"\n", b"\r\n\r\n"]) + head
    return head + wire


def gen_response(rng):
    status = rng.weighted([(60, 200), (6, 204), (6, 304), (8, 404), (4, 500), (3, 100), (2, 103), (2, 301), (1, 199), (1, 205)])
    v = rng.weighted([(88, b"HTTP/1.1"), (10, b"HTTP/1.0"), (2, b"HTTP/1.2")])
    reason = rng.pick([b"OK", b"", b"Not Found", b"a b  c", b"\xe9", b"a\tb"])
    st = b"%d" % status
    if rng.chance(0.03): st = unicodeify(rng, st)
    if rng.chance(0.01): v = unicodeify(rng, v)
    line = v + b" " + st + ((b" " + reason) if reason or rng.chance(0.5) else b"")
    lines, wire = gen_headers_and_body(rng, False, v == b"HTTP/1.1")
    eol = b"\r\n" if rng.chance(0.94) else b"\n"
    head = eol.join([line] + lines) + eol + eol
    if rng.chance(0.03): head = b"\r\n" + head
    return head + wire


MUT_BYTES = b"\r\n \t:,;\x000159aAzcChHkK-\x0b\x0c\x7f\x80\xff"

# non-ASCII look-alikes: Unicode decimal digits (category Nd: str regex \d, int(), str.isdigit accept them), latin-1
# superscripts, Unicode whitespace (str.strip()/\s), letters that case-fold or NFKC-normalise into ASCII
def uni_digit(d: int, rng=None) -> bytes:
    bases = [0x0660, 0x06F0, 0x0966, 0xFF10, 0x09E6, 0x0E50, 0x1D7CE]
    base = rng.pick(bases) if rng else bases[0]
    return chr(base + d).encode("utf-8")


UNI_WS = [b"\xc2\xa0", b"\xe2\x80\x83", b"\xe2\x80\xa8", b"\xe3\x80\x80", b"\xc2\x85", b"\x1c", b"\x1f", b"\xa0", b"\x85"]
UNI_MISC = [b"\xb2", b"\xb9", b"\xb3", b"\xe2\x85\xa0", b"\xe2\x91\xa0", b"\xef\xbd\x8b", b"\xe2\x84\xaa", b"\xc4\xb0", b"\xc5\xbf",
            b"\xef\xbc\x8c", b"\xef\xbc\x9a", b"\xe2\x80\x8b", b"\xef\xbb\xbf", b"\xed\xa0\x80", b"\xc0\xb0", b"\xff", b"\x80"]


def unicodeify(rng, b: bytes) -> bytes:
    """one ASCII digit -> a Unicode decimal digit of the same value, or Unicode whitespace / look-alike inserted"""
    pos = [i for i, c in enumerate(b) if 48 <= c <= 57]
    r = rng.random()
    if pos and r < 0.6:
        i = rng.pick(pos)
        return b[:i] + uni_digit(b[i] - 48, rng) + b[i + 1:]
    i = rng.randint(0, len(b))
    return b[:i] + rng.pick(UNI_WS if r < 0.85 else UNI_MISC) + b[i:]


def mutate(rng, b: bytes) -> bytes:
    if not b: return b
    if rng.chance(0.2): return unicodeify(rng, b)
    i = rng.randrange(len(b))
    r = rng.random()
    if r < 0.35: return b[:i] + bytes([rng.pick(MUT_BYTES)]) + b[i + 1:]
    if r < 0.65: return b[:i] + bytes([rng.pick(MUT_BYTES)]) + b[i:]
    if r < 0.85: return b[:i] + b[i + 1:]
    j = b.find(b"\r\n", i)
    if j < 0: return b[:i]
    k = b.find(b"\r\n", j + 2)
    return b[:j + 2] + b[j + 2:k + 2] * 2 + b[k + 2:] if k > 0 else b


def gen_edits(rng, nflows):
    if not rng.chance(0.3): return []
    out = []
    for _ in range(rng.randint(1, 3)):
        f = rng.randrange(max(1, nflows))
        side = rng.pick(["request", "response"])
        op = rng.weighted([(3, "set"), (2, "add"), (2, "del"), (4, "body"), (2, "stream")])
        e = {"flow": f, "at": side, "op": op}
        if op in ("set", "add"):
            k, v = rng.pick(NEUTRAL + [(b"X-New", b"v w")])
            e["name_hex"], e["value_hex"] = hx(k), hx(v)
        elif op == "del":
            e["name_hex"] = hx(rng.pick([b"X-A", b"Accept", b"Connection", b"Expect", b"Cookie"]))
        elif op == "body":
            e["value_hex"] = hx(gen_body(rng))
        else:
            e["at"] = side + "headers"
        out.append(e)
    streamed = {(e["flow"], e["at"][:-7]) for e in out if e["op"] == "stream"}
    for e in out:
        if e["op"] != "stream" and (e["flow"], e["at"]) in streamed:
            e["at"] += "headers"      # once the head is streamed, later edits cannot reach the wire
    out.sort(key=lambda e: e["op"] != "stream")
    return out


SURPLUS = [b"HTTP/1.1 200 OK\r\nContent-Length: 11\r\n\r\nUNSOLICITED", b"HTTP/1.1 200 OK\r\nContent-Length: 0\r\n\r\n",
           b"HTTP/1.1 404 Not Found\r\nTransfer-Encoding: chunked\r\n\r\n3\r\nbad\r\n0\r\n\r\n", b"HTTP/1.1 304 Not Modified\r\n\r\n",
           b"HTTP/1.1 200 OK\r\nContent-Le", b"HTTP/1.1 2", b"\r\n", b"garbage", b"\x00"]


def gen_surplus_exchange(rng, split=None):
    """keep-alive exchange in which the origin sends more than it was asked for: response k is followed, in the same
    stream (delivered whole, or split exactly at the boundary), by surplus bytes — garbage, a complete unsolicited response,
    the beginning of one — and 1-2 further requests go to the same host over the same client connection."""
    mode = rng.weighted([(5, "regular"), (3, "reverse"), (2, "transparent")])
    host = rng.pick([b"origin.example", b"origin.example:80"])
    n = rng.randint(2, 3)
    reqs, resps = [], []
    for i in range(n):
        if rng.chance(0.25):
            reqs.append(gen_request(rng, mode))
        else:
            t = (b"http://" + host + b"/r%d" % i) if mode == "regular" else b"/r%d" % i
            body = gen_body(rng) if rng.chance(0.3) else b""
            reqs.append(rng.pick([b"GET", b"POST", b"HEAD"]) + b" " + t + b" HTTP/1.1\r\nHost: " + host + b"\r\n" +
                        (b"Content-Length: %d\r\n" % len(body) if body else b"") + b"\r\n" + body)
        if rng.chance(0.25):
            resps.append(gen_response(rng))
        else:
            body = b"real%d" % i
            resps.append(rng.pick([b"HTTP/1.1 200 OK\r\nContent-Length: %d\r\n\r\n" % len(body) + body,
                                   b"HTTP/1.1 200 OK\r\nTransfer-Encoding: chunked\r\n\r\n%x\r\n" % len(body) + body + b"\r\n0\r\n\r\n",
                                   b"HTTP/1.1 204 No Content\r\n\r\n", b"HTTP/1.1 304 Not Modified\r\nETag: x\r\n\r\n"]))
    k = rng.randrange(n - 1)
    clean_len = len(resps[k])
    resps[k] = resps[k] + (rng.pick(SURPLUS) if rng.chance(0.8) else gen_response(rng))
    case = {"mode": mode, "client_hex": hx(b"".join(reqs)),
            "resps": [{"data_hex": hx(x), "close": False} for x in resps], "edits": []}
    # the split form needs the next request to arrive in a LATER client segment than request k: possible only where request k
    # ends where its generator meant it to (a mutated request may announce a longer body and swallow the head of the next one)
    pq = R.parse_requests(b"".join(reqs))
    boundary_ok = len(pq.messages) > k and pq.messages[k]["end"] == len(b"".join(reqs[:k + 1]))
    if (split or (split is None and rng.chance(0.4))) and boundary_ok:
        # split exactly at the boundary; the surplus still arrives before the next request is sent (the client's next
        # request comes in a later segment, server segments first) — surplus that arrives after the next request has been
        # forwarded is indistinguishable from its response for any proxy
        case["scuts"] = [[clean_len] if i == k else [] for i in range(n)]
        case["ccuts"] = [len(b"".join(reqs[:k + 1]))]
        case["sched"] = []
    return case


PROXY_REPLIES = [b"HTTP/1.1 200 Connection established\r\n\r\n", b"HTTP/1.0 200 OK\r\n\r\n", b"HTTP/1.1 200\r\n\r\n",
                 b"HTTP/1.1 200 OK\r\nProxy-Agent: p/1.0\r\nX-Fold: a\r\n b\r\n\r\n", b"HTTP/1.1 200 OK\nVia: 1.1 p\n\n", b"\r\nHTTP/1.1 200 OK\r\n\r\n",
                 b"\n\r\nHTTP/1.1 299 Fine\r\n\r\n", b"HTTP/1.1 204 No Content\r\n\r\n", b"http/1.1 200 ok\r\n\r\n",
                 b"HTTP/1.1 407 Proxy Authentication Required\r\nProxy-Authenticate: Basic realm=\"p\"\r\nContent-Length: 6\r\n\r\ndenied",
                 b"HTTP/1.1 502 Bad Gateway\r\nConnection: close\r\n\r\n", b"HTTP/1.1 403 Forbidden\r\nTransfer-Encoding: chunked\r\n\r\n2\r\nno\r\n0\r\n\r\n",
                 b"HTTP/1.1 100 Continue\r\n\r\n", b"HTTP/1.1 301 Moved\r\nLocation: http://x/\r\n\r\n", b"HTTP/1.1 2000 OK\r\n\r\n", b"HTTP/1.1 200 OK\r\nNoColon\r\n\r\n",
                 b"SSH-2.0-OpenSSH_9\r\n", b"\x05\x00", b"\x16\x03\x01\x00\x02\x02\x28", b"HTTP", b"HTTP/1.1 200 OK\r\n"]


def gen_via_exchange(rng):
    """an addon routes the flows through a parent HTTP proxy: the proxy opens a CONNECT tunnel there and reads the parent's
    HTTP/1 reply — a third inbound HTTP/1 byte stream (besides client requests and origin responses)"""
    mode = rng.weighted([(5, "regular"), (3, "reverse"), (2, "transparent")])
    host = b"origin.example"
    n = rng.randint(1, 2)
    reqs, resps = [], []
    for i in range(n):
        t = (b"http://" + host + b"/v%d" % i) if mode == "regular" else b"/v%d" % i
        reqs.append(gen_request(rng, mode) if rng.chance(0.2) else b"GET " + t + b" HTTP/1.1\r\nHost: " + host + b"\r\n\r\n")
        resps.append(gen_response(rng) if rng.chance(0.3) else b"HTTP/1.1 200 OK\r\nContent-Length: 2\r\n\r\nv%d" % i)
    replies = []
    for _ in range(n + 1):
        d = rng.pick(PROXY_REPLIES[:9]) if rng.chance(0.6) else rng.pick(PROXY_REPLIES)
        if rng.chance(0.2): d = mutate(rng, d)
        replies.append({"data_hex": hx(d), "cuts": [], "close": False})
    return {"mode": mode, "via": True, "client_hex": hx(b"".join(reqs)),
            "resps": [{"data_hex": hx(x), "close": False} for x in resps], "edits": [], "proxy_replies": replies}


def gen_exchange(rng):
    if rng.chance(0.1):
        return gen_surplus_exchange(rng)
    mode = rng.weighted([(5, "regular"), (3, "reverse"), (2, "transparent")])
    n = rng.weighted([(55, 1), (30, 2), (15, 3)])
    r = rng.random()
    reqs = [gen_request(rng, mode) for _ in range(n)]
    resps = [gen_response(rng) for _ in range(n)]
    if 0.7 <= r < 0.9:
        if rng.chance(0.6):
            i = rng.randrange(n); reqs[i] = mutate(rng, reqs[i])
        else:
            i = rng.randrange(n); resps[i] = mutate(rng, resps[i])
    elif r >= 0.9:
        toks = [b"GET ", b"POST ", b"/ ", b"http://origin.example/", b"HTTP/1.1", b"HTTP/1.0", b"\r\n", b"\n", b"\r", b"Host: origin.example",
                b"Content-Length: ", b"Transfer-Encoding: chunked", b"3", b"0", b"abc", b":", b" ", b"\t", b",", b"\x00"]
        reqs = [b"".join(rng.pick(toks) for _ in range(rng.randint(1, 14)))]
        if rng.chance(0.5):
            resps = [b"".join(rng.pick([b"HTTP/1.1 ", b"200 ", b"OK", b"\r\n", b"\n", b"Content-Length: ", b"2", b"hi", b"Transfer-Encoding: chunked",
                                        b"0", b":", b" "]) for _ in range(rng.randint(1, 12)))]
    # surplus: bytes the origin sends right behind a complete response (same segment, or split at the boundary by a
    # schedule) — garbage, a whole unsolicited response, or the beginning of one — while further requests follow
    if r < 0.9 and rng.chance(0.15):
        i = rng.randrange(len(resps))
        resps[i] = resps[i] + rng.pick([
            b"HTTP/1.1 200 OK\r\nContent-Length: 11\r\n\r\nUNSOLICITED",
            b"HTTP/1.1 200 OK\r\nContent-Length: 0\r\n\r\n",
            b"HTTP/1.1 404 Not Found\r\nTransfer-Encoding: chunked\r\n\r\n3\r\nbad\r\n0\r\n\r\n",
            b"HTTP/1.1 200 OK\r\nContent-Le", b"HTTP/1.1 2", b"\r\n", b"garbage", b"\x00", gen_response(rng)])
        if n == 1 or rng.chance(0.5):
            host = rng.pick([b"origin.example", b"origin.example:80"])
            for _ in range(rng.randint(1, 2)):
                t = (b"http://" + host + b"/next") if mode == "regular" else b"/next"
                reqs.append(b"GET " + t + b" HTTP/1.1\r\nHost: " + host + b"\r\n\r\n")
                resps.append(gen_response(rng) if rng.chance(0.5) else b"HTTP/1.1 200 OK\r\nContent-Length: 4\r\n\r\nreal")
            n = len(reqs)
    case = {"mode": mode, "client_hex": hx(b"".join(reqs)),
            "resps": [{"data_hex": hx(x), "close": rng.chance(0.25)} for x in resps],
            "edits": gen_edits(rng, n)}
    return case


def lenient_chunked_end(raw: bytes):
    """end offset of the first final response in `raw` when it is chunked and its chunk-size lines are only readable leniently
    (trailing OWS / odd extensions, which h11 — hence the proxy — accepts and the strict reference reader does not); None if
    that is not the situation.  Used only to shape the environment: nothing follows a complete response before the next request."""
    pos = 0
    while True:
        h = re.search(rb"\r?\n\r?\n", raw[pos:])
        if not h: return None
        head = raw[pos:pos + h.end()]
        m = re.match(rb"HTTP/[0-9]\.[0-9][ \t]+([0-9]{3})", head)
        if not m: return None
        pos += h.end()
        if m.group(1)[:1] == b"1" and m.group(1) != b"101": continue        # interim: the final response follows
        break
    if not re.search(rb"(?im)^transfer-encoding[ \t]*:.*chunked[ \t]*\r?$", head): return None
    while True:
        e = raw.find(b"\r\n", pos)
        if e < 0: return None
        m = re.fullmatch(rb"([0-9A-Fa-f]{1,20})(;[^\n]*)?[ \t]*", raw[pos:e])
        if not m: return None
        n = int(m.group(1), 16)
        pos = e + 2
        if n == 0: break
        if len(raw) < pos + n + 2 or raw[pos + n:pos + n + 2] != b"\r\n": return None
        pos += n + 2
    t = re.match(rb"(?:[^\r\n]+\r?\n)*\r?\n", raw[pos:])          # trailer section up to the blank line
    return pos + t.end() if t else None


def normalize_causality(case):
    """The origin's FIN is part of the schedule only where the protocol makes it part of the message (read-until-close
    body, truncated message): a server that silently drops a keep-alive connection races with the next request whatever the
    segmentation — that race is the environment's.  Likewise nothing follows a complete response until the next request
    has been sent.  Applied by C02's implementation runner to every case (also to shrunk ones)."""
    client = unhx(case["client_hex"])
    rs = []
    cm = [m["method"] for m in R.parse_requests(client).messages]
    for k, r in enumerate(case["resps"]):
        if case.get("keep_surplus"):
            # gen_surplus_exchange in its split form: the surplus behind response k arrives — in the same segment or in one
            # of its own — while no request is outstanding (the next client request comes in a later segment, server
            # segments first): a legitimate server stream, and both deliveries must end the same way
            rs.append({"data_hex": r["data_hex"], "close": False}); continue
        raw = unhx(r["data_hex"])
        lead = len(raw) - len(raw.lstrip(b"\r\n"))        # blank lines before the status line are skipped by the proxy
        p = R.parse_responses(raw[lead:], [cm[k]] if k < len(cm) else None, eof=True)
        finals = [m for m in p.messages if not m["interim"]]
        complete = bool(finals) and finals[0]["framing"] != "eof"
        data = raw
        if complete:
            data = raw[:lead + finals[0]["end"]]
        elif not finals and p.stop is not None and p.stop[0] != "incomplete" and (k >= len(cm) or cm[k].upper() != b"HEAD"):
            le = lenient_chunked_end(raw[lead:])
            if le is not None: data = raw[:lead + le]
        open_ended = (finals[0]["framing"] == "eof") if finals else (p.stop is not None and p.stop[0] == "incomplete")
        if k >= len(cm):
            # the reference parser could not read the k-th request (e.g. two spaces in the request line, which mitmproxy
            # accepts): the method — hence whether a body follows the response head — is unknown here.  Stay on the safe
            # side: deliver the head only and no FIN (a restriction of the generated schedules, not of the oracle).
            q = R.parse_responses(raw[lead:], [b"HEAD"], eof=True)
            qf = [m for m in q.messages if not m["interim"]]
            if qf:
                data = raw[:lead + qf[0]["end"]]
            open_ended = False
        rs.append({"data_hex": hx(data), "close": bool(r.get("close")) and open_ended})
    c = dict(case); c["resps"] = rs
    if case.get("proxy_replies"):
        prs = []
        for pr in case["proxy_replies"]:
            raw = unhx(pr["data_hex"])
            lead = len(raw) - len(raw.lstrip(b"\r\n"))
            m = re.match(rb"(?i)HTTP/[0-9]\.[0-9][ \t]+2[0-9][0-9]\b", raw[lead:])
            h = re.search(rb"\n\r?\n", raw[lead:])
            if m and h:
                raw = raw[:lead + h.end()]      # a 2xx reply opens the tunnel: nothing follows until the request has been sent
            prs.append(dict(pr, data_hex=hx(raw)))
        c["proxy_replies"] = prs
    return c


def gen_schedule(rng, case, kind=None):
    """fills ccuts / scuts / sched"""
    client = unhx(case["client_hex"])
    kind = kind or rng.weighted([(3, "one"), (2, "bytes"), (5, "rand")])
    c = dict(case)
    def cuts(b):
        if kind == "bytes": return list(range(1, len(b)))
        if kind == "one": return [rng.randrange(1, len(b))] if len(b) > 1 else []
        k = rng.randint(0, min(6, max(0, len(b) - 1)))
        return sorted(rng.sample(range(1, len(b)), k)) if k else []
    c["ccuts"] = cuts(client)
    c["sched"] = [rng.randint(0, 1) for _ in range(rng.pick([0, 8, 40]))]
    rs = normalize_causality(case)["resps"]
    c["resps"] = rs
    c["scuts"] = [cuts(unhx(r["data_hex"])) for r in rs]
    if case.get("proxy_replies"):
        c["proxy_replies"] = [dict(pr, cuts=(cuts(unhx(pr["data_hex"])) if not rng.chance(0.3) else [rng.randint(1, 6)]))
                              for pr in normalize_causality(case)["proxy_replies"]]
    return c
