"""C02 — HTTP/1 behaviour does not depend on TCP segmentation or pipelining.

Same driving as C01 (c01_run.py).  A case is an exchange (client stream with 1–3 pipelined requests, one scripted origin
response per forwarded request, optional addon edits) plus a *schedule*: cut points of the client stream, cut points of
every response, and the interleaving of client and server segments (respecting causality: bytes of response k only after
request k was forwarded completely).  The direct oracle needs no model: outcome(schedule) == outcome(whole streams).
"""
import json
from common.check import PropertyCheck, hx, unhx
from common import refparsers as R
import c01_run as X
import c01 as C1


def semantic(obs):
    """what C02 names: 'the same flows (same requests, responses, bodies and hook sequence) and the peers receive
    semantically identical messages in the same order' — bytes per connection are compared after parsing with the
    reference parser (chunk boundaries of streamed bodies are not semantic); an unparseable remainder is compared raw."""
    flows = [{"hooks": f["hooks"], "req": f["req"], "resp": f["resp"], "error": f["error"], "server": f["server"]}
             for f in obs["flows"]]
    meths = []
    for f in obs["flows"]:
        s = f["req"] or f.get("req_head")
        meths.append(b"CONNECT" if "http_connect" in f["hooks"] else (unhx(s["method"]) if s else b"GET"))
    cb = C1.client_bytes(obs)
    p = R.parse_responses(cb, meths, eof="client" in obs["closed"])
    client = [[m["status"], m["reason"].hex(), [[k.hex(), v.hex()] for k, v in m["fields"]], m["body"].hex()] for m in p.messages]
    ctail = [str(p.stop), cb[p.rest:].hex() if p.stop else ""]
    if p.stop is not None and p.stop[0] == "incomplete" and p.partial is not None:
        ctail = ["partial", [[k.hex(), v.hex()] for k, v in p.partial["fields"]], p.partial.get("body", b"").hex() if p.partial["framing"] == "eof" else ""]
    errs = [x for x in obs["client_out"] if x.startswith("ERR")]
    servers = {}
    for lab, h in obs["server_out"].items():
        b = bytes.fromhex(h)
        q = R.parse_requests(b)
        servers[lab] = [[[m["method"].hex(), m["target"].hex(), [[k.hex(), v.hex()] for k, v in m["fields"]], m["body"].hex()] for m in q.messages],
                        str(q.stop), (b[q.rest:].hex() if q.stop and q.stop[0] != "incomplete" else "")]
    return {"flows": flows, "client": client, "ctail": ctail, "errs": errs, "servers": servers,
            # closing matters to C02 where it is part of a message: the client connection (ends a read-until-close
            # response) and half-closes; whether an idle upstream connection is kept is not something a peer "receives"
            "closed": [c for c in obs["closed"] if c == "client"], "half_closed": obs["half_closed"]}, obs["crash"]


def diff_keys(a, b):
    return [k for k in a if json.dumps(a[k], sort_keys=True) != json.dumps(b[k], sort_keys=True)]


def replay_request(client: bytes, k: int):
    """structured facts about the k-th request of a client stream, obtained by replaying the stream through the real
    reading functions (h11 buffer + readers, read_request_head, expected_http_body_size, validate_headers) without any layer:
    {"valid": validate_headers ok, "expect100", "framing": "chunked"|"length"|"eof", "body": "eom"|"protocol-error"|"trailers"|
    "incomplete"}; None if the stream has no k-th request head"""
    import h11
    from h11._receivebuffer import ReceiveBuffer
    from mitmproxy.net.http import http1, validate
    from mitmproxy.proxy.layers.http._http1 import make_body_reader
    buf = ReceiveBuffer(); buf += client
    i = 0
    while True:
        lines = buf.maybe_extract_lines()
        while lines == []:
            lines = buf.maybe_extract_lines()
        if lines is None:
            return None
        try:
            req = http1.read_request_head([bytes(x) for x in lines])
            size = http1.expected_http_body_size(req)
        except ValueError:
            return None
        facts = {"framing": "chunked" if size is None else "eof" if size == -1 else "length",
                 "expect100": req.headers.get("expect", "").lower() == "100-continue"}
        try:
            validate.validate_headers(req); facts["valid"] = True
        except ValueError:
            facts["valid"] = False
        reader = make_body_reader(size)
        body = "incomplete"
        try:
            while True:
                ev = reader(buf)
                if ev is None: break
                if isinstance(ev, h11.EndOfMessage):
                    body = "trailers" if ev.headers else "eom"; break
        except h11.ProtocolError:
            body = "protocol-error"
        facts["body"] = body
        if i == k:
            return facts
        if body != "eom":
            return None
        i += 1


# ================================================================================================================
# unit-level model tie: the real Http1Server / Http1Client (no HttpLayer) fed with segments vs Model/C02.lean's machine
def _unit_ctx():
    from c01 import _ctx
    return _ctx()


def _reader_phase(conn):
    from h11._readers import ChunkedReader, ContentLengthReader, Http10Reader
    st = conn.state.__name__
    if st == "read_headers": return "head"
    if st == "wait": return "wait"
    if st == "done": return "closed"
    if st == "read_body":
        r = conn.body_reader
        if isinstance(r, ContentLengthReader): return "cl"
        if isinstance(r, Http10Reader): return "eof"
        if isinstance(r, ChunkedReader):
            if r._reading_trailer: return "ctrail"
            if r._bytes_to_discard: return "cdisc"
            return "cdata" if r._bytes_in_chunk > 0 else "csize"
    return st


def unit_req(segs):
    """bare Http1Server: every completed request is answered at once with `200, Content-Length: 0` (as the model driver does)"""
    from mitmproxy import http
    from mitmproxy.proxy import events, commands
    from mitmproxy.proxy.layers.http import _http1, _events
    from mitmproxy.proxy.layers.http._base import ReceiveHttp
    ctx = _unit_ctx()
    srv = _http1.Http1Server(ctx)
    list(srv.handle_event(events.Start()))
    out, body, closed = [], b"", False
    pending = []

    def pump(gen):
        nonlocal body, closed
        for cmd in gen:
            if isinstance(cmd, ReceiveHttp):
                ev = cmd.event
                if isinstance(ev, _events.RequestHeaders): body = b""
                elif isinstance(ev, _events.RequestData): body += ev.data
                elif isinstance(ev, _events.RequestEndOfMessage):
                    out.append("m:" + hx(body)); pending.append(ev.stream_id)
                elif isinstance(ev, _events.RequestProtocolError) and ev.message.startswith("HTTP/1 protocol error"):
                    out.append("p")
            elif isinstance(cmd, commands.SendData) and cmd.data.startswith(b"HTTP/1.1 400 "):
                out.append("r")
            elif isinstance(cmd, commands.CloseConnection):
                closed = True
    for seg in segs:
        if closed: break
        pump(srv.handle_event(events.DataReceived(ctx.client, seg)))
        while pending and not closed:
            sid = pending.pop(0)
            resp = http.Response.make(200, b"")
            pump(srv.handle_event(_events.ResponseHeaders(sid, resp, True)))
            pump(srv.handle_event(_events.ResponseEndOfMessage(sid)))
    return (",".join(out) or "-") + " " + ("closed" if closed else _reader_phase(srv))


def unit_resp(method, segs):
    """bare Http1Client with one outstanding request: up to the first completed / failed response"""
    from mitmproxy import http
    from mitmproxy.connection import Server, ConnectionState
    from mitmproxy.proxy import events, commands
    from mitmproxy.proxy.layers.http import _http1, _events
    from mitmproxy.proxy.layers.http._base import ReceiveHttp
    ctx = _unit_ctx(); ctx.server = Server(address=("origin.example", 80)); ctx.server.state = ConnectionState.OPEN
    cl = _http1.Http1Client(ctx)
    list(cl.handle_event(events.Start()))
    req = http.Request.make("GET", "http://origin.example/"); req.data.method = method
    list(cl.handle_event(_events.RequestHeaders(1, req, True))); list(cl.handle_event(_events.RequestEndOfMessage(1)))
    out, body = [], b""
    for seg in segs:
        if out: break
        for cmd in cl.handle_event(events.DataReceived(ctx.server, seg)):
            if isinstance(cmd, ReceiveHttp):
                ev = cmd.event
                if isinstance(ev, _events.ResponseHeaders): body = b""
                elif isinstance(ev, _events.ResponseData): body += ev.data
                elif isinstance(ev, _events.ResponseEndOfMessage): out.append("m:" + hx(body))
                elif isinstance(ev, _events.ResponseProtocolError):
                    out.append("p" if ev.message.startswith("HTTP/1 protocol error") else "r")
            if out: break
    return out[0] if out else "-"


def unit_hs(segs):
    """the real HttpUpstreamProxy.receive_handshake_data fed with the segments of the parent proxy's reply to CONNECT; once the
    tunnel is open everything (the rest of the buffer, later segments) is tunnel payload, as TunnelLayer routes it"""
    from mitmproxy.connection import Server
    from mitmproxy.proxy.layers.http._upstream_proxy import HttpUpstreamProxy
    ctx = _unit_ctx(); ctx.server = Server(address=("origin.example", 443))
    lay = HttpUpstreamProxy(ctx, Server(address=("proxy.example", 3128)), True)
    tunnel, state = [], None

    def receive_data(data):
        tunnel.append(bytes(data))
        return
        yield
    lay.receive_data = receive_data
    for seg in segs:
        if state == "open":
            tunnel.append(seg); continue
        if state == "fail": break
        gen = lay.receive_handshake_data(seg)
        try:
            while True: next(gen)
        except StopIteration as e:
            ok, err = e.value
        if ok: state = "open"
        elif err is not None: state = "fail"
    return "m:" + hx(b"".join(tunnel)) if state == "open" else "r" if state == "fail" else "-"


def sys_tokens(obs, meth):
    """the real HttpLayer's side of the `sys` tie: completed messages in the order the proxy finished sending them —
    Q:<body> a request forwarded to the origin, R:<body> a final response relayed to the client (interim 1xx are swallowed),
    Qx / Rx the proxy's own 400 / 502 page (request / response could not be read) — reference-parsed from the bytes sent"""
    toks, acc, seen = [], {}, {}
    for lab, d in obs["sent_log"]:
        if lab == "client" and d.startswith("ERR"):
            # the 400 page for an unreadable request is not part of this tie: whether it still goes out when the broken body
            # arrives in the same segment is finding F-C02b; the request-side rejections are tied at unit level (unit-req)
            if d != "ERR400": toks.append("Rx" if d == "ERR502" else d)
            continue
        acc[lab] = acc.get(lab, b"") + bytes.fromhex(d)
        if lab == "client":
            msgs = [m for m in R.parse_responses(acc[lab], [meth] * 16, eof=False).messages if not m["interim"]]
            tag = "R:"
        else:
            msgs = R.parse_requests(acc[lab]).messages
            tag = "Q:"
        for m in msgs[seen.get(lab, 0):]: toks.append(tag + hx(m["body"]))
        seen[lab] = len(msgs)
    return ",".join(toks) or "-"


def sys_request(rng, meth):
    body = X.gen_body(rng)
    k = rng.weighted([(3, "none"), (4, "cl"), (3, "te"), (1, "bad")])
    lines = [meth + b" " + rng.pick([b"/", b"/a", b"/a/b?x=1"]) + b" HTTP/1.1", b"Host: origin.example"]
    if rng.chance(0.3): lines.append(rng.pick([b"Accept: */*", b"X-A: 1", b"Cookie: a=b; c=d", b"X-Fold: a\r\n b"]))
    wire = b""
    if k == "cl": lines.append(b"Content-Length: %d" % len(body)); wire = body
    elif k == "te": lines.append(b"Transfer-Encoding: chunked"); wire = X.chunked_body(rng, body, quirks=rng.chance(0.5))
    elif k == "bad":
        lines += rng.pick([[b"Content-Length: 3", b"Transfer-Encoding: chunked"], [b"Content-Length: 3", b"Content-Length: 4"],
                           [b"Content-Length: x"], [b"Transfer-Encoding: chunked"], [b"NoColon"]])
        wire = b"Z\r\nabc\r\n"
    return (b"\r\n" if rng.chance(0.1) else b"") + b"\r\n".join(lines) + b"\r\n\r\n" + wire


def sys_response(rng, meth=b"GET"):
    body = X.gen_body(rng)
    k = rng.weighted([(4, "cl"), (3, "te"), (1, "204"), (1, "304"), (1, "bad")])
    status = b"HTTP/1.1 200 OK"
    lines, wire = [], b""
    if k == "cl": lines.append(b"Content-Length: %d" % len(body)); wire = body
    elif k == "te": lines.append(b"Transfer-Encoding: chunked"); wire = X.chunked_body(rng, body, quirks=rng.chance(0.5))
    elif k == "204": status = b"HTTP/1.1 204 No Content"
    elif k == "304": status = b"HTTP/1.1 304 Not Modified"; lines.append(b"Content-Length: 5")
    else:
        # (for HEAD the reader never looks at the framing fields — HttpStream's validate_headers does, which is C01's subject and
        # not part of the coupled-readers model: only unreadable heads there)
        lines += [b"NoColon"] if meth == b"HEAD" else rng.pick([[b"Content-Length: 3", b"Content-Length: 4"], [b"Content-Length: x"], [b"Transfer-Encoding: chunked"], [b"NoColon"]])
        wire = b"Z\r\nabc\r\n"
    if rng.chance(0.3): lines.append(rng.pick([b"X-A: 1", b"Content-Type: text/plain", b"Set-Cookie: a=b"]))
    lead = b"\r\n" if rng.chance(0.1) else b""
    if rng.chance(0.15): lead += b"HTTP/1.1 103 Early Hints\r\nLink: </x>\r\n\r\n"
    return lead + b"\r\n".join([status] + lines) + b"\r\n\r\n" + wire


def first_terminal(model_reply):
    items = model_reply.split(" ")[0]
    if items == "-": return "-"
    return items.split(",")[0]


class Check(PropertyCheck):
    prop = "C02"
    design_ref = "§5 C02"
    level_text = ("Lean theorems about the model of Http1Connection's read side (state = phase x unparsed buffer): head extraction "
                  "with h11 maybe_extract_lines and the blank-line loop of the fixed read_headers, framing decision as a parameter "
                  "(instantiated for requests — requestSize —, for the client side — responseSize, incl. swallowing interim 1xx — and for "
                  "the parent proxy's CONNECT reply read by HttpUpstreamProxy.receive_handshake_data — handshakeSize, "
                  "handshake_seg_independent), "
                  "ContentLengthReader and Http10Reader body phases, the four sub-states of the h11 ChunkedReader (size line with "
                  "extensions and trailing OWS per the chunk_header regex, chunk data, the CR LF after the data, last-chunk and trailer "
                  "section — a non-empty trailer section is the protocol error of fix 4f0e88849), wait until the flow is done, release = "
                  "mark_done re-dispatch, closed. Proved for ALL states and byte strings: machine_lawful (feed (a++b) = feed a then "
                  "feed b, outputs concatenated), hence h1_seg_independent for ALL streams and ALL segmentations incl. chunked bodies; "
                  "wait_buffers + pipelined_in_order (bytes arriving before or after the previous flow is released give the same next "
                  "request); both connections together (Sys: the two readers coupled as in buffered mode — a completed request makes the "
                  "upstream reader expect a response, a completed response releases the client-side reader): client_early, "
                  "merged_schedule_normal_form (every causal interleaving of client and server segments = all client bytes first, then "
                  "the same server segments), merged_schedule_independent, client_merge, server_merge — the outcome depends only on the "
                  "client byte stream and the byte string of each response; causal_of_expected (Causal follows from the invariant Inv and the "
                  "environment assumption Expected), answered_in_order (completed requests and responses alternate), "
                  "expect_only_when_idle (the default branch of `expect` is unreachable under Inv); old_machine_counterexample shows "
                  "the pre-fix machine violates the law on the F-C02a witness. Tied to the code by the driver mv_c02 at three levels: "
                  "`req`/`resp` — the machine vs the bare Http1Server / Http1Client on segmented streams; `hs` — the machine instantiated "
                  "with handshakeSize vs the real HttpUpstreamProxy.receive_handshake_data on segmented CONNECT replies (tunnel / refused / "
                  "incomplete, and what is left for the tunnel); `sys` — sysRun (the object of the merged-schedule theorems, with "
                  "requestSize / responseSize) replayed on the segments in the order they were actually delivered to the real HttpLayer, "
                  "compared with the sequence of complete requests forwarded upstream and final responses relayed to the client (bodies, "
                  "order across both connections, 502 for an unreadable response). Besides, the real HttpLayer is checked directly "
                  "with no model in between: for generated exchanges (1-3 pipelined requests, scripted "
                  "origin responses, addon edits) the outcome of a schedule (segmentation of both streams + interleaving respecting "
                  "causality) must equal the outcome of whole-stream delivery: flows, hook sequence per flow, reference-parsed messages "
                  "per connection, client-side close.")
    level_note = ("The merged-schedule theorems are about buffered mode under the causality assumption `Causal` (an origin segment "
                  "arrives only while the client-side reader waits for the flow to finish); "
                  "on the client side bytes that arrive while no request is outstanding stay buffered in the model, the real code "
                  "closes the connection (excluded by the causality assumption). The discard of CR LF after chunk data is matched "
                  "byte by byte in the model (h11 matches as many bytes as are there — same result under the drain loop). "
                  "Model tie (driver mv_c02), details: `req` — the machine is run on generated segmentations and compared with the bare real Http1Server "
                  "(every completed request answered at once, mark_done's keep-alive decision via C01.connectionClose; this glue, `afterMsg`, "
                  "is the driver's, it is not an object of any theorem) — messages with "
                  "bodies, rejections, protocol errors and the reader sub-state at the end — `resp` — with the bare Http1Client up to the "
                  "first completed/failed response; the functions the machine uses are additionally tied in C01. `sys` cases are the "
                  "class the Sys model describes: one upstream connection (reverse mode), one request method per case (sizeR is fixed), "
                  "HTTP/1.1 keep-alive, no addon edits, no streaming, no read-until-close responses, causal schedules; not compared there: "
                  "the proxy's own 400 page for an unreadable request (whether it is still written is finding F-C02b; request-side "
                  "rejections are tied by `req`), the final reader phases (the run ends with the client's half-close), and HttpStream's "
                  "validate_headers, which is not part of the coupled-readers model (for HEAD only unreadable response heads are "
                  "generated). The quick tier runs 400 tie cases (all four kinds) before anything else, corpus/C02/model_tie.json holds 22 fixed ones. "
                  "Hook sequence: the statement's 'same … hook sequence' has NO theorem — the model's outputs are messages and "
                  "rejections only; hooks are compared by the direct oracle on the real layer (segmented vs whole delivery). "
                  "answered_in_order proves that completed requests and responses ALTERNATE (the k-th response after the k-th request and "
                  "before the (k+1)-th) on one in-order connection under Inv and Expected — that is 'each response matched to its own "
                  "request' there; requests the proxy answers itself (400) and protocol errors are not messages in `msgsOf` and do not "
                  "take part in the alternation (after one of them the reader is closed). "
                  "Out of scope by design: tunnel payload after CONNECT, request streaming (head forwarded before the body is judged), "
                  "an origin that drops a keep-alive connection without announcing it (races with the next request).")
    technique = ("Lean 4 proof (feed_append for the drain loop + generic seg_independent; merged schedules by induction) + model tie "
                 "at reader, handshake and HttpLayer level + schedule-vs-whole oracle on the real layer")
    rule = ("all three inbound HTTP/1 byte streams are segmented: client requests, origin responses, and the parent proxy's reply to "
            "CONNECT (per-flow server_conn.via: 200/204/299/407/502/403, with body, extra or folded headers, bare LF, leading CRLF, "
            "non-HTTP greetings; every split point incl. inside 'HTTP/' and byte by byte for four fixed replies, random cuts otherwise); "
            "every split point (client side and server side) and the all-one-byte schedule of three fixed exchanges (leading CRLF, "
            "chunked + pipelining, bare-LF head + read-until-close), then generated exchanges of C01's grammar x schedules: one cut, "
            "k random cuts, all-one-byte; x random client/server interleavings. distinct = distinct (exchange, schedule); "
            "non-trivial = at least one segment boundary.")
    budget = {"quick": 2500, "thorough": 60000}
    time_budget = {"quick": 20, "thorough": 400}
    fingerprints = ["mitmproxy.proxy.layers.http._http1:Http1Connection._handle_event", "mitmproxy.proxy.layers.http._http1:Http1Connection.read_body",
                    "mitmproxy.proxy.layers.http._http1:Http1Connection.wait", "mitmproxy.proxy.layers.http._http1:Http1Connection.mark_done",
                    "mitmproxy.proxy.layers.http._http1:Http1Connection.make_pipe",
                    "mitmproxy.proxy.layers.http._http1:Http1Server.read_headers", "mitmproxy.proxy.layers.http._http1:Http1Server.mark_done",
                    "mitmproxy.proxy.layers.http._http1:Http1Client.read_headers", "mitmproxy.proxy.layers.http._http1:make_body_reader",
                    "mitmproxy.proxy.utils:ReceiveBuffer",
                    "mitmproxy.proxy.layers.http._upstream_proxy:HttpUpstreamProxy.receive_handshake_data"]
    trusted_base = ["h11 ReceiveBuffer / ContentLengthReader / Http10Reader / ChunkedReader as transcribed in Model/C02.lean",
                    "harness/common/world.py as the stand-in for proxy/server.py (validated separately against the asyncio server)",
                    "harness/common/refparsers.py for comparing what the peers receive semantically"]
    parallel = False
    has_model = True

    def setup(self, tier):
        self.known_selftest()

    def generate(self, rng, tier):
        # the model tie first (cheap, and the quick tier's time budget must not be spent before it runs): bare Http1Server /
        # Http1Client / receive_handshake_data vs the machine, and the real HttpLayer vs sysRun
        k, n0 = 0, (400 if tier == "quick" else 2000)
        while k < n0:
            for c in self.unit_cases(rng):
                k += 1
                yield c
        # every split point of short streams
        short = [
            (b"\r\nGET http://origin.example/ HTTP/1.1\r\nHost: origin.example\r\n\r\n", b"HTTP/1.1 200 OK\r\nContent-Length: 2\r\n\r\nhi"),
            (b"POST /a HTTP/1.1\r\nHost: origin.example\r\nTransfer-Encoding: chunked\r\n\r\n3\r\nabc\r\n0\r\n\r\nGET /b HTTP/1.1\r\nHost: origin.example\r\n\r\n",
             b"\r\nHTTP/1.1 200 OK\r\nTransfer-Encoding: chunked\r\n\r\n2\r\nhi\r\n0\r\n\r\n"),
            (b"POST /a HTTP/1.1\nHost: origin.example\nContent-Length: 3\n\nabcGET /b HTTP/1.0\r\nHost: origin.example\r\n\r\n",
             b"HTTP/1.1 200 OK\r\n\r\nuntil-eof"),
        ]
        # heads around 2^16 bytes with a segment boundary that leaves the whole unterminated head buffered (a size guard on
        # an incomplete head must not make the outcome depend on where the boundary falls), and MSS-sized segments
        for n in (65536 - 70, 65536, 65536 + 1, 70000):
            pad = b"X-Pad: " + b"a" * n + b"\r\n"
            head = b"GET http://origin.example/big HTTP/1.1\r\nHost: origin.example\r\n" + pad + b"\r\n"
            nxt = b"GET http://origin.example/next HTTP/1.1\r\nHost: origin.example\r\n\r\n"
            r = b"HTTP/1.1 200 OK\r\nContent-Length: 2\r\n\r\nok"
            rhead = b"HTTP/1.1 200 OK\r\nContent-Length: 2\r\n" + pad + b"\r\n"
            for cuts in ([len(head) - 4], [len(head) - 1], [65537], list(range(1460, len(head), 1460))):
                yield {"mode": "regular", "client_hex": hx(head + nxt), "resps": [{"data_hex": hx(r), "close": False}] * 2, "edits": [],
                       "ccuts": cuts, "scuts": [[], []], "sched": []}
            yield {"mode": "reverse", "client_hex": hx(b"GET /a HTTP/1.1\r\nHost: origin.example\r\n\r\n"),
                   "resps": [{"data_hex": hx(rhead + b"ok"), "close": False}], "edits": [], "ccuts": [], "scuts": [[len(rhead) - 4]], "sched": []}
        for creq, resp in short:
            for mode in ("regular",):
                base = {"mode": mode, "client_hex": hx(creq), "edits": [],
                        "resps": [{"data_hex": hx(resp), "close": resp.endswith(b"eof")}] * 2}
                for i in range(1, len(creq)):
                    c = dict(base); c["ccuts"] = [i]; c["scuts"] = [[], []]; c["sched"] = []
                    yield c
                for i in range(1, len(resp)):
                    c = dict(base); c["ccuts"] = []; c["scuts"] = [[i], [i]]; c["sched"] = []
                    yield c
                c = dict(base); c["ccuts"] = list(range(1, len(creq))); c["scuts"] = [list(range(1, len(resp)))] * 2; c["sched"] = []
                yield c
        # the parent proxy's CONNECT reply: every split point (incl. inside "HTTP/") and byte by byte
        G = b"GET http://origin.example/a HTTP/1.1\r\nHost: origin.example\r\n\r\n"
        for reply in (X.PROXY_REPLIES[0], X.PROXY_REPLIES[5], X.PROXY_REPLIES[9]):
            base = {"mode": "regular", "via": True, "client_hex": hx(G), "edits": [], "ccuts": [], "scuts": [[]], "sched": [],
                    "resps": [{"data_hex": hx(b"HTTP/1.1 200 OK\r\nContent-Length: 2\r\n\r\nhi"), "close": False}]}
            for i in list(range(1, len(reply))) + [None]:
                c = dict(base)
                c["proxy_replies"] = [{"data_hex": hx(reply), "cuts": [i] if i else list(range(1, len(reply))), "close": False}]
                yield c
        while True:
            if rng.chance(0.3):
                yield from self.unit_cases(rng)
                continue
            if rng.chance(0.1):
                # unsolicited bytes behind a complete response, in the same segment vs. in a segment of their own, both
                # before the next request is sent
                c = X.gen_surplus_exchange(rng, split=True); c["keep_surplus"] = True
                if "scuts" not in c:
                    continue      # request k does not end where it was meant to: the split form is not available
                if b"connect" in unhx(c["client_hex"]).lower():
                    continue      # same exclusion as below: CONNECT / tunnel payload is not C02's subject
                if rng.chance(0.5):
                    k = next(i for i, x in enumerate(c["scuts"]) if x)
                    n = len(unhx(c["resps"][k]["data_hex"]))
                    c["scuts"][k] = sorted(set(c["scuts"][k] + [rng.randrange(1, n) for _ in range(rng.randint(1, 3))]))
                yield c
                continue
            if rng.chance(0.15):
                base = X.gen_via_exchange(rng)
                for _ in range(2):
                    yield X.gen_schedule(rng, base)
                continue
            base = X.gen_exchange(rng)
            # a streamed request head is forwarded before its body has been judged: how much of a request that fails
            # later reaches the origin depends on when the failure is noticed — by design, not C02's subject
            base["edits"] = [e for e in base["edits"] if not (e["op"] == "stream" and e["at"] == "requestheaders")]
            if b"connect" in unhx(base["client_hex"]).lower():
                continue      # bytes after CONNECT are tunnel payload, not HTTP/1 messages (make_pipe strips leading CRLF
                              # of what is buffered at that moment: timing-dependent by design) — not C02's subject
            n = 1 if tier == "quick" else 3
            for _ in range(n):
                yield X.gen_schedule(rng, base)
            if len(unhx(base["client_hex"])) <= 200 and rng.chance(0.15 if tier == "quick" else 0.5):
                yield X.gen_schedule(rng, base, "bytes")

    def unit_cases(self, rng):
        """segments for the bare readers, cut from the same grammar (requests without absolute targets / CONNECT: the authority
        check is a parameter of the model)"""
        kind = rng.weighted([(5, "req"), (3, "resp"), (2, "hs"), (4, "sys")])
        if kind == "hs":
            # the parent proxy's reply to CONNECT for the bare HttpUpstreamProxy.receive_handshake_data (handshakeSize)
            data = rng.pick(X.PROXY_REPLIES)
            if rng.chance(0.4): data = data + rng.pick([b"", b"\x16\x03\x01tunnel", b"\r\n", b"HTTP/1.1 200 OK\r\n\r\n"])
            if rng.chance(0.2): data = X.mutate(rng, data)
            if rng.chance(0.2) and len(data) > 2: data = data[:rng.randrange(1, len(data))]
            if not data: return
            cuts = sorted(rng.sample(range(1, len(data)), min(len(data) - 1, rng.pick([0, 1, 3, 8])))) if len(data) > 1 else []
            if rng.chance(0.1): cuts = list(range(1, len(data)))
            yield {"op": "unit-hs", "segs": [hx(x) for x in X.cut(data, cuts)]}
        elif kind == "sys":
            # both readers coupled by the real HttpLayer (buffered mode, one upstream connection, one method, keep-alive, no
            # edits): the schedule actually delivered is replayed through Model/C02 sysRun
            meth = rng.pick([b"GET", b"POST", b"HEAD", b"PUT"])
            n = rng.weighted([(4, 1), (4, 2), (2, 3)])
            client = b"".join(sys_request(rng, meth) for _ in range(n))
            base = {"op": "sys", "method_hex": hx(meth), "mode": "reverse", "client_hex": hx(client), "edits": [],
                    "resps": [{"data_hex": hx(sys_response(rng, meth)), "close": False} for _ in range(n)]}
            yield X.gen_schedule(rng, base)
        elif kind == "req":
            n = rng.weighted([(5, 1), (3, 2), (2, 3)])
            data = b"".join(X.gen_request(rng, "reverse") for _ in range(n))
            if rng.chance(0.25): data = X.mutate(rng, data)
            if b"://" in data or b"connect" in data.lower() or not data: return
            if rng.chance(0.35) and len(data) > 2: data = data[:rng.randrange(1, len(data))]      # stop in the middle of a message
            cuts = sorted(rng.sample(range(1, len(data)), min(len(data) - 1, rng.pick([0, 1, 3, 8])))) if len(data) > 1 else []
            if rng.chance(0.1): cuts = list(range(1, len(data)))
            yield {"op": "unit-req", "segs": [hx(x) for x in X.cut(data, cuts)]}
        else:
            data = X.gen_response(rng)
            if rng.chance(0.3): data = (b"HTTP/1.1 103 Early Hints\r\nLink: </x>\r\n\r\n" if rng.chance(0.5) else b"\r\n") + data
            if rng.chance(0.25): data = X.mutate(rng, data)
            if not data: return
            if rng.chance(0.2) and len(data) > 2: data = data[:rng.randrange(1, len(data))]
            cuts = sorted(rng.sample(range(1, len(data)), min(len(data) - 1, rng.pick([0, 1, 3, 8])))) if len(data) > 1 else []
            yield {"op": "unit-resp", "method_hex": hx(rng.pick([b"GET", b"HEAD", b"POST"])), "segs": [hx(x) for x in X.cut(data, cuts)]}

    def impl(self, case):
        if case.get("op") == "unit-hs":
            return {"unit": unit_hs([unhx(x) for x in case["segs"]])}
        if case.get("op") == "sys":
            obs = X.run(case)
            out = {"unit": sys_tokens(obs, unhx(case["method_hex"])), "recv": obs["recv_log"]}
            self._last_sys = (case, out)
            return out
        if case.get("op") == "unit-req":
            return {"unit": unit_req([unhx(x) for x in case["segs"]])}
        if case.get("op") == "unit-resp":
            return {"unit": unit_resp(unhx(case["method_hex"]), [unhx(x) for x in case["segs"]])}
        case = X.normalize_causality(case)
        whole = X.run(case, whole=True)
        seg = X.run(case)
        (sw, cw), (ss, cs) = semantic(whole), semantic(seg)
        nseg = len(case.get("ccuts") or []) + sum(len(x) for x in case.get("scuts") or []) + sum(len(pr.get("cuts") or []) for pr in case.get("proxy_replies") or [])
        return {"whole": sw, "seg": ss, "crash": cw + cs, "nseg": nseg}

    def model_lines(self, case):
        if case.get("op") == "unit-req": return ["req " + " ".join(case["segs"])]
        if case.get("op") == "unit-resp": return ["resp " + case["method_hex"] + " " + " ".join(case["segs"])]
        if case.get("op") == "unit-hs": return ["hs " + " ".join(case["segs"])]
        if case.get("op") == "sys":
            # the model is given the segments in the order the runner actually delivered them (client cuts, response cuts and
            # the interleaving chosen by `sched` under causality)
            last = getattr(self, "_last_sys", None)
            obs = last[1] if last is not None and last[0] is case else self.impl(case)
            return ["sys " + case["method_hex"] + " " + " ".join(obs["recv"])]
        return None

    def model_obs(self, case, replies):
        if case["op"] == "sys":
            # the SysOut sequence without the request-side rejections (see sys_tokens); the final phases are not observable
            # after the run's final half-close
            return ",".join(t for t in replies[0].split(" ")[0].split(",") if t != "Qx") or "-"
        return first_terminal(replies[0]) if case["op"] == "unit-resp" else replies[0]

    def impl_view(self, case, obs):
        return obs["unit"]

    def oracle(self, case, obs):
        if "unit" in obs: return []
        # C02: "every way of splitting those streams into received segments yields the same flows (same requests,
        # responses, bodies and hook sequence) and the peers receive semantically identical messages in the same order."
        d = diff_keys(obs["whole"], obs["seg"])
        fails = [f"outcome of the segmented schedule differs from whole-stream delivery in {d}"] if d else []
        # "Pipelined requests are answered in order, each response matched to its own request."
        w = obs["seg"]
        rel = [f for f in w["flows"] if C1.relayed({"hooks": f["hooks"], "resp": f["resp"]})]
        finals = [m for m in w["client"] if not (100 <= m[0] <= 199 and m[0] != 101)]
        for i, f in enumerate(rel):
            if i < len(finals) and finals[i][0] != f["resp"]["status"]:
                fails.append(f"response #{i} on the client connection has status {finals[i][0]}, flow #{i} recorded {f['resp']['status']}")
        return fails

    def known(self, case, obs, failure):
        """F-C02b, exactly as recorded: (input class) the LAST request of the client stream — the one that fails in both runs —
        is framed as chunked and its body violates the chunked framing (h11 protocol error, or a trailer section), and its head
        makes the proxy answer itself: a 400 page because validate_headers rejects it, or 100 Continue because it carries
        Expect: 100-continue; (failure) both runs have identical flows and upstream bytes, the client connection is closed in
        both, and the ONLY difference is that the whole-stream run lacks exactly that one pending answer (ERR400 resp. the
        interim 100) which the segmented run delivered."""
        if not failure.startswith("outcome of the segmented schedule differs"):
            return None
        w, s = obs["whole"], obs["seg"]
        d = set(diff_keys(w, s))
        if not d or not d <= {"errs", "client", "ctail"}:
            return None
        if not w["flows"] or not w["flows"][-1]["error"] or "client" not in w["closed"] or "client" not in s["closed"]:
            return None
        # the whole-stream run is the one that lacks something, and it lacks exactly one item
        if s["client"][:len(w["client"])] != w["client"] or s["errs"][:len(w["errs"])] != w["errs"]:
            return None
        extra_c, extra_e = s["client"][len(w["client"]):], s["errs"][len(w["errs"]):]
        if len(extra_c) + len(extra_e) != 1:
            return None
        facts = replay_request(unhx(case["client_hex"]), len(w["flows"]) - 1)
        if facts is None or facts["framing"] != "chunked" or facts["body"] not in ("protocol-error", "trailers"):
            return None
        hooks = w["flows"][-1]["hooks"]
        if extra_e == ["ERR400"]:
            if facts["valid"] or hooks != ["requestheaders", "error"]:
                return None
        elif extra_c and extra_c[0][0] == 100 and extra_c[0][3] == "":
            if not facts["valid"] or not facts["expect100"] or hooks[:1] != ["requestheaders"]:
                return None
        else:
            return None
        return "F-C02b"

    def known_selftest(self):
        """positive witness + near misses of the F-C02b classifier (notes/known_audit.txt); AssertionError = INFRA"""
        import copy
        head = b"GET / HTTP/1.1\r\nHost: origin.example\r\nTransfer-Encoding: gzip\r\nTransfer-Encoding: chunked\r\n\r\n"
        def mk(client, cut):
            return {"mode": "reverse", "client_hex": hx(client), "resps": [], "edits": [], "ccuts": [cut], "scuts": [], "sched": []}
        fail = "outcome of the segmented schedule differs from whole-stream delivery in ['errs']"
        pos = mk(head + b"Z\r\n", len(head))
        obs = self.impl(pos)
        fs = self.oracle(pos, obs)
        assert fs and self.known(pos, obs, fs[0]) == "F-C02b", ("F-C02b witness no longer classified", fs)
        # positive: the 100-continue flavour, with trailers as the framing violation
        head2 = b"POST / HTTP/1.1\r\nHost: origin.example\r\nExpect: 100-continue\r\nTransfer-Encoding: chunked\r\n\r\n"
        pos2 = mk(head2 + b"0\r\nX-T: v\r\n\r\n", len(head2))
        obs2 = self.impl(pos2)
        fs2 = self.oracle(pos2, obs2)
        assert fs2 and self.known(pos2, obs2, fs2[0]) == "F-C02b", ("F-C02b (100-continue) witness no longer classified", fs2, obs2)
        # (a) same input class, different failure: another clause of the oracle / a different difference
        assert self.known(pos, obs, "response #0 on the client connection has status 200, flow #0 recorded 404") is None
        o = copy.deepcopy(obs); o["seg"]["errs"] = ["ERR502"]
        assert self.known(pos, o, fail) is None, "a different error page must not be excused"
        o = copy.deepcopy(obs); o["seg"]["servers"] = {"server0": [[], "None", ""]}
        assert self.known(pos, o, fail) is None, "a difference in what the origin received must not be excused"
        o = copy.deepcopy(obs); o["seg"]["flows"][-1]["hooks"] = ["requestheaders", "request", "error"]
        assert self.known(pos, o, fail) is None, "a difference in the hook sequence must not be excused"
        o = copy.deepcopy(obs); o["whole"], o["seg"] = o["seg"], o["whole"]
        assert self.known(pos, o, fail) is None, "the segmented run lacking the page is a different failure"
        o = copy.deepcopy(obs); o["seg"]["errs"] = ["ERR400", "ERR400"]
        assert self.known(pos, o, fail) is None
        # (b) neighbouring inputs with the same kind of difference (observation transplanted)
        near1 = mk(head + b"0\r\n\r\n", len(head))                         # invalid head, body well-formed
        assert self.known(near1, obs, fail) is None, "well-formed chunked body is outside the class"
        head3 = b"GET / HTTP/1.1\r\nHost: origin.example\r\nContent-Length: 3\r\nContent-Length: 4\r\n\r\n"
        near2 = mk(head3 + b"Z\r\n", len(head3))                            # invalid head, but not chunked framing
        assert self.known(near2, obs, fail) is None, "not chunked: outside the class"
        head4 = b"POST / HTTP/1.1\r\nHost: origin.example\r\nTransfer-Encoding: chunked\r\n\r\n"
        near3 = mk(head4 + b"Z\r\n", len(head4))                            # valid head without Expect: nothing pending
        assert self.known(near3, obs, fail) is None and self.known(near3, obs2, fail) is None, "valid head, no Expect: outside the class"
        assert self.known(pos2, obs, fail) is None, "a 400 page for a head that validates is a different failure"

    def classify(self, case, obs):
        if case.get("op") == "sys": return json.dumps(case, sort_keys=True) if len(obs["recv"]) > 1 else None
        if "unit" in obs: return json.dumps(case) if len(case["segs"]) > 1 else None
        if not obs["nseg"]: return None
        return json.dumps([case["mode"], case["client_hex"], case.get("ccuts"), case.get("scuts"), case.get("sched"), case.get("proxy_replies")])

    def branches(self, case, obs):
        if case.get("op") == "sys":
            t = obs["unit"].split(",")
            return ["sys:msgs=%d" % sum(1 for x in t if x[:2] in ("Q:", "R:"))] + sorted({"sys:" + x for x in t if x in ("Qx", "Rx")})
        if "unit" in obs: return [case["op"] + ":" + obs["unit"].split(" ")[-1][:8]]
        out = ["mode:" + case["mode"], "flows:%d" % len(obs["seg"]["flows"])]
        out.append("segments:" + ("0" if obs["nseg"] == 0 else "1-3" if obs["nseg"] <= 3 else "4-20" if obs["nseg"] <= 20 else ">20"))
        if case.get("sched"): out.append("interleaved")
        if case.get("via"): out.append("via-parent-proxy")
        if obs["seg"]["errs"]: out.append("errpage")
        if obs["crash"]: out.append("crash")
        return out
