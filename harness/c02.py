"""C02 — HTTP/1 behaviour does not depend on TCP segmentation or pipelining.

Same driving as C01 (c01_run.py).  A case is an exchange (client stream with 1–3 pipelined requests, one scripted origin
response per forwarded request, optional addon edits) plus a *schedule*: cut points of the client stream, cut points of
every response, and the interleaving of client and server segments (respecting causality: bytes of response k only after
request k was forwarded completely).  The direct oracle needs no model: outcome(schedule) == outcome(whole streams).
"""
import json
from common.check import PropertyCheck, hx, unhx
from common import refparsers as R
import c01_run as X
import c01 as C1


def semantic(obs):
    """what C02 names: 'the same flows (same requests, responses, bodies and hook sequence) and the peers receive
    semantically identical messages in the same order' — bytes per connection are compared after parsing with the
    reference parser (chunk boundaries of streamed bodies are not semantic); an unparseable remainder is compared raw."""
    flows = [{"hooks": f["hooks"], "req": f["req"], "resp": f["resp"], "error": f["error"], "server": f["server"]}
             for f in obs["flows"]]
    meths = []
    for f in obs["flows"]:
        s = f["req"] or f.get("req_head")
        meths.append(b"CONNECT" if "http_connect" in f["hooks"] else (unhx(s["method"]) if s else b"GET"))
    cb = C1.client_bytes(obs)
    p = R.parse_responses(cb, meths, eof="client" in obs["closed"])
    client = [[m["status"], m["reason"].hex(), [[k.hex(), v.hex()] for k, v in m["fields"]], m["body"].hex()] for m in p.messages]
    ctail = [str(p.stop), cb[p.rest:].hex() if p.stop else ""]
    if p.stop is not None and p.stop[0] == "incomplete" and p.partial is not None:
        ctail = ["partial", [[k.hex(), v.hex()] for k, v in p.partial["fields"]], p.partial.get("body", b"").hex() if p.partial["framing"] == "eof" else ""]
    errs = [x for x in obs["client_out"] if x.startswith("ERR")]
    servers = {}
    for lab, h in obs["server_out"].items():
        b = bytes.fromhex(h)
        q = R.parse_requests(b)
        servers[lab] = [[[m["method"].hex(), m["target"].hex(), [[k.hex(), v.hex()] for k, v in m["fields"]], m["body"].hex()] for m in q.messages],
                        str(q.stop), (b[q.rest:].hex() if q.stop and q.stop[0] != "incomplete" else "")]
    return {"flows": flows, "client": client, "ctail": ctail, "errs": errs, "servers": servers,
            # closing matters to C02 where it is part of a message: the client connection (ends a read-until-close
            # response) and half-closes; whether an idle upstream connection is kept is not something a peer "receives"
            "closed": [c for c in obs["closed"] if c == "client"], "half_closed": obs["half_closed"]}, obs["crash"]


def diff_keys(a, b):
    return [k for k in a if json.dumps(a[k], sort_keys=True) != json.dumps(b[k], sort_keys=True)]


class Check(PropertyCheck):
    prop = "C02"
    design_ref = "§5 C02"
    level_text = ("Lean theorems about the model of Http1Connection's read side (state = phase x unparsed buffer): head extraction "
                  "with h11 maybe_extract_lines and the blank-line loop of the fixed read_headers, framing decision as a parameter "
                  "(instantiated for requests — requestSize — and for the client side — responseSize, incl. swallowing interim 1xx), "
                  "ContentLengthReader and Http10Reader body phases, the four sub-states of the h11 ChunkedReader (size line with "
                  "extensions and trailing OWS per the chunk_header regex, chunk data, the CR LF after the data, last-chunk and trailer "
                  "section — a non-empty trailer section is the protocol error of fix 4f0e88849), wait until the flow is done, release = "
                  "mark_done re-dispatch, closed. Proved for ALL states and byte strings: machine_lawful (feed (a++b) = feed a then "
                  "feed b, outputs concatenated), hence h1_seg_independent for ALL streams and ALL segmentations incl. chunked bodies; "
                  "wait_buffers + pipelined_in_order (bytes arriving before or after the previous flow is released give the same next "
                  "request); old_machine_counterexample shows the pre-fix machine violates the law on the F-C02a witness. The real "
                  "HttpLayer is checked directly with no model in between: for generated exchanges (1-3 pipelined requests, scripted "
                  "origin responses, addon edits) the outcome of a schedule (segmentation of both streams + interleaving respecting "
                  "causality) must equal the outcome of whole-stream delivery: flows, hook sequence per flow, reference-parsed messages "
                  "per connection, client-side close.")
    level_note = ("PARTIAL: the interleaving of the two connections is proved in the form wait_buffers / pipelined_in_order (client "
                  "bytes commute with the release of the previous flow), not as one theorem over merged schedules of both streams; "
                  "on the client side bytes that arrive while no request is outstanding stay buffered in the model, the real code "
                  "closes the connection (excluded by the causality assumption). The discard of CR LF after chunk data is matched "
                  "byte by byte in the model (h11 matches as many bytes as are there — same result under the drain loop). No "
                  "compiled-model tie for C02 (has_model=False): the functions the machine uses (extractLines, head parsing, framing "
                  "decision, the chunk_header regex via the chunkhdr op) are tied in C01. "
                  "Out of scope by design: tunnel payload after CONNECT, request streaming (head forwarded before the body is judged), "
                  "an origin that drops a keep-alive connection without announcing it (races with the next request).")
    technique = "Lean 4 proof (feed_append for the drain loop + generic seg_independent) + schedule-vs-whole oracle on the real layer"
    rule = ("every split point (client side and server side) and the all-one-byte schedule of three fixed exchanges (leading CRLF, "
            "chunked + pipelining, bare-LF head + read-until-close), then generated exchanges of C01's grammar x schedules: one cut, "
            "k random cuts, all-one-byte; x random client/server interleavings. distinct = distinct (exchange, schedule); "
            "non-trivial = at least one segment boundary.")
    budget = {"quick": 3000, "thorough": 60000}
    time_budget = {"quick": 25, "thorough": 480}
    fingerprints = ["mitmproxy.proxy.layers.http._http1:Http1Connection._handle_event", "mitmproxy.proxy.layers.http._http1:Http1Connection.read_body",
                    "mitmproxy.proxy.layers.http._http1:Http1Connection.wait", "mitmproxy.proxy.layers.http._http1:Http1Connection.mark_done",
                    "mitmproxy.proxy.layers.http._http1:Http1Connection.make_pipe",
                    "mitmproxy.proxy.layers.http._http1:Http1Server.read_headers", "mitmproxy.proxy.layers.http._http1:Http1Server.mark_done",
                    "mitmproxy.proxy.layers.http._http1:Http1Client.read_headers", "mitmproxy.proxy.layers.http._http1:make_body_reader",
                    "mitmproxy.proxy.utils:ReceiveBuffer"]
    trusted_base = ["h11 ReceiveBuffer / ContentLengthReader / Http10Reader / ChunkedReader as transcribed in Model/C02.lean",
                    "harness/common/world.py as the stand-in for proxy/server.py (validated separately against the asyncio server)",
                    "harness/common/refparsers.py for comparing what the peers receive semantically"]
    parallel = False
    has_model = False

    def generate(self, rng, tier):
        # every split point of short streams first
        short = [
            (b"\r\nGET http://origin.example/ HTTP/1.1\r\nHost: origin.example\r\n\r\n", b"HTTP/1.1 200 OK\r\nContent-Length: 2\r\n\r\nhi"),
            (b"POST /a HTTP/1.1\r\nHost: origin.example\r\nTransfer-Encoding: chunked\r\n\r\n3\r\nabc\r\n0\r\n\r\nGET /b HTTP/1.1\r\nHost: origin.example\r\n\r\n",
             b"\r\nHTTP/1.1 200 OK\r\nTransfer-Encoding: chunked\r\n\r\n2\r\nhi\r\n0\r\n\r\n"),
            (b"POST /a HTTP/1.1\nHost: origin.example\nContent-Length: 3\n\nabcGET /b HTTP/1.0\r\nHost: origin.example\r\n\r\n",
             b"HTTP/1.1 200 OK\r\n\r\nuntil-eof"),
        ]
        for creq, resp in short:
            for mode in ("regular", "reverse"):
                base = {"mode": mode, "client_hex": hx(creq), "edits": [],
                        "resps": [{"data_hex": hx(resp), "close": resp.endswith(b"eof")}] * 2}
                for i in range(1, len(creq)):
                    c = dict(base); c["ccuts"] = [i]; c["scuts"] = [[], []]; c["sched"] = []
                    yield c
                for i in range(1, len(resp)):
                    c = dict(base); c["ccuts"] = []; c["scuts"] = [[i], [i]]; c["sched"] = []
                    yield c
                c = dict(base); c["ccuts"] = list(range(1, len(creq))); c["scuts"] = [list(range(1, len(resp)))] * 2; c["sched"] = []
                yield c
        while True:
            base = X.gen_exchange(rng)
            # a streamed request head is forwarded before its body has been judged: how much of a request that fails
            # later reaches the origin depends on when the failure is noticed — by design, not C02's subject
            base["edits"] = [e for e in base["edits"] if not (e["op"] == "stream" and e["at"] == "requestheaders")]
            if b"connect" in unhx(base["client_hex"]).lower():
                continue      # bytes after CONNECT are tunnel payload, not HTTP/1 messages (make_pipe strips leading CRLF
                              # of what is buffered at that moment: timing-dependent by design) — not C02's subject
            n = 1 if tier == "quick" else 3
            for _ in range(n):
                yield X.gen_schedule(rng, base)
            if len(unhx(base["client_hex"])) <= 200 and rng.chance(0.15 if tier == "quick" else 0.5):
                yield X.gen_schedule(rng, base, "bytes")

    def impl(self, case):
        case = X.normalize_causality(case)
        whole = X.run(case, whole=True)
        seg = X.run(case)
        (sw, cw), (ss, cs) = semantic(whole), semantic(seg)
        return {"whole": sw, "seg": ss, "crash": cw + cs, "nseg": len(case.get("ccuts") or []) + sum(len(x) for x in case.get("scuts") or [])}

    def oracle(self, case, obs):
        # C02: "every way of splitting those streams into received segments yields the same flows (same requests,
        # responses, bodies and hook sequence) and the peers receive semantically identical messages in the same order."
        d = diff_keys(obs["whole"], obs["seg"])
        fails = [f"outcome of the segmented schedule differs from whole-stream delivery in {d}"] if d else []
        # "Pipelined requests are answered in order, each response matched to its own request."
        w = obs["seg"]
        rel = [f for f in w["flows"] if C1.relayed({"hooks": f["hooks"], "resp": f["resp"]})]
        finals = [m for m in w["client"] if not (100 <= m[0] <= 199 and m[0] != 101)]
        for i, f in enumerate(rel):
            if i < len(finals) and finals[i][0] != f["resp"]["status"]:
                fails.append(f"response #{i} on the client connection has status {finals[i][0]}, flow #{i} recorded {f['resp']['status']}")
        return fails

    def known(self, case, obs, failure):
        """F-C02b: the request fails in both runs (same flows, same hooks); the only difference is that the whole-stream
        run lacks the proxy's own pending output for that request (400 page / 100 Continue), because the body's protocol
        error arrived in the same segment as the head and closed the client connection first."""
        if not failure.startswith("outcome of the segmented schedule differs"):
            return None
        w, s = obs["whole"], obs["seg"]
        d = set(diff_keys(w, s))
        if not d or not d <= {"errs", "client", "ctail"}:
            return None
        a, b = (w, s) if len(w["client"]) + len(w["errs"]) <= len(s["client"]) + len(s["errs"]) else (s, w)
        if b["client"][:len(a["client"])] != a["client"] or b["errs"][:len(a["errs"])] != a["errs"]:
            return None
        extra = b["client"][len(a["client"]):]
        if any(m[0] != 100 for m in extra) or any(e != "ERR400" for e in b["errs"][len(a["errs"]):]):
            return None
        if not w["flows"] or not w["flows"][-1]["error"] or "client" not in w["closed"]:
            return None
        return "F-C02b"

    def classify(self, case, obs):
        if not obs["nseg"]: return None
        return json.dumps([case["mode"], case["client_hex"], case.get("ccuts"), case.get("scuts"), case.get("sched")])

    def branches(self, case, obs):
        out = ["mode:" + case["mode"], "flows:%d" % len(obs["seg"]["flows"])]
        out.append("segments:" + ("0" if obs["nseg"] == 0 else "1-3" if obs["nseg"] <= 3 else "4-20" if obs["nseg"] <= 20 else ">20"))
        if case.get("sched"): out.append("interleaved")
        if obs["seg"]["errs"]: out.append("errpage")
        if obs["crash"]: out.append("crash")
        return out
