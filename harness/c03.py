"""C03 — every HTTP flow has an ordered hook lifecycle and exactly one outcome
(mitmproxy/proxy/layers/http/__init__.py HttpStream, _hooks.py, _http1.py).

A case is an exchange *script* (client/server wire tokens, closes, resume/connect completions) plus an addon
policy per hook and per flow, plus body-size options.  It is run through the real HttpLayer on the queue-based
world; the real HttpStream objects are instrumented at their handle_event boundary so that, per stream, the exact
sequence of inputs (HttpEvents, hook completions, GetHttpConnection results) and outputs (hooks, SendHttp,
DropStream, …) is recorded.  The six property predicates are evaluated on the recorded hook trace of every flow;
the per-stream input sequence is replayed through the Lean model (Model/C03.lean), which must produce the same
outputs, accept every input under its event grammar, and agree on the final state / `settled` flag.
"""
import itertools, json
from common.check import PropertyCheck, Skip
from common.world import World, make_context
from mitmproxy import http as mhttp, flow as mflow
from mitmproxy.connection import ConnectionState
from mitmproxy.proxy import commands, events, layer as mlayer
from mitmproxy.proxy.layers import http as lhttp
from mitmproxy.proxy.layers.http import HTTPMode, HttpStream, validate_request
from mitmproxy.proxy.layers.http import _events as hev
from mitmproxy.net.http import url as murl
from mitmproxy.net.http.validate import validate_headers

LIFECYCLE = ("requestheaders", "request", "responseheaders", "response", "error")
HTTP_HOOKS = LIFECYCLE + ("http_connect", "http_connected", "http_connect_error")
ACTIONS = ("pass", "kill", "resp", "stream")

# ------------------------------------------------------------------------------------------------
# wire tokens
HOST = b"Host: example.com\r\n"


def client_bytes(tok):
    k, _, n = tok.partition(":")
    n = int(n) if n else 0
    if k == "get": return b"GET http://example.com/p HTTP/1.1\r\n" + HOST + b"\r\n"
    if k == "get_origin": return b"GET /p HTTP/1.1\r\n" + HOST + b"\r\n"
    if k == "head": return b"HEAD http://example.com/p HTTP/1.1\r\n" + HOST + b"\r\n"
    if k == "get_close": return b"GET http://example.com/p HTTP/1.1\r\n" + HOST + b"Connection: close\r\n\r\n"
    if k == "get10": return b"GET http://example.com/p HTTP/1.0\r\n" + HOST + b"\r\n"
    if k == "get_ws": return (b"GET http://example.com/ws HTTP/1.1\r\n" + HOST + b"Connection: Upgrade\r\nUpgrade: websocket\r\n"
                              b"Sec-WebSocket-Key: dGhlIHNhbXBsZSBub25jZQ==\r\nSec-WebSocket-Version: 13\r\n\r\n")
    if k == "post_cl": return b"POST http://example.com/p HTTP/1.1\r\n" + HOST + b"Content-Length: %d\r\n\r\n" % n
    if k == "post_ch": return b"POST http://example.com/p HTTP/1.1\r\n" + HOST + b"Transfer-Encoding: chunked\r\n\r\n"
    if k == "connect": return b"CONNECT example.com:443 HTTP/1.1\r\nHost: example.com:443\r\n\r\n"
    if k == "nohost": return b"GET /p HTTP/1.1\r\n\r\n"
    if k == "badhead": return b"GET\r\n\r\n"
    if k == "badcl": return b"POST http://example.com/p HTTP/1.1\r\n" + HOST + b"Content-Length: x\r\n\r\n"
    if k == "tecl": return b"POST http://example.com/p HTTP/1.1\r\n" + HOST + b"Transfer-Encoding: chunked\r\nContent-Length: 3\r\n\r\n"
    if k == "badscheme": return b"GET ftp://example.com/p HTTP/1.1\r\n" + HOST + b"\r\n"
    return body_bytes(k, n)


def server_bytes(tok):
    k, _, n = tok.partition(":")
    n = int(n) if n else 0
    if k == "r200_cl": return b"HTTP/1.1 200 OK\r\nContent-Length: %d\r\n\r\n" % n
    if k == "r200_close": return b"HTTP/1.1 200 OK\r\nConnection: close\r\nContent-Length: %d\r\n\r\n" % n
    if k == "r200_ch": return b"HTTP/1.1 200 OK\r\nTransfer-Encoding: chunked\r\n\r\n"
    if k == "r200_eof": return b"HTTP/1.1 200 OK\r\n\r\n"
    if k == "r204": return b"HTTP/1.1 204 No Content\r\n\r\n"
    if k == "r304": return b"HTTP/1.1 304 Not Modified\r\n\r\n"
    if k == "r100": return b"HTTP/1.1 100 Continue\r\n\r\n"
    if k == "r101ws": return (b"HTTP/1.1 101 Switching Protocols\r\nUpgrade: websocket\r\nConnection: Upgrade\r\n"
                              b"Sec-WebSocket-Accept: s3pPLMBiTxaQ9kYGzzhZRbK+xOo=\r\n\r\n")
    if k == "r101": return b"HTTP/1.1 101 Switching Protocols\r\nUpgrade: foo\r\nConnection: Upgrade\r\n\r\n"
    if k == "rbad": return b"HTTP/1.1 abc def\r\n\r\n"
    if k == "rbadcl": return b"HTTP/1.1 200 OK\r\nContent-Length: x\r\n\r\n"
    if k == "rtecl": return b"HTTP/1.1 200 OK\r\nTransfer-Encoding: chunked\r\nContent-Length: 3\r\n\r\n"
    return body_bytes(k, n)


def body_bytes(k, n):
    if k == "data": return b"d" * n
    if k == "chunk": return b"%x\r\n%s\r\n" % (n, b"c" * n)
    if k == "last": return b"0\r\n\r\n"
    if k == "badchunk": return b"zz\r\n"
    if k == "junk": return b"\x00\x01junk\r\n\r\n"
    raise Skip(f"unknown token {k}")


# ------------------------------------------------------------------------------------------------
# instrumentation of the real HttpStream at its handle_event boundary
_REC = None            # the active Recorder (one run at a time per process)
_orig_handle_event = HttpStream.handle_event


def _patched_handle_event(self, event):
    rec = _REC
    if rec is None or getattr(self, "_v_running", False):
        # not recording, or a nested call from inside the generator body (check_body_size re-dispatch): internal
        yield from _orig_handle_event(self, event)
        return
    entry = rec.input(self, event)
    gen = _orig_handle_event(self, event)
    while True:
        self._v_running = True
        try:
            cmd = next(gen)
        except StopIteration:
            break
        except Exception as e:
            entry["out"].append("X:" + type(e).__name__)
            raise
        finally:
            self._v_running = False
        o = rec.output(self, cmd)
        if o is not None: entry["out"].append(o)
        yield cmd


HttpStream.handle_event = _patched_handle_event


def _esize(msg, request=None):
    """early expected size as check_body_size sees it, from the skeleton's framing headers only (0: none/unknown)"""
    h = msg.headers
    if request is not None:
        if request.method.upper() == "HEAD" or 100 <= msg.status_code <= 199 or msg.status_code in (204, 304):
            return 0
    if h.get("transfer-encoding"): return 0
    cl = h.get("content-length")
    return int(cl) if cl is not None and cl.isdigit() else 0


class Recorder:
    def __init__(self, mode, options):
        self.mode, self.options = mode, options
        self.streams = []        # HttpStream objects in creation order
        self.logs = {}           # id(stream) -> list of entries {"in": str, "out": [str], "pt": bool}

    def _log(self, s):
        if id(s) not in self.logs:
            self.logs[id(s)] = []; self.streams.append(s)
        return self.logs[id(s)]

    def input(self, s, ev):
        pt = s._handle_event == s.passthrough
        entry = {"in": self.abstract_in(s, ev), "out": [], "pt": pt}
        self._log(s).append(entry)
        return entry

    def abstract_in(self, s, ev):
        if isinstance(ev, events.Start): return "start"
        if isinstance(ev, hev.RequestHeaders):
            r = ev.request
            if validate_request(self.mode, r, self.options.validate_inbound_headers): kind = "invalid"
            elif r.method == "CONNECT": kind = "connect"
            elif not r.host and not _authority_ok(r.host_header): kind = "nohost"
            else: kind = "norm"
            ws = 1 if r.headers.get("Sec-WebSocket-Version", "") == "13" else 0
            return f"rh {int(ev.end_stream)} {_esize(r)} {kind} {ws}"
        if isinstance(ev, hev.RequestData): return f"rd {len(ev.data)}"
        if isinstance(ev, hev.RequestEndOfMessage): return "re"
        if isinstance(ev, hev.RequestProtocolError): return "rx"
        if isinstance(ev, hev.RequestTrailers): return "rt"
        if isinstance(ev, hev.ResponseHeaders):
            r = ev.response
            bad = False
            if self.options.validate_inbound_headers:
                try: validate_headers(r)
                except ValueError: bad = True
            if bad: kind = "invalid"
            elif r.status_code == 101 and r.headers.get("upgrade", "").lower() == "websocket": kind = "ws101"
            elif r.status_code == 101: kind = "up101"
            else: kind = "norm"
            return f"sh {int(ev.end_stream)} {_esize(r, s.flow.request)} {kind}"
        if isinstance(ev, hev.ResponseData): return f"sd {len(ev.data)}"
        if isinstance(ev, hev.ResponseEndOfMessage): return "se"
        if isinstance(ev, hev.ResponseProtocolError): return "sx"
        if isinstance(ev, hev.ResponseTrailers): return "st"
        if isinstance(ev, events.HookCompleted):
            act = getattr(ev.command, "_v_action", "pass")
            return f"hc {ev.command.name} {act}"
        if isinstance(ev, lhttp.GetHttpConnectionCompleted):
            return "cc " + ("err" if ev.reply[1] else "ok")
        if isinstance(ev, events.OpenConnectionCompleted):
            return "oc " + ("err" if ev.reply else "ok")
        return "other:" + type(ev).__name__

    def output(self, s, cmd):
        if isinstance(cmd, commands.StartHook):
            return "H:" + cmd.name
        if isinstance(cmd, lhttp.SendHttp):
            side = "c" if cmd.connection is s.context.client else "s"
            if side == "s" and isinstance(cmd.event, hev.RequestHeaders) and s.client_state != s.state_done:
                s._v_streamed = True      # sent by start_request_stream (the unstreamed path sends it in state_done)
            return f"S:{side}:{_EVNAME.get(type(cmd.event), '?')}"
        if isinstance(cmd, lhttp.DropStream): return "D"
        if isinstance(cmd, lhttp.GetHttpConnection): return "G"
        if isinstance(cmd, commands.OpenConnection): return "O"
        if isinstance(cmd, commands.CloseConnection): return "C:" + ("c" if cmd.connection is s.context.client else "s")
        if isinstance(cmd, commands.Log): return None
        return "?:" + type(cmd).__name__


_EVNAME = {hev.RequestHeaders: "rh", hev.RequestData: "rd", hev.RequestEndOfMessage: "re", hev.RequestProtocolError: "rx",
           hev.RequestTrailers: "rt", hev.ResponseHeaders: "sh", hev.ResponseData: "sd", hev.ResponseEndOfMessage: "se",
           hev.ResponseProtocolError: "sx", hev.ResponseTrailers: "st"}


def _authority_ok(hh):
    try:
        murl.parse_authority(hh or "", check=True); return True
    except ValueError:
        return False


# ------------------------------------------------------------------------------------------------
class PreciseWorld(World):
    """world.py's teardown delivers ConnectionClosed to every remaining server connection; the real handle_connection
    delivers it only for a handler still in its read loop (a half-closed one just exits).  Same code otherwise."""

    def teardown(self):
        self.torn_down = True
        self.trace.append(("client_disconnected",))
        self.close_all_servers()

    def close_all_servers(self):
        for conn in list(self.transports):
            if conn is self.ctx.client: continue
            had_read = bool(conn.state & ConnectionState.CAN_READ)
            conn.state = ConnectionState.CLOSED
            if had_read:
                self._handle(events.ConnectionClosed(conn))
            self._discard(conn)
        self.drain()

    def force_close_client(self):
        """the client handler is cancelled (idle timeout / shutdown)"""
        c = self.ctx.client
        if c not in self.transports: return
        had_read = bool(c.state & ConnectionState.CAN_READ)
        c.state = ConnectionState.CLOSED
        if had_read:
            self._handle(events.ConnectionClosed(c))
        self.transports.discard(c)
        self.drain()


def run_script(case, http_mode=HTTPMode.regular):
    """run one case through the real HttpLayer; returns (world, recorder, flows[list of (flow, hooknames)])"""
    global _REC
    opts = case.get("opts", {})
    ctx = make_context()
    if opts.get("limit"): ctx.options.body_size_limit = str(opts["limit"])
    if opts.get("stream"): ctx.options.stream_large_bodies = str(opts["stream"])
    rec = Recorder(http_mode, ctx.options)
    policy, defer = case.get("policy", {}), case.get("defer", {})
    connect = list(case.get("connect", []))
    flows, flow_hooks = [], {}
    state = {"final": False, "nconn": 0}

    def ordinal(f):
        for i, g in enumerate(flows):
            if g is f: return i
        flows.append(f); flow_hooks[id(f)] = []
        return len(flows) - 1

    def act(hook):
        f = hook.flow
        a = getattr(hook, "_v_action", "pass")
        if a == "kill":
            if f.killable: f.kill()
        elif a == "resp":
            f.response = mhttp.Response.make(200, b"made")
        elif a == "stream":
            if hook.name in ("requestheaders", "request"): f.request.stream = True
            elif f.response is not None: f.response.stream = True

    def on_hook(w, hook):
        f = getattr(hook, "flow", None)
        if not isinstance(f, mhttp.HTTPFlow):
            return None
        i = ordinal(f)
        flow_hooks[id(f)].append(hook.name)
        pl = policy.get(hook.name, [])
        hook._v_action = pl[i] if i < len(pl) else "pass"
        dl = defer.get(hook.name, [])
        if not state["final"] and i < len(dl) and dl[i]:
            return "defer"
        act(hook)
        return None

    def on_connect(w, cmd):
        i = state["nconn"]; state["nconn"] += 1
        c = connect[i] if i < len(connect) else "ok"
        if state["final"]: c = c.replace("defer_", "")
        if c.startswith("defer_"):
            cmd._v_result = c[6:]
            return "defer"
        return None if c == "ok" else "connect failed"

    lay = lhttp.HttpLayer(ctx, http_mode)
    w = PreciseWorld(lay, ctx, on_hook=on_hook, on_connect=on_connect)
    _REC = rec
    try:
        w.start()
        for step in case["script"]:
            run_step(w, step, act)
        # ---- end of script: everything the environment still owes is delivered, then all connections close
        state["final"] = True
        while w.deferred_connects:
            c = w.deferred_connects[0]
            w.finish_connect(c, None if c._v_result == "ok" else "connect failed")
        w.peer_close("client")
        w.force_close_client()
        if not w.torn_down: w.teardown()
        for _ in range(50):
            if w.deferred_hooks:
                h = w.deferred_hooks[0]; act(h); w.resume(h)
            elif any(c is not ctx.client for c in w.transports):
                w.close_all_servers()
            else:
                break
    finally:
        _REC = None
    return w, rec, [(f, flow_hooks[id(f)]) for f in flows]


def run_step(w, step, act):
    k = step[0]
    if k == "c":
        if step[1] == "close": w.peer_close("client")
        else: w.recv("client", client_bytes(step[1]))
    elif k == "s":
        labs = [l for l in w.server_labels() if w.conns[l] in w.transports]
        if not labs: return
        lab = labs[-1]
        if step[1] == "close": w.peer_close(lab)
        else: w.recv(lab, server_bytes(step[1]))
    elif k == "resume":
        if w.deferred_hooks:
            h = w.deferred_hooks[0]; act(h); w.resume(h)
    elif k == "connect":
        if w.deferred_connects:
            c = w.deferred_connects[0]
            w.finish_connect(c, None if c._v_result == "ok" else "connect failed")
    else:
        raise Skip(f"unknown step {step}")


# ------------------------------------------------------------------------------------------------
# HTTP/2 client and server peers (oracle only: the six predicates on the hook trace; no model tie)
class H2Pair:
    def __init__(self, w):
        import h2.connection, h2.config
        self.w = w
        self.cli = h2.connection.H2Connection(h2.config.H2Configuration(client_side=True))
        self.srv = h2.connection.H2Connection(h2.config.H2Configuration(client_side=False))
        self.cli.initiate_connection()
        self.srv_started = False
        self.spos = self.cpos = 0
        self.up = {}           # path -> upstream stream id (as the server sees it)
        self.sids = {}         # script stream index -> client stream id

    def flush_client(self):
        out = self.cli.data_to_send()
        if out: self.w.recv("client", out)
        self.pump()

    def flush_server(self):
        out = self.srv.data_to_send()
        if out and "server0" in self.w.conns: self.w.recv("server0", out)
        self.pump()

    def pump(self):
        import h2.events, h2.exceptions
        for _ in range(6):
            moved = False
            if "server0" in self.w.conns:
                data = bytes(self.w.sent.get("server0", b""))[self.spos:]; self.spos += len(data)
                if data:
                    moved = True
                    if not self.srv_started:
                        self.srv.initiate_connection(); self.srv_started = True
                    try:
                        for e in self.srv.receive_data(data):
                            if isinstance(e, h2.events.RequestReceived):
                                path = dict((bytes(k), bytes(v)) for k, v in e.headers).get(b":path", b"").decode()
                                self.up[path] = e.stream_id
                            elif isinstance(e, h2.events.DataReceived):
                                self.srv.acknowledge_received_data(e.flow_controlled_length, e.stream_id)
                    except h2.exceptions.ProtocolError:
                        pass
                    out = self.srv.data_to_send()
                    if out: self.w.recv("server0", out)
            data = bytes(self.w.sent.get("client", b""))[self.cpos:]; self.cpos += len(data)
            if data:
                moved = True
                try:
                    for e in self.cli.receive_data(data):
                        if isinstance(e, h2.events.DataReceived):
                            self.cli.acknowledge_received_data(e.flow_controlled_length, e.stream_id)
                except h2.exceptions.ProtocolError:
                    pass
                out = self.cli.data_to_send()
                if out: self.w.recv("client", out)
            if not moved: break

    def step(self, st):
        import h2.exceptions
        k = st[0]
        try:
            if k == "creq":
                _, i, n, end = st[:4]
                sid = 1 + 2 * len(self.sids); self.sids[i] = sid
                hdr = [(":method", "POST" if n or not end else "GET"), (":scheme", "http"), (":authority", "example.com"), (":path", f"/{i}")]
                self.cli.send_headers(sid, hdr, end_stream=bool(end and not n))
                if n: self.cli.send_data(sid, b"q" * n, end_stream=bool(end))
                self.flush_client()
            elif k == "cdata":
                _, i, n, end = st[:4]
                self.cli.send_data(self.sids[i], b"q" * n, end_stream=bool(end)); self.flush_client()
            elif k == "ctrailers":
                self.cli.send_headers(self.sids[st[1]], [("x-trailer", "t")], end_stream=True); self.flush_client()
            elif k == "crst":
                self.cli.reset_stream(self.sids[st[1]]); self.flush_client()
            elif k in ("sresp", "sdata", "strailers", "srst"):
                self.pump()
                sid = self.up.get(f"/{st[1]}")
                if sid is None: return
                if k == "sresp":
                    _, i, n, end = st[:4]
                    self.srv.send_headers(sid, [(":status", "200")], end_stream=bool(end and not n))
                    if n: self.srv.send_data(sid, b"r" * n, end_stream=bool(end))
                elif k == "sdata":
                    self.srv.send_data(sid, b"r" * st[2], end_stream=bool(st[3]))
                elif k == "strailers":
                    self.srv.send_headers(sid, [("x-trailer", "t")], end_stream=True)
                else:
                    self.srv.reset_stream(sid)
                self.flush_server()
        except (h2.exceptions.ProtocolError, KeyError):
            pass          # the script addresses a stream the peer has already closed: nothing to send


class H3World(PreciseWorld):
    """the HTTP/3 connection layers sit on the QUIC layers, which report a closed connection as QuicConnectionClosed"""

    def _handle(self, event):
        from mitmproxy.proxy.layers import quic
        if isinstance(event, events.ConnectionClosed) and not isinstance(event, quic.QuicConnectionClosed):
            event = quic.QuicConnectionClosed(event.connection, 0, None, "peer closed connection")
        super()._handle(event)


class H3Pair:
    """an HTTP/3 client and server (mitmproxy's LayeredH3Connection over aioquic's H3Connection, as independent
    instances) exchanging QUIC stream events with the proxy's Http3Server / Http3Client; same script steps as H2Pair"""

    def __init__(self, w):
        from mitmproxy import connection
        from mitmproxy.proxy.layers.http._http_h3 import LayeredH3Connection
        self.w = w
        self.cconn = connection.Server(address=("proxy", 1), transport_protocol="udp")
        self.sconn = connection.Client(peername=("proxy", 1), sockname=("srv", 2), transport_protocol="udp")
        self.cli = LayeredH3Connection(self.cconn, is_client=True)
        self.srv = LayeredH3Connection(self.sconn, is_client=False)
        self.pos = 0
        self.up, self.sids = {}, {}

    def _to_proxy(self, peer, label):
        from mitmproxy.proxy.layers import quic
        conn = self.w.conns.get(label)
        if conn is None or conn not in self.w.transports:
            return                 # not connected (yet): what the peer has to say stays buffered in its H3 connection
        for c in peer.transmit():
            if isinstance(c, quic.SendQuicStreamData): self.w.deliver(quic.QuicStreamDataReceived(conn, c.stream_id, c.data, c.end_stream))
            elif isinstance(c, quic.ResetQuicStream): self.w.deliver(quic.QuicStreamReset(conn, c.stream_id, c.error_code))
            elif isinstance(c, quic.StopSendingQuicStream): self.w.deliver(quic.QuicStreamStopSending(conn, c.stream_id, c.error_code))

    def pump(self):
        from mitmproxy.proxy.layers import quic
        from aioquic.h3 import events as h3ev
        for _ in range(8):
            moved = False
            self._to_proxy(self.cli, "client"); self._to_proxy(self.srv, "server0")
            while self.pos < len(self.w.trace):
                t = self.w.trace[self.pos]; self.pos += 1
                if t[0] != "cmd": continue
                c = t[2]
                lab = self.w.label(c.connection)
                peer, pc = (self.cli, self.cconn) if lab == "client" else (self.srv, self.sconn)
                if isinstance(c, quic.SendQuicStreamData): e = quic.QuicStreamDataReceived(pc, c.stream_id, c.data, c.end_stream)
                elif isinstance(c, quic.ResetQuicStream): e = quic.QuicStreamReset(pc, c.stream_id, c.error_code)
                elif isinstance(c, quic.StopSendingQuicStream): e = quic.QuicStreamStopSending(pc, c.stream_id, c.error_code)
                else: continue
                moved = True
                try:
                    for x in peer.handle_stream_event(e):
                        if lab != "client" and isinstance(x, h3ev.HeadersReceived):
                            path = dict(x.headers).get(b":path")
                            if path: self.up[path.decode()] = x.stream_id
                except Exception:
                    pass          # the peer's own library rejects something the proxy sent: not what is under test
            if not moved: break

    def step(self, st):
        k = st[0]
        try:
            if k == "creq":
                _, i, n, end = st[:4]
                sid = self.cli.get_next_available_stream_id(); self.sids[i] = sid
                hdr = [(b":method", b"POST" if n or not end else b"GET"), (b":scheme", b"http"), (b":authority", b"example.com"), (b":path", f"/{i}".encode())]
                self.cli.send_headers(sid, hdr, end_stream=bool(end and not n))
                if n: self.cli.send_data(sid, b"q" * n, end_stream=bool(end))
            elif k == "cdata":
                self.cli.send_data(self.sids[st[1]], b"q" * st[2], end_stream=bool(st[3]))
            elif k == "ctrailers":
                self.cli.send_trailers(self.sids[st[1]], [(b"x-trailer", b"t")])
            elif k == "crst":
                self.cli.close_stream(self.sids[st[1]], 0x10c)
            elif k in ("sresp", "sdata", "strailers", "srst"):
                self.pump()
                sid = self.up.get(f"/{st[1]}")
                if sid is None: return
                if k == "sresp":
                    _, i, n, end = st[:4]
                    self.srv.send_headers(sid, [(b":status", b"200")], end_stream=bool(end and not n))
                    if n: self.srv.send_data(sid, b"r" * n, end_stream=bool(end))
                elif k == "sdata": self.srv.send_data(sid, b"r" * st[2], end_stream=bool(st[3]))
                elif k == "strailers": self.srv.send_trailers(sid, [(b"x-trailer", b"t")])
                else: self.srv.close_stream(sid, 0x10c)
        except Exception:
            pass          # the script addresses a stream the peer has already closed: nothing to send
        self.pump()


def run_h2(case):
    """an HTTP/2 client and an HTTP/2 server around the real HttpLayer; returns [(flow, hooknames)]"""
    opts = case.get("opts", {})
    h3 = bool(case.get("h3"))
    ctx = make_context(transport="udp") if h3 else make_context()
    ctx.client.alpn = b"h3" if h3 else b"h2"
    if opts.get("limit"): ctx.options.body_size_limit = str(opts["limit"])
    if opts.get("stream"): ctx.options.stream_large_bodies = str(opts["stream"])
    policy, defer = case.get("policy", {}), case.get("defer", {})
    flows, flow_hooks, state = [], {}, {"final": False}

    def ordinal(f):
        for i, g in enumerate(flows):
            if g is f: return i
        flows.append(f); flow_hooks[id(f)] = []
        return len(flows) - 1

    def act(hook):
        f, a = hook.flow, getattr(hook, "_v_action", "pass")
        if a == "kill":
            if f.killable: f.kill()
        elif a == "resp": f.response = mhttp.Response.make(200, b"made")
        elif a == "stream":
            if hook.name in ("requestheaders", "request"): f.request.stream = True
            elif f.response is not None: f.response.stream = True

    def on_hook(w, hook):
        f = getattr(hook, "flow", None)
        if not isinstance(f, mhttp.HTTPFlow): return None
        i = ordinal(f); flow_hooks[id(f)].append(hook.name)
        pl = policy.get(hook.name, [])
        hook._v_action = pl[i] if i < len(pl) else "pass"
        dl = defer.get(hook.name, [])
        if not state["final"] and i < len(dl) and dl[i]: return "defer"
        act(hook)
        return None

    def on_connect(w, cmd):
        cmd.connection.alpn = b"h3" if h3 else b"h2"
        return "connect failed" if case.get("connfail") else None

    global _REC
    w = (H3World if h3 else PreciseWorld)(lhttp.HttpLayer(ctx, HTTPMode.regular), ctx, on_hook=on_hook, on_connect=on_connect)
    rec = Recorder(HTTPMode.regular, ctx.options)
    _REC = rec
    try:
        return _run_h2_body(w, ctx, case, state, act, rec, flows, flow_hooks)
    finally:
        _REC = None


def _run_h2_body(w, ctx, case, state, act, rec, flows, flow_hooks):
    w.start()
    pair = H3Pair(w) if case.get("h3") else H2Pair(w)
    pair.pump()
    for st in case["steps"]:
        if st[0] == "cclose": w.peer_close("client")
        elif st[0] == "sclose":
            if "server0" in w.conns: w.peer_close("server0")
        elif st[0] == "resume":
            if w.deferred_hooks:
                h = w.deferred_hooks[0]; act(h); w.resume(h); pair.pump()
        else: pair.step(st)
    state["final"] = True
    w.peer_close("client"); w.force_close_client()
    if not w.torn_down: w.teardown()
    for _ in range(50):
        if w.deferred_hooks:
            h = w.deferred_hooks[0]; act(h); w.resume(h)
        elif any(c is not ctx.client for c in w.transports): w.close_all_servers()
        else: break
    return w, rec, [(f, flow_hooks[id(f)]) for f in flows]


H2_SKELETONS = [
    ("h2-get", [["creq", 0, 0, 1], ["sresp", 0, 4, 1]]),
    ("h2-post-split", [["creq", 0, 3, 0], ["cdata", 0, 4, 1], ["sresp", 0, 2, 0], ["sdata", 0, 3, 1]]),
    ("h2-trailers", [["creq", 0, 3, 0], ["ctrailers", 0], ["sresp", 0, 2, 0], ["strailers", 0]]),
    ("h2-two-streams", [["creq", 0, 2, 0], ["creq", 1, 0, 1], ["sresp", 1, 3, 1], ["cdata", 0, 2, 1], ["sresp", 0, 1, 1]]),
    ("h2-early-response", [["creq", 0, 20, 0], ["sresp", 0, 2, 1], ["cdata", 0, 20, 1]]),
    ("h2-big", [["creq", 0, 30, 1], ["sresp", 0, 16, 0], ["sdata", 0, 16, 1]]),
    ("h2-three", [["creq", 0, 0, 1], ["creq", 1, 0, 1], ["creq", 2, 1, 1], ["sresp", 2, 1, 1], ["sresp", 0, 0, 1], ["sresp", 1, 2, 1]]),
]
H2_FAULTS = [["crst", 0], ["srst", 0], ["crst", 1], ["cclose"], ["sclose"], ["connfail"]]


# ------------------------------------------------------------------------------------------------
# skeletons: (name, [steps])
def _skeletons():
    S = []
    def add(name, *steps): S.append((name, [list(s) for s in steps]))
    c, s = (lambda t: ("c", t)), (lambda t: ("s", t))
    add("get-cl", c("get"), s("r200_cl:4"), s("data:4"))
    add("get-cl-split", c("get"), s("r200_cl:6"), s("data:2"), s("data:4"))
    add("get-chunked", c("get"), s("r200_ch"), s("chunk:3"), s("chunk:2"), s("last"))
    add("get-eof", c("get"), s("r200_eof"), s("data:5"), s("close"))
    add("get-204", c("get"), s("r204"))
    add("get-304", c("get"), s("r304"))
    add("get-100", c("get"), s("r100"), s("r200_cl:2"), s("data:2"))
    add("head", c("head"), s("r200_cl:9"))
    add("get-origin", c("get_origin"), s("r200_cl:0"))
    add("get10-eof", c("get10"), s("r200_eof"), s("data:3"), s("close"))
    add("get-close", c("get_close"), s("r200_cl:2"), s("data:2"))
    add("get-srvclose-hdr", c("get"), s("r200_close:2"), s("data:2"), s("close"))
    add("post-cl", c("post_cl:5"), c("data:5"), s("r200_cl:2"), s("data:2"))
    add("post-cl-split", c("post_cl:6"), c("data:2"), c("data:4"), s("r200_cl:2"), s("data:2"))
    add("post-chunked", c("post_ch"), c("chunk:4"), c("chunk:1"), c("last"), s("r200_cl:2"), s("data:2"))
    add("post-chunked-chunked", c("post_ch"), c("chunk:4"), c("last"), s("r200_ch"), s("chunk:2"), s("last"))
    add("post-early-response", c("post_cl:6"), c("data:2"), s("r200_cl:2"), s("data:2"), c("data:4"))
    add("post-early-response-ch", c("post_ch"), c("chunk:2"), s("r200_ch"), s("chunk:1"), s("last"), c("chunk:2"), c("last"))
    add("pipeline-2", c("get"), s("r200_cl:1"), s("data:1"), c("get"), s("r200_cl:2"), s("data:2"))
    add("pipeline-eager", c("get"), c("get"), s("r200_cl:1"), s("data:1"), s("r200_cl:2"), s("data:2"))
    add("pipeline-post", c("post_cl:2"), c("data:2"), c("post_ch"), s("r200_cl:1"), s("data:1"), c("chunk:2"), c("last"), s("r204"))
    add("pipeline-3", c("get"), s("r204"), c("head"), s("r200_cl:3"), c("get"), s("r304"))
    add("ws", c("get_ws"), s("r101ws"), s("data:3"), c("data:3"))
    add("upgrade-other", c("get_ws"), s("r101"), s("data:3"), c("data:2"))
    add("connect", c("connect"), c("data:5"))
    add("nohost", c("nohost"))
    add("badhead", c("badhead"))
    add("badcl", c("badcl"))
    add("tecl", c("tecl"), c("chunk:2"), c("last"))
    add("badscheme", c("badscheme"))
    add("req-badchunk", c("post_ch"), c("chunk:2"), c("badchunk"))
    add("resp-bad", c("get"), s("rbad"))
    add("resp-badcl", c("get"), s("rbadcl"))
    add("resp-tecl", c("get"), s("rtecl"), s("chunk:1"), s("last"))
    add("resp-badchunk", c("get"), s("r200_ch"), s("chunk:2"), s("badchunk"))
    add("resp-extra", c("get"), s("r200_cl:2"), s("data:2"), s("junk"))
    add("resp-unsolicited", c("get"), s("r204"), s("r204"), c("get"))
    add("big-req", c("post_cl:40"), c("data:20"), c("data:20"), s("r200_cl:2"), s("data:2"))
    add("big-req-ch", c("post_ch"), c("chunk:12"), c("chunk:12"), c("chunk:12"), c("last"), s("r204"))
    add("big-resp", c("get"), s("r200_cl:40"), s("data:20"), s("data:20"))
    add("big-resp-ch", c("get"), s("r200_ch"), s("chunk:12"), s("chunk:12"), s("chunk:12"), s("last"))
    add("big-both", c("post_cl:30"), c("data:30"), s("r200_ch"), s("chunk:16"), s("chunk:16"), s("last"))
    return S


SKELETONS = _skeletons()
FAULTS = [["c", "close"], ["s", "close"], ["c", "badchunk"], ["s", "badchunk"], ["c", "junk"], ["s", "rbad"], ["connfail"]]
OPTS = [{}, {"limit": 25}, {"stream": 10}, {"limit": 25, "stream": 10}]
HOOK_ACTIONS = {
    "requestheaders": ACTIONS, "request": ACTIONS, "responseheaders": ("pass", "kill", "stream", "resp"),
    "response": ("pass", "kill", "resp"), "error": ("pass", "kill"),
}


def with_fault(steps, fault, pos):
    if fault == ["connfail"]:
        return steps, ["fail"]
    return steps[:pos] + [fault] + steps[pos:], []


# ------------------------------------------------------------------------------------------------
def lifecycle_failures(names, meta):
    """the first five sentences of the statement, on one flow's hook-name sequence (lifecycle hooks only)"""
    t = [n for n in names if n in LIFECYCLE]
    fails = []
    # "each HTTP flow fires requestheaders first"
    if t and t[0] != "requestheaders":
        fails.append(f"first lifecycle hook is {t[0]}, not requestheaders")
    if t.count("requestheaders") > 1:
        fails.append("requestheaders fired more than once")
    # "request at most once after it"
    if t.count("request") > 1:
        fails.append("request fired more than once")
    # "responseheaders at most once and before response"
    if t.count("responseheaders") > 1:
        fails.append("responseheaders fired more than once")
    if t.count("response") > 1:
        fails.append("response fired more than once")
    if "response" in t and ("responseheaders" not in t or t.index("responseheaders") > t.index("response")):
        fails.append("response fired without a preceding responseheaders")
    # "never fires both response and error"
    if "response" in t and "error" in t:
        fails.append("both response and error fired")
    if t.count("error") > 1:
        fails.append("error fired more than once")
    # "when the request body is not streamed, request precedes responseheaders"
    if not meta["req_streamed"] and "responseheaders" in t and ("request" not in t or t.index("request") > t.index("responseheaders")):
        fails.append("request body not streamed but responseheaders fired before request")
    return fails


def closure_failures(names, meta):
    """"Once the client connection and all server connections are closed, every request/response flow that fired
    requestheaders (excluding CONNECT tunnels and protocol upgrades) has fired exactly one of response or error and
    is no longer live." """
    t = [n for n in names if n in LIFECYCLE]
    if "requestheaders" not in t or meta["connect"] or meta["upgraded"]:
        return []
    fails = []
    n = t.count("response") + t.count("error")
    if n != 1:
        fails.append(f"after everything closed the flow fired {t.count('response')} response and {t.count('error')} error hooks")
    if meta["live"]:
        fails.append("after everything closed the flow is still live")
    return fails


class Check(PropertyCheck):
    prop = "C03"
    design_ref = "§5 C03"
    level_text = ("Lean theorems requestheaders_first, request_at_most_once, responseheaders_before_response, "
                  "never_response_and_error, unstreamed_request_before_responseheaders, closed_implies_outcome about a model "
                  "of HttpStream (client_state × server_state, all 30 suspension points of its generator, Layer pause/"
                  "replay semantics incl. check_killed's peek into the paused-event queue and queues left behind by "
                  "escaping exceptions, check_body_size/check_invalid/check_killed/handle_protocol_error, CONNECT and 101 "
                  "hand-off) for EVERY input history: any interleaving of HttpEvents, hook completions with any addon "
                  "action (pass/kill/set response/stream), connection results and any body sizes/limits.  Proof = an "
                  "inductive invariant over the control skeleton that is independent of the addon-controlled flow "
                  "attributes, lifted to runs by induction, plus a trace monitor.  The model is tied to the real HttpLayer "
                  "per stream: the recorded input sequence of every real HttpStream is replayed through the compiled "
                  "model, which must emit the same commands call by call, accept every input under its event grammar, "
                  "and agree on final state and on being settled after all connections closed.  For HTTP/1 the event-"
                  "grammar hypothesis is discharged: `grammar_holds` proves that every history the emitter model "
                  "(Http1Server/Http1Client/HttpLayer per stream: headers once → data* → end | protocol error, nothing but "
                  "protocol errors after one; response events only once the request went upstream; completions only for "
                  "the pending command) can deliver stays inside the grammar, including queue replay and queues left "
                  "behind by exceptions, so the six `_http1` theorems need no hypothesis besides admissibility; every real "
                  "per-stream event sequence is checked to be admissible (adm=1).  HTTP/2: the stream model and the emitter "
                  "carry RequestTrailers/ResponseTrailers, so HTTP/2 histories (multiplexed streams, trailers, resets, early "
                  "responses) are admissible histories too: the six `_http2` theorems hold without a grammar hypothesis, and "
                  "HTTP/2 client/server runs are tied to the model per stream exactly like HTTP/1 (outputs, final state, "
                  "adm=1, settled).  HTTP/3: Http3Server/Http3Client are driven offline by an HTTP/3 client and server "
                  "exchanging QUIC stream events with them; the same skeletons, faults and policies are run, judged by the "
                  "oracle and tied to the model per stream like HTTP/2 (`_http3` theorems).  COUNT: there is ONE emitter model "
                  "(`enabled`/`Admissible`, Model/C03_Emit.lean) for the three protocols, so the six `_http2` and six `_http3` "
                  "theorems are verbatim restatements of the `_http1` ones (same hypothesis `Admissible l t evs`, same conclusion, "
                  "proof = the `_http1` theorem): C03 has 13 DISTINCT statements (6 under the grammar hypothesis `bad = false`, "
                  "`grammar_holds`, 6 under `Admissible`), not 25; what is protocol-specific is the TIE (adm=1 is required of "
                  "every real HTTP/1, HTTP/2 and HTTP/3 stream), not the proof.  The final line compared per stream now also "
                  "carries `connect=` (the model's `isConnect`, the hypothesis of closed_implies_outcome) against the real "
                  "flow's method.")
    level_note = ("trusted: Lean kernel; hand-written model (validated differentially, ~0 mismatches on >10^5 scripts); the "
                  "emitter model of Http1Server/Http1Client/HttpLayer is itself a hand-written abstraction, tied by checking "
                  "that every real per-stream event sequence is one it can produce (not by a proof about those classes); "
                  "HTTP/1, HTTP/2 and HTTP/3 are tied (HTTP/3 without the QUIC/TLS layers: the peers speak QUIC stream events directly to Http3Server/Http3Client, a closed connection is reported as QuicConnectionClosed); options websocket/rawtcp at their defaults; regular mode; runs in which an "
                  "exception raised OUTSIDE HttpStream (Http1Server/HttpLayer/server assertions) abandons a suspended "
                  "stream generator are judged by the direct oracle only, not compared with the model.")
    technique = ("Lean 4 proof (inductive invariant over all input histories of the HttpStream model + trace monitor) "
                 "+ per-stream trace correspondence with the real HttpLayer + direct oracle on hook traces")
    rule = ("exchange skeletons (42: bodies by content-length/chunked/until-EOF, HEAD/204/304/100, pipelining, early "
            "responses, websocket/101, CONNECT, malformed heads/bodies on either side, body-size options) × one fault "
            "(client/server close, protocol error on either side, connect failure) at every step index × body-size "
            "options × addon policy per hook and flow (pass/kill/set response/enable streaming, each optionally "
            "intercepted and resumed at a later step or after everything closed) × immediate/deferred connects; plus "
            "7 HTTP/2 client/server skeletons (multiplexed streams, split bodies, trailers, early response) × stream "
            "reset / connection close / connect failure at every step × the same policies, each also as an HTTP/3 client/server pair (oracle + model tie). "
            "distinct = distinct (script, policy, defer, connect, options); non-trivial = at least one flow fired "
            "requestheaders.")
    budget = {"quick": 9000, "thorough": 400000}
    time_budget = {"quick": 14, "thorough": 540}
    fingerprints = ["mitmproxy.proxy.layers.http:HttpStream._handle_event",
                    "mitmproxy.proxy.layers.http:HttpStream.state_wait_for_request_headers",
                    "mitmproxy.proxy.layers.http:HttpStream.start_request_stream",
                    "mitmproxy.proxy.layers.http:HttpStream.state_stream_request_body",
                    "mitmproxy.proxy.layers.http:HttpStream.state_consume_request_body",
                    "mitmproxy.proxy.layers.http:HttpStream.state_wait_for_response_headers",
                    "mitmproxy.proxy.layers.http:HttpStream.start_response_stream",
                    "mitmproxy.proxy.layers.http:HttpStream.state_stream_response_body",
                    "mitmproxy.proxy.layers.http:HttpStream.state_consume_response_body",
                    "mitmproxy.proxy.layers.http:HttpStream.send_response",
                    "mitmproxy.proxy.layers.http:HttpStream.flow_done",
                    "mitmproxy.proxy.layers.http:HttpStream.check_body_size",
                    "mitmproxy.proxy.layers.http:HttpStream.check_invalid",
                    "mitmproxy.proxy.layers.http:HttpStream.check_killed",
                    "mitmproxy.proxy.layers.http:HttpStream.handle_protocol_error",
                    "mitmproxy.proxy.layers.http:HttpStream.make_server_connection",
                    "mitmproxy.proxy.layers.http:HttpStream.handle_connect",
                    "mitmproxy.proxy.layers.http:HttpStream.handle_connect_regular",
                    "mitmproxy.proxy.layers.http:HttpStream.handle_connect_finish",
                    "mitmproxy.proxy.layers.http:HttpStream.state_errored",
                    "mitmproxy.proxy.layers.http:HttpLayer.event_to_child",
                    "mitmproxy.proxy.layers.http:HttpLayer.get_connection",
                    "mitmproxy.proxy.layers.http._http1:Http1Connection.read_body",
                    "mitmproxy.proxy.layers.http._http1:Http1Connection.wait",
                    "mitmproxy.proxy.layers.http._http1:Http1Connection.mark_done",
                    "mitmproxy.proxy.layers.http._http1:Http1Server.read_headers",
                    "mitmproxy.proxy.layers.http._http1:Http1Server.send",
                    "mitmproxy.proxy.layers.http._http1:Http1Client.read_headers",
                    "mitmproxy.proxy.layers.http._http1:Http1Client.send",
                    "mitmproxy.proxy.layer:Layer.handle_event",
                    "mitmproxy.flow:Flow.kill"]
    trusted_base = ["h11 body readers and mitmproxy.net.http.http1 head parsing (exercised, not modelled: the tie is at the "
                    "HttpStream boundary)",
                    "harness/common/world.py as the stand-in for proxy/server.py's command interpreter"]
    assumptions = ["event grammar: request events of one stream arrive in Http1Server order (headers once; nothing but "
                   "protocol errors after a protocol error), response events only after the request headers went upstream"]
    parallel = True
    has_model = True

    def setup(self, tier):
        # the quick tier is faster serially (the observations with their per-stream logs are expensive to pickle)
        self.parallel = tier == "thorough"

    # ---- generation ---------------------------------------------------------------------------
    @staticmethod
    def _case(name, steps, policy=None, defer=None, connect=None, opts=None):
        return {"sk": name, "script": [list(x) for x in steps], "policy": policy or {}, "defer": defer or {},
                "connect": connect or [], "opts": opts or {}}

    def _random_case(self, rng):
        name, steps = rng.pick(SKELETONS)
        steps = [list(x) for x in steps]
        conn = []
        if rng.chance(0.7):
            steps, conn = with_fault(steps, rng.pick(FAULTS), rng.randint(0, len(steps)))
        if rng.chance(0.15):
            steps, c2 = with_fault(steps, rng.pick(FAULTS), rng.randint(0, len(steps)))
            conn = conn or c2
        if rng.chance(0.2): conn = [rng.pick(["ok", "fail", "defer_ok", "defer_fail"]) for _ in range(2)]
        policy, defer = {}, {}
        for h, acts in HOOK_ACTIONS.items():
            if rng.chance(0.5): policy[h] = [rng.pick(acts) if rng.chance(0.6) else "pass" for _ in range(3)]
            if rng.chance(0.3): defer[h] = [int(rng.chance(0.6)) for _ in range(3)]
        for _ in range(rng.randint(0, 3)): steps.insert(rng.randint(0, len(steps)), ["resume"])
        if any(c.startswith("defer") for c in conn): steps.insert(rng.randint(0, len(steps)), ["connect"])
        return self._case(name, steps, policy, defer, conn, rng.pick(OPTS))

    def generate(self, rng, tier):
        for name, steps in SKELETONS:
            yield self._case(name, steps)
        # HTTP/2 client/server pairs (oracle only): skeletons × fault at every step × policies
        for name, steps in H2_SKELETONS:
            yield {"h2": 1, "sk": name, "steps": steps, "policy": {}, "defer": {}, "opts": {}}
            for fault in H2_FAULTS:
                for pos in range(len(steps) + 1):
                    if fault == ["connfail"]:
                        yield {"h2": 1, "sk": name, "steps": steps, "policy": {}, "defer": {}, "opts": {}, "connfail": 1}; break
                    yield {"h2": 1, "sk": name, "steps": steps[:pos] + [fault] + steps[pos:], "policy": {}, "defer": {}, "opts": rng.pick(OPTS)}
            for h, acts in HOOK_ACTIONS.items():
                for a in acts:
                    for d in (0, 1):
                        if a == "pass" and not d: continue
                        st = list(steps) + ([["resume"]] * 2 if d and rng.chance(0.5) else [])
                        yield {"h2": 1, "sk": name, "steps": st, "policy": {h: [a, a, a]}, "defer": {h: [d, d, d]} if d else {}, "opts": rng.pick(OPTS)}
        # a fault at every step index of every skeleton (all body-size options in the thorough tier)
        for name, steps in SKELETONS:
            for fault in FAULTS:
                for pos in range(len(steps) + 1):
                    st, conn = with_fault([list(x) for x in steps], fault, pos)
                    for opts in (OPTS if tier == "thorough" else [OPTS[0], rng.pick(OPTS[1:])]):
                        yield self._case(name, st, connect=conn, opts=opts)
                    if fault == ["connfail"]: break
        # every single-hook policy, immediate and intercepted (resumed after everything closed)
        for name, steps in SKELETONS:
            for h, acts in HOOK_ACTIONS.items():
                for a in acts:
                    for d in (0, 1):
                        if a == "pass" and not d: continue
                        for opts in (OPTS if tier == "thorough" else [rng.pick(OPTS)]):
                            yield self._case(name, steps, {h: [a, a]}, {h: [d, d]} if d else {}, opts=opts)
        # HTTP/3 client/server pairs: the HTTP/2 skeletons, faults and policies over QUIC stream events
        for name, steps in H2_SKELETONS:
            yield {"h2": 1, "h3": 1, "sk": name, "steps": steps, "policy": {}, "defer": {}, "opts": {}}
            for fault in H2_FAULTS:
                for pos in range(len(steps) + 1):
                    if fault == ["connfail"]:
                        yield {"h2": 1, "h3": 1, "sk": name, "steps": steps, "policy": {}, "defer": {}, "opts": {}, "connfail": 1}; break
                    yield {"h2": 1, "h3": 1, "sk": name, "steps": steps[:pos] + [fault] + steps[pos:], "policy": {}, "defer": {}, "opts": rng.pick(OPTS)}
            for h, acts in HOOK_ACTIONS.items():
                for a in acts:
                    for d in (0, 1):
                        if a == "pass" and not d: continue
                        st = list(steps) + ([["resume"]] * 2 if d and rng.chance(0.5) else [])
                        yield {"h2": 1, "h3": 1, "sk": name, "steps": st, "policy": {h: [a, a, a]}, "defer": {h: [d, d, d]} if d else {}, "opts": rng.pick(OPTS)}
        if tier == "thorough":
            # policy × fault × position
            for name, steps in SKELETONS:
                for h, acts in HOOK_ACTIONS.items():
                    for a in acts:
                        for fault in FAULTS[:6]:
                            for pos in range(len(steps) + 1):
                                st, conn = with_fault([list(x) for x in steps], fault, pos)
                                d = rng.randint(0, 1)
                                yield self._case(name, st, {h: [a, a]}, {h: [d, d]} if d else {}, conn, rng.pick(OPTS))
        while True:
            if rng.chance(0.15):
                name, steps = rng.pick(H2_SKELETONS)
                steps = [list(x) for x in steps]
                for _ in range(rng.randint(0, 2)):
                    f = rng.pick(H2_FAULTS[:5]); steps.insert(rng.randint(0, len(steps)), f)
                policy, defer = {}, {}
                for h, acts in HOOK_ACTIONS.items():
                    if rng.chance(0.4): policy[h] = [rng.pick(acts) if rng.chance(0.6) else "pass" for _ in range(3)]
                    if rng.chance(0.25): defer[h] = [int(rng.chance(0.6)) for _ in range(3)]
                for _ in range(rng.randint(0, 3)): steps.insert(rng.randint(0, len(steps)), ["resume"])
                yield {"h2": 1, "sk": name, "steps": steps, "policy": policy, "defer": defer, "opts": rng.pick(OPTS)}
            else:
                yield self._random_case(rng)

    def impl(self, case):
        if case.get("h2"):
            return self._impl_h2(case)
        w, rec, flows = run_script(case)
        self._last_obs = None
        out = {"flows": [], "streams": [], "crashes": [e[0] for e in w.errors], "open": len(w.transports),
               "pending": len(w.deferred_hooks)}
        for f, names in flows:
            up = bool(f.websocket) or (f.response is not None and f.response.status_code == 101 and "response" in names)
            out["flows"].append({"hooks": names, "live": bool(f.live), "connect": f.request.method == "CONNECT",
                                 "upgraded": up, "req_streamed": bool(f.request.stream)})
        for s in rec.streams:
            out["streams"].append({"id": s.stream_id, "log": [[e["in"], e["out"], int(e["pt"])] for e in rec.logs[id(s)]],
                                   "cs": s.client_state.__name__[6:], "ss": s.server_state.__name__[6:],
                                   "live": bool(getattr(getattr(s, "flow", None), "live", False)),
                                   "pt": s._handle_event == s.passthrough,
                                   "connect": bool(getattr(s, "flow", None) and s.flow.request.method == "CONNECT"),
                                   "websocket": bool(getattr(s, "flow", None) and s.flow.websocket),
                                   "streamed_up": bool(getattr(s, "_v_streamed", False))})
        self._last_obs = (case, out)
        return out

    def _impl_h2(self, case):
        w, rec, flows = run_h2(case)
        out = {"flows": [], "streams": [], "crashes": [e[0] for e in w.errors], "open": len(w.transports),
               "pending": len(w.deferred_hooks), "h2": True}
        for f, names in flows:
            out["flows"].append({"hooks": names, "live": bool(f.live), "connect": f.request.method == "CONNECT",
                                 "upgraded": bool(f.websocket), "req_streamed": bool(f.request.stream)})
        for s in rec.streams:
            out["streams"].append({"id": s.stream_id, "log": [[e["in"], e["out"], int(e["pt"])] for e in rec.logs[id(s)]],
                                   "cs": s.client_state.__name__[6:], "ss": s.server_state.__name__[6:],
                                   "live": bool(getattr(getattr(s, "flow", None), "live", False)),
                                   "pt": s._handle_event == s.passthrough,
                                   "connect": bool(getattr(s, "flow", None) and s.flow.request.method == "CONNECT"),
                                   "websocket": bool(getattr(s, "flow", None) and s.flow.websocket),
                                   "streamed_up": bool(getattr(s, "_v_streamed", False))})
        self._last_obs = (case, out)
        return out

    def oracle(self, case, obs):
        fails = []
        if obs["open"] or obs["pending"]:
            fails.append(f"harness: run did not reach the all-closed state (open={obs['open']} pending={obs['pending']})")
        for i, fl in enumerate(obs["flows"]):
            for f in lifecycle_failures(fl["hooks"], fl) + closure_failures(fl["hooks"], fl):
                fails.append(f"flow {i} {fl['hooks']}: {f}")
        return fails

    def classify(self, case, obs):
        if not any("requestheaders" in f["hooks"] for f in obs["flows"]): return None
        return json.dumps([case.get("script", case.get("steps")), case["policy"], case["defer"], case.get("connect"), case["opts"], case.get("h2", 0), case.get("h3", 0)], sort_keys=True)

    def branches(self, case, obs):
        out = ["sk:" + str(case.get("sk"))] + ((["http3"] if case.get("h3") else ["http2"]) if case.get("h2") else [])
        for f in obs["flows"]:
            t = f["hooks"]
            out.append("outcome:" + ("response" if "response" in t else "error" if "error" in t else "none"))
            if f["connect"]: out.append("flow:connect")
            if f["upgraded"]: out.append("flow:upgraded")
            if f["req_streamed"]: out.append("flow:request-streamed")
            if "request" in t and "response" in t and t.index("response") < t.index("request"): out.append("order:response-before-request")
        if len(obs["flows"]) > 1: out.append("pipelined")
        if obs["crashes"]: out.append("exception-escaped")
        if any(v and any(v) for v in case["defer"].values()): out.append("intercepted")
        if case["opts"]: out.append("body-size-options")
        for st in obs["streams"]:
            for inp, o, _ in st["log"]:
                if inp.startswith("hc ") and not inp.endswith(" pass"): out.append("action:" + inp.split()[2]); break
        return sorted(set(out))

    def neighbours(self, case, rng):
        if case.get("h2"): return
        steps = case["script"]
        for pos in range(len(steps) + 1):
            for fault in FAULTS[:6]:
                c = dict(case); c["script"] = steps[:pos] + [fault] + steps[pos:]
                yield c
        for h, acts in HOOK_ACTIONS.items():
            for a in acts:
                for d in (0, 1):
                    c = dict(case); c["policy"] = dict(case["policy"], **{h: [a, a, a]}); c["defer"] = dict(case["defer"], **{h: [d, d, d]})
                    yield c
        for opts in OPTS:
            c = dict(case); c["opts"] = opts
            yield c

    def exhaustive(self, tier):
        for name, steps in SKELETONS:
            for fault in FAULTS:
                for pos in range(len(steps) + 1):
                    st, conn = with_fault([list(x) for x in steps], fault, pos)
                    for opts in OPTS:
                        yield self._case(name, st, connect=conn, opts=opts)

    # ---- model tie: every real HttpStream's input sequence is replayed through the Lean model -----------------
    def model_lines(self, case):
        obs = getattr(self, "_last_obs", None)
        if obs is None or obs[0] is not case:
            obs = (case, self.impl(case))
        lines = []
        o = case.get("opts", {})
        inner = sum(1 for st in obs[1]["streams"] for _, out, _ in st["log"] for t in out if t.startswith("X:"))
        if len(obs[1]["crashes"]) > inner:
            # an exception was raised outside HttpStream (Http1Server/HttpLayer/server assertions) while a stream
            # generator was suspended at a yield: that generator is abandoned half-way, which the model does not
            # represent.  Such runs are judged by the direct oracle only.
            raise Skip("exception outside HttpStream abandoned a generator")
        for st in obs[1]["streams"]:
            lines.append(f"reset {o.get('limit', 0)} {o.get('stream', 0)}")
            for inp, out, pt in st["log"]:
                if inp == "start" or pt: continue
                if inp.startswith("other:"): raise Skip("input outside the model")
                lines.append(inp)
            lines.append("end")
        return lines

    @staticmethod
    def _norm_end(line, fired_rh):
        """final line: `live` is not compared once the stream is a pipe (the child layer owns the flow then);
        `settled` is only claimed for request/response flows that fired requestheaders (no pipe, no websocket)"""
        kv = dict(x.split("=") for x in line.split())
        if kv["pt"] == "1": kv["live"] = "*"
        if not (fired_rh and kv["pt"] == "0" and kv["ws"] == "0"): kv["settled"] = "*"
        return " ".join(f"{k}={v}" for k, v in kv.items())

    def model_obs(self, case, replies):
        out, cur = [], None
        for r in replies:
            if r == "ok": cur = []; out.append(cur)
            else: cur.append(r)
        for cur in out:
            if cur and cur[-1].startswith("live="):
                cur[-1] = self._norm_end(cur[-1], any("H:requestheaders" in r.split() for r in cur[:-1]))
        return out

    def impl_view(self, case, obs):
        out = []
        for st in obs["streams"]:
            cur = []
            for inp, o, pt in st["log"]:
                if inp == "start" or pt: continue
                toks = [("X" if t.startswith("X:") else t) for t in o if not (t.startswith("H:") and t[2:] not in HTTP_HOOKS)]
                cur.append(" ".join(toks) if toks else "-")
            ispt = any(pt for _, _, pt in st["log"]) or st["pt"]
            # after everything is closed and every hook completed: the model must agree that the stream is settled,
            # that no input fell outside its event grammar, and that nothing is pending
            end = (f"live={int(st['live'])} cs={st['cs']} ss={st['ss']} pt={int(ispt)} settled=1 bad=0 paused=0 "
                   f"streamed={int(st['streamed_up'])} ws={int(st['websocket'])} connect={int(st['connect'])} adm=1")
            cur.append(self._norm_end(end, any("H:requestheaders" in c.split() for c in cur)))
            out.append(cur)
        return out
