"""C04 — blocked layers process events exactly once, in order
(mitmproxy/proxy/layer.py Layer.handle_event/__process/__continue, NextLayer; events.py; commands.py).

A case is a set of *programs* (one per layer of a real layer tree) and a *schedule*.
Layer tree (all real `Layer` subclasses, driven only through `handle_event`):

    [0] real NextLayer (optional, in front)
     └─[1] ProgLayer ── child0 ─ [2] ProgLayer ── child0 ─ [4] ProgLayer
                     └─ child1 ─ [3] ProgLayer ── child0 ─ [5] ProgLayer

A ProgLayer's `_handle_event` interprets its program: event kind -> list of actions, an action being
"yield a fresh command (label, blocking?)" or "yield from child_i.handle_event(event)".
The handler records which event it handles and which value every `yield` gave back.
The same programs + schedule go to the Lean model driver (`mv_c04`), which runs Model/C04.lean.
"""
import functools
import itertools
from dataclasses import dataclass
from typing import Any

from common.check import PropertyCheck
from mitmproxy import connection, options
from mitmproxy.connection import ConnectionState
from mitmproxy.proxy import commands, context, events, layer

NKINDS = 12          # plain labels 0..6, completion of: own cmd (7), child 0/1/2 subtree (8/9/10), other (11)
NPLAIN = 7           # 0 Start, 1 Data(client), 2 Data(server), 3 Closed(client), 4 Closed(server), 5 custom A, 6 custom B
MAXDEPTH = 4         # levels of ProgLayers (the Lean driver instantiates Prog.TS 3)


class PCmd(commands.Command):
    """a command yielded by a ProgLayer; identity = the Python object; (owner, n) only names it in traces"""
    def __init__(self, owner, n, label, seen, blocking):
        self.owner, self.n, self.label, self.seen = owner, n, label, seen
        self.blocking = blocking


@dataclass(repr=False)
class PCmdCompleted(events.CommandCompleted):
    command: PCmd
    reply: Any


class EvA(events.Event):
    pass


class EvB(events.Event):
    pass


def cmd_key(c):
    """(layer, n, label, seen) of any command seen at the top"""
    if isinstance(c, PCmd):
        return (c.owner, c.n, c.label, c.seen)
    return c._c04key        # NextLayer's own commands are numbered by the harness when they first appear


def blk_repr(c):
    b = c.blocking
    return "n" if b is False else ("y" if b is True else "o")


def cmd_str(c):
    return "%d.%d.%d.%d.%s" % (*cmd_key(c), blk_repr(c))


def ev_str(e):
    if isinstance(e, events.CommandCompleted):
        k = cmd_key(e.command)
        return "k%d.%dr%d" % (k[0], k[1], e.reply or 0)
    return "p%du%d" % (e._c04label, e._c04uid)


class ProgLayer(layer.Layer):
    """interprets one program table per handler; action ["sw", m] re-binds `self._handle_event` the way real
    layers switch state (`self._handle_event = self.state_x`)"""
    def __init__(self, ctx, idx, tabs, route, rec):
        super().__init__(ctx)
        self.idx, self.tabs, self.route, self.rec = idx, tabs, route, rec
        self.kids = []
        self.ctr = 0
        self.seen = 0
        self.bound = 0               # number of the handler bound by the last executed "sw"
        self.waiting = None          # the handler's own view: command whose `yield` has not returned yet
        self.log = []                # ("h", event) | ("s", n, value)
        self.arrivals = []           # (event, is_own_completion, handler_was_waiting)
        self.oracle_notes = []
        self._handlers = [functools.partial(self._run, m) for m in range(max(2, len(tabs)))]

    def kind(self, event):
        if isinstance(event, events.CommandCompleted):
            o = cmd_key(event.command)[0]
            if o == self.idx: return 7
            for i, sub in enumerate(self.route):
                if o in sub: return 8 + i if i < 3 else 11
            return 11
        return event._c04label

    def handle_event(self, event):
        own = self.waiting is not None and isinstance(event, events.CommandCompleted) and event.command is self.waiting
        self.arrivals.append((event, own, self.waiting is not None))
        self.rec["cur"][self.idx] = len(self.arrivals) - 1
        return super().handle_event(event)

    def _handle_event(self, event):
        return self._run(0, event)

    def _run(self, mode, event):
        if self.waiting is not None:
            self.oracle_notes.append("layer %d started handling %s while waiting for %s" % (self.idx, ev_str(event), cmd_str(self.waiting)))
        if mode != self.bound:
            self.oracle_notes.append("layer %d: %s handled by handler %d but the handler bound at that time is %d" % (self.idx, ev_str(event), mode, self.bound))
        self.log.append(("h", event))
        tab = self.tabs[mode] if mode < len(self.tabs) else []
        k = self.kind(event)
        for a in (tab[k] if k < len(tab) else []):
            if a[0] == "ch":
                if a[1] < len(self.kids):
                    yield from self.kids[a[1]].handle_event(event)
            elif a[0] == "sw":
                self.bound = a[1]
                self._handle_event = self._handlers[a[1]]
            else:
                cmd = PCmd(self.idx, self.ctr, a[1], self.seen, bool(a[2]))
                self.ctr += 1
                if a[2]:
                    self.waiting = cmd
                r = yield cmd
                if a[2]:
                    self.waiting = None
                    # which arrival (index into self.arrivals) was being delivered when the yield returned
                    self.log.append(("s", cmd.n, r, cmd, self.rec["cur"].get(self.idx)))
                else:
                    self.log.append(("s", cmd.n, r, None, None))
                self.seen = r or 0


def make_ctx():
    client = connection.Client(peername=("192.0.2.1", 51234), sockname=("127.0.0.1", 8080), timestamp_start=1605699329,
                               state=ConnectionState.OPEN)
    ctx = context.Context(client, options.Options())
    ctx.server = connection.Server(address=("192.0.2.2", 443))
    return ctx


def make_event(ctx, label, uid):
    if label == 0: e = events.Start()
    elif label == 1: e = events.DataReceived(ctx.client, b"c%d" % uid)
    elif label == 2: e = events.DataReceived(ctx.server, b"s%d" % uid)
    elif label == 3: e = events.ConnectionClosed(ctx.client)
    elif label == 4: e = events.ConnectionClosed(ctx.server)
    elif label == 5: e = EvA()
    else: e = EvB()
    e._c04label, e._c04uid = label, uid
    return e


def routes(tree):
    """for every node (list position) the owners of each child's subtree, children in list order"""
    kids = {n["idx"]: [] for n in tree}
    for n in tree:
        if n["parent"]: kids[n["parent"]].append(n["idx"])
    def sub(i):
        out = [i]
        for k in kids[i]: out += sub(k)
        return out
    return {n["idx"]: [sub(k) for k in kids[n["idx"]]] for n in tree}, kids


def snap_layer(ly):
    p = cmd_str(ly._paused.command) if ly._paused else "-"
    return "%s:%s:m%d" % (p, ";".join(ev_str(e) for e in ly._paused_event_queue), ly.bound)


def log_str(ly):
    ent = []
    for e in ly.log:
        if e[0] == "h": ent.append("h" + ev_str(e[1]))
        else: ent.append("s%dr%d" % (e[1], e[2] or 0))
    return ";".join(ent)


def ev_enc(e):
    """an event as input for the model's `seq` op (completions carry the whole command name)"""
    if isinstance(e, events.CommandCompleted):
        return "k%d.%d.%d.%dr%d" % (*cmd_key(e.command), e.reply or 0)
    return "p%du%d" % (e._c04label, e._c04uid)


def run_case(case, extra=None):
    """drive the real layers; returns (canonical trace string, oracle failures).
    kind "seqtie": the string is the FINAL configuration only (total output of the root layer, every layer's paused
    command / queue / bound handler, every layer's log), and extra["split"] receives the root layer's arrivals split
    into (events, replies of its own completions) — the inputs of the reference interpreter `seq`."""
    if case.get("prim"):
        return run_prim(case)
    ctx = make_ctx()
    rec = {"cur": {}}
    tree = case["tree"]
    rt, kids = routes(tree)
    L = {}
    for n in tree:
        L[n["idx"]] = ProgLayer(ctx, n["idx"], n["tabs"], rt[n["idx"]], rec)
    for n in tree:
        L[n["idx"]].kids = [L[j] for j in kids[n["idx"]]]
    order = [n["idx"] for n in tree]            # preorder
    root = L[order[0]]
    nl = None
    top = root
    if case["nl"]:
        nl = layer.NextLayer(ctx, ask_on_start=bool(case["aos"]))
        top = nl
    nl_ctr = 0
    emitted, pending = [], []       # all commands seen at the top / blocking ones not yet completed
    steps_out = []
    top_arrivals = []               # (event, was a completion of the hook the NextLayer was waiting on)
    fails = []
    root_out = []                   # everything the root layer emitted (NextLayer's own commands excluded)

    def snap():
        parts = []
        if nl is not None:
            handed = nl._handle is not None
            p = cmd_str(nl._paused.command) if nl._paused else "-"
            parts.append("%s:%s:%s:%d" % (p, ";".join(ev_str(e) for e in nl._paused_event_queue),
                                          ";".join(ev_str(e) for e in nl.events), 1 if handed else 0))
        else:
            parts.append("x")
        for i in order:
            parts.append(snap_layer(L[i]))
        return "|".join(parts)

    for uid, st in enumerate(case["sched"]):
        if st[0] == "e":
            ev = make_event(ctx, st[1], uid)
            hookdone = False
        else:
            pool = pending if st[0] == "b" else emitted
            if not pool:
                # the schedule asks to complete a command but none has been emitted / is pending: nothing is
                # delivered on either side (the model driver prints the same token)
                steps_out.append("skip"); continue
            cmd = pool[st[1] % len(pool)]
            r = st[2]
            hookdone = False
            if isinstance(cmd, layer.NextLayerHook):
                if cmd in pending:
                    hookdone = True
                    if r % 2 == 1:
                        nl.layer = root         # the addon's decision, made while the hook is pending
                ev = events.HookCompleted(cmd)
                ev.reply = r if r else None     # the model carries the decision in the reply; NextLayer ignores it
            elif isinstance(cmd, PCmd):
                ev = PCmdCompleted(cmd, r if r else None)
            else:  # NextLayer's CloseConnection: any completion class will do, it is never waited on
                ev = PCmdCompleted.__new__(PCmdCompleted); ev.command = cmd; ev.reply = r if r else None
            if cmd in pending: pending.remove(cmd)
        top_arrivals.append((ev, hookdone))
        out = []
        for c in top.handle_event(ev):
            if not isinstance(c, PCmd) and not hasattr(c, "_c04key"):
                c._c04key = (0, nl_ctr, 0 if isinstance(c, layer.NextLayerHook) else 1, 0)
                nl_ctr += 1
            out.append(c)
        for c in out:
            emitted.append(c)
            if c.blocking is not False: pending.append(c)
            if cmd_key(c)[0] != 0: root_out.append(c)
        steps_out.append("[%s]%s" % (";".join(cmd_str(c) for c in out), snap()))
        fails += step_oracle(L, order)

    trace = "#".join(steps_out) + "@" + "|".join(log_str(L[i]) for i in order)
    fails += final_oracle(L, order, root, nl, top_arrivals)
    if case.get("seqtie"):
        trace = "[%s]%s@%s" % (";".join(cmd_str(c) for c in root_out), "|".join(snap_layer(L[i]) for i in order),
                               "|".join(log_str(L[i]) for i in order))
        if extra is not None:
            extra["split"] = ([ev_enc(e) for (e, own, _) in root.arrivals if not own],
                              [str(e.reply or 0) for (e, own, _) in root.arrivals if own])
    return trace, fails


def run_prim(case):
    """the generator primitives of ONE real layer, called directly (name-mangled private methods)"""
    ctx = make_ctx()
    ly = ProgLayer(ctx, 1, case["tabs"], [], {"cur": {}})
    steps = []
    fails = []
    for uid, op in enumerate(case["ops"]):
        k, v = op
        if k == "p":
            if ly._paused: steps.append("skip"); continue
            out = list(ly._Layer__process(ly._handle_event(make_event(ctx, v, uid))))
        elif k == "q":
            ly._paused_event_queue.append(make_event(ctx, v, uid)); out = []
        elif k == "k":
            if not ly._paused: steps.append("skip"); continue
            ly.rec["cur"][1] = None
            out = list(ly._Layer__continue(PCmdCompleted(ly._paused.command, v if v else None)))
        elif k == "e":
            out = list(ly.handle_event(make_event(ctx, v, uid)))
        else:
            if not ly._paused: steps.append("skip"); continue
            out = list(ly.handle_event(PCmdCompleted(ly._paused.command, v if v else None)))
        steps.append("[%s]%s" % (";".join(cmd_str(c) for c in out), snap_layer(ly)))
        # the sentences that also hold when the primitives are called directly
        fails += ly.oracle_notes; ly.oracle_notes = []
        p = ly._paused.command if ly._paused else None
        if p is not ly.waiting:
            fails.append("layer is paused on %s but its handler waits for %s" % (p and cmd_str(p), ly.waiting and cmd_str(ly.waiting)))
    return "#".join(steps) + "@" + log_str(ly), fails


# ---- the property, sentence by sentence, over the recorded behaviour of the real layers (no model) -------------
def step_oracle(L, order):
    f = []
    for i in order:
        ly = L[i]
        # "never starts handling a new event while it waits for a completion"; and every event is handled by
        # the handler bound at the time it is (re)played
        f += ly.oracle_notes; ly.oracle_notes = []
        # "Blocking one layer never blocks the layers above it": a layer is paused iff its OWN handler waits
        p = ly._paused.command if ly._paused else None
        if p is not ly.waiting:
            f.append("layer %d is paused on %s but its own handler waits for %s" %
                     (i, cmd_str(p) if p else None, cmd_str(ly.waiting) if ly.waiting else None))
        # "handles every incoming event": nothing stays queued in a layer that is not waiting
        if ly.waiting is None and ly._paused_event_queue:
            f.append("layer %d is not waiting but keeps %d events queued" % (i, len(ly._paused_event_queue)))
    return f


def final_oracle(L, order, root, nl, top_arrivals):
    f = []
    for i in order:
        ly = L[i]
        # "handles every incoming event exactly once and in arrival order" (own completions resume instead)
        want = [e for (e, own, _) in ly.arrivals if not own]
        got = [e[1] for e in ly.log if e[0] == "h"] + list(ly._paused_event_queue)
        if len(want) != len(got) or any(a is not b for a, b in zip(want, got)):
            f.append("layer %d: handled+queued %s != arrivals %s" % (i, [ev_str(e) for e in got], [ev_str(e) for e in want]))
        # "resumes each waiting operation with exactly its own completion"
        used = set()
        for e in ly.log:
            if e[0] != "s": continue
            _, n, r, cmd, cur = e
            if cmd is None:
                if r is not None: f.append("layer %d: non-blocking yield %d got %r" % (i, n, r))
                continue
            arr = ly.arrivals[cur][0] if cur is not None else None
            if not (isinstance(arr, events.CommandCompleted) and arr.command is cmd and arr.reply == r and cur not in used):
                f.append("layer %d: blocking yield %d resumed with %r by %s" % (i, n, r, ev_str(arr) if arr is not None else None))
            used.add(cur)
        owns = [k for k, (e, own, _) in enumerate(ly.arrivals) if own]
        if sorted(used) != owns:
            f.append("layer %d: own completions %s but resumes at %s" % (i, owns, sorted(used)))
    if nl is not None:
        # "events that arrive before a protocol has been chosen reach the chosen layer in arrival order"
        want = [e for (e, hookdone) in top_arrivals if not hookdone]
        if nl._handle is not None:
            got = [e for (e, _, _) in root.arrivals]
        else:
            got = list(nl.events) + list(nl._paused_event_queue)
            if root.arrivals: f.append("child received events before it was chosen")
        if len(want) != len(got) or any(a is not b for a, b in zip(want, got)):
            f.append("nextlayer: child/buffer has %s, arrivals were %s" % ([ev_str(e) for e in got], [ev_str(e) for e in want]))
    return f


# ---- encoding for the Lean driver -----------------------------------------------------------------------------
def enc_act(a):
    if a[0] == "ch": return "c%d" % a[1]
    if a[0] == "sw": return "s%d" % a[1]
    return "y%db%d" % (a[1], a[2])


def enc_prog(p):
    return "/".join(",".join(enc_act(a) for a in acts) or "-" for acts in p)


def enc_tabs(tabs):
    return "~".join(enc_prog(t) for t in tabs)


def enc_tree(tree):
    rt, _ = routes(tree)
    return "|".join("%d:%d:%s:%s" % (n["idx"], n["parent"],
                                     "+".join(".".join(str(x) for x in sub) for sub in rt[n["idx"]]) or "-",
                                     enc_tabs(n["tabs"])) for n in tree)


def enc_sched(s):
    return ",".join(("e%d" % st[1]) if st[0] == "e" else ("%s%dr%d" % (st[0], st[1], st[2])) for st in s) or "-"


# ---- generation -------------------------------------------------------------------------------------------------
def rand_shape(rng):
    """random tree: list of (idx, parent) in preorder, depth <= MAXDEPTH, branching <= 3"""
    n = rng.choice([1, 2, 3, 3, 4, 5, 5, 6, 7, 8])
    parent, depth, nk = {1: 0}, {1: 1}, {1: 0}
    for i in range(2, n + 1):
        cands = [j for j in parent if depth[j] < MAXDEPTH and nk[j] < 3]
        p = rng.choice(cands)
        parent[i] = p; depth[i] = depth[p] + 1; nk[i] = 0; nk[p] += 1
    kids = {i: [j for j in parent if parent[j] == i] for i in parent}
    out = []
    def pre(i):
        out.append((i, parent[i]))
        for k in kids[i]: pre(k)
    pre(1)
    return out, kids


def rand_table(rng, nk, pblock, pchild, nmodes):
    table = []
    for kind in range(NKINDS):
        acts = []
        ny = rng.choice([0, 1, 1, 2, 2, 3, 4, 6]) if rng.chance(0.8) else 0
        for _ in range(ny):
            acts.append(["y", rng.randint(0, 5), 1 if rng.chance(pblock) else 0])
        if nk:
            if kind in (8, 9, 10):
                if kind - 8 < nk and rng.chance(0.9):
                    acts.insert(rng.randint(0, len(acts)), ["ch", kind - 8])
            elif kind != 7:
                for c in range(nk):
                    if rng.chance(pchild):
                        acts.insert(rng.randint(0, len(acts)), ["ch", c])
                if rng.chance(0.05):
                    acts.insert(rng.randint(0, len(acts)), ["ch", rng.randint(0, 2)])
        if nmodes > 1 and rng.chance(0.3):
            acts.insert(rng.randint(0, len(acts)), ["sw", rng.randint(0, nmodes - 1)])
        table.append(acts)
    return table


def rand_tree(rng, pblock, pchild):
    shape, kids = rand_shape(rng)
    tree = []
    for idx, par in shape:
        nm = 2 if rng.chance(0.4) else 1
        tree.append({"idx": idx, "parent": par, "tabs": [rand_table(rng, len(kids[idx]), pblock, pchild, nm) for _ in range(nm)]})
    return tree


def rand_sched(rng, n, labels):
    s = []
    for _ in range(n):
        x = rng.random()
        if x < 0.5: s.append(["e", rng.choice(labels)])
        elif x < 0.85: s.append(["b", rng.choice([0, 0, 0, 1, 2, 5]), rng.randint(0, 9)])
        else: s.append(["c", rng.randint(0, 30), rng.randint(0, 9)])
    return s


FIXED_SHAPE = [(1, 0), (2, 1), (4, 2), (3, 1), (5, 3)]       # 1-(2-(4), 3-(5)), preorder
FIXED_KIDS = {1: 2, 2: 1, 3: 1, 4: 0, 5: 0}


def _fwd(nk):
    return [["ch", c] for c in range(nk)]


SMALL_PROGS = [
    # one blocking command per data event, children forwarded; a second blocking command on event 5
    lambda nk: [[[["y", 0, 0]] + _fwd(nk), [["y", 1, 1]] + _fwd(nk) + [["y", 2, 0]], [], [["y", 3, 0]], [],
                 _fwd(nk) + [["y", 4, 1], ["y", 5, 1]], [["y", 0, 0]],
                 [["y", 1, 0]], [["ch", 0]] if nk else [], [["ch", 1]] if nk > 1 else [], [], []]],
    # blocking first, then forward (the same event reaches the child after the resume)
    lambda nk: [[[], [["y", 1, 1]] + _fwd(nk), [["y", 2, 1], ["y", 2, 1]], [], [], [["y", 4, 0]] + _fwd(nk), [],
                 [["y", 1, 1]], [["ch", 0]] if nk else [], [["ch", 1]] if nk > 1 else [], [], [["y", 3, 1]]]],
    # two handlers: event 5 re-binds `_handle_event` (handler 1 answers data without blocking and switches back on
    # event 0); a queued event 5 followed by queued data must be replayed by the handler bound at ITS replay time
    lambda nk: [[[["y", 0, 0]] + _fwd(nk), [["y", 1, 1]] + _fwd(nk), [], [], [], [["sw", 1], ["y", 4, 0]] + _fwd(nk), [],
                 [], [["ch", 0]] if nk else [], [["ch", 1]] if nk > 1 else [], [], []],
                [[["sw", 0], ["y", 0, 0]] + _fwd(nk), [["y", 5, 0]] + _fwd(nk), [], [], [], [["y", 3, 1]] + _fwd(nk), [],
                 [], [["ch", 0]] if nk else [], [["ch", 1]] if nk > 1 else [], [], []]],
]


def small_tree(pi):
    return [{"idx": i, "parent": p, "tabs": SMALL_PROGS[pi](FIXED_KIDS[i])} for i, p in FIXED_SHAPE]


class Check(PropertyCheck):
    prop = "C04"
    design_ref = "§5 C04"
    level_text = ("Lean theorems, for EVERY handler (every _handle_event generator as a resumption tree, incl. handlers that "
                  "re-bind themselves), EVERY state and EVERY schedule of events and completions (induction, no bound): "
                  "handled_eq_arrivals, no_handle_while_paused (+ scan_pause_then_resume), resume_gets_own_reply "
                  "(+ resumes_are_arrivals), emitted_never_blocking_true, replay_sequential (the __continue loop handles "
                  "the buffered events one by one in order, each by the handler applied to the state left by the previous "
                  "one, the rest stays queued in order and only if the layer paused again), "
                  "sequential_blocking_equivalence (+ interleaving_irrelevant: for every schedule the arrivals split, order "
                  "kept, into events and own completions, and a sequential blocking reference interpreter fed those events "
                  "and the replies in order ends in EXACTLY the layer's state, suspended generator, full trace of "
                  "_handle_event calls / emits / pauses / resumes-with-values, total command output, with the unstarted "
                  "events = _paused_event_queue; hence the outcome is independent of the interleaving), "
                  "child_block_does_not_block_parent, parent_pauses_only_on_own_commands, children_step / "
                  "children_invariant (a parent touches its children only through handle_event, also via a suspended "
                  "generator), tree_step / tree_every_layer_in_order (layer trees of ARBITRARY depth and branching with "
                  "re-bindable handlers: every layer at every depth satisfies the single-layer invariant w.r.t. its own "
                  "arrivals; induction over the schedule and over the tree), nextlayer_replay_in_order (for any child "
                  "handler), nextlayer_child_invariant / nextlayer_tree_in_order (the chosen layer — e.g. a whole tree — is "
                  "only ever driven through its handle_event during buffering, replay, forwarding through the re-bound "
                  "_handle_event and after the swap, so it keeps every invariant handle_event preserves), nextlayer_transparent "
                  "(the chosen layer's whole configuration equals the one it would have had if driven directly with the "
                  "events it was passed = arrivals minus consumed hook completions, order kept) and nextlayer_child_sequential; "
                  "the `_any` forms (nextlayer_replay_in_order_any, nextlayer_child_invariant_any, nextlayer_transparent_any) drop "
                  "the former hypothesis that the candidate child has received nothing yet; all_output_never_blocking_true is "
                  "the whole-history form of emitted_never_blocking_true; pauses_only_on_own_blocking / oinv_step / lower_blocksOwn / "
                  "flat_blocksOwn / tree_own_step / tree_layers_pause_only_on_own / nextlayer_tree_pause_only_on_own (in a tree "
                  "of any shape, also behind a NextLayer, after any schedule every layer has only ever paused on commands carrying "
                  "its own index — which by itself separates a layer from its descendants only when indices are pairwise "
                  "distinct, cross-audit round 6), tree_no_layer_paused_by_descendant / nextlayer_tree_no_layer_paused_by_descendant "
                  "(for a fresh tree with Nodup indices: the indices never change, ti_idxs, and every pause of every layer at "
                  "every depth is on a command whose index belongs to none of its descendants; via the positional children "
                  "invariant children_step_rel and TI/ti_step), tree_node_without_blocking_never_pauses (+ interpN_quiet, "
                  "lower_quiet: a tree node none of whose tables has a blocking yield is never paused, whatever its children "
                  "do — the tied form of child_block_does_not_block_parent for interpN). interp_owns / interp_noblock are "
                  "AUXILIARY: they concern the round-1 fixed-tree interpreter Prog.interp, which the driver no longer runs; "
                  "nothing claimed here rests on them (tied counterparts: interpN_owns, interpN_quiet). Model = Layer.handle_event/__process/__continue, parent relays via "
                  "`yield from child.handle_event`, NextLayer._handle_event/_ask/handle_event incl. the hand-over. Tie: "
                  "generated handler programs (with handler re-binding actions) run on real Layer subclasses arranged in "
                  "random trees (<=8 layers, height <=4, branching <=3) behind an optional real NextLayer and in the compiled "
                  "model (the same Prog.TS/Prog.HT the tree theorem is about); compared after every step: emitted commands "
                  "with blocking attribute, every layer's _paused command, _paused_event_queue and bound handler, "
                  "NextLayer.events/_handle; at the end per layer the _handle_event calls and the values sent into the "
                  "generators. Separately the private primitives Layer.__process / Layer.__continue / queue append are "
                  "called one by one on a real layer (also in states handle_event never produces) against the model's "
                  "handleFresh / resumeWith / enqueue. The reference blocking interpreter `seq` of "
                  "sequential_blocking_equivalence is itself tied to Python (case kind seqtie, driver op `seq`): a real tree "
                  "(+ real NextLayer) is driven through handle_event with a schedule, the root layer's arrivals are split by the "
                  "handler's own view into events and own-completion replies, `seq (HT 3)` is run on that split in the compiled "
                  "model, and the root's total command output, every layer's final _paused / queue / bound handler and every "
                  "layer's trace must equal what the real layers ended with.")
    level_note = ("trusted: Lean kernel; Python generator semantics (send/StopIteration/yield from) are the modelled "
                  "primitive; commands yielded by handle_event are consumed completely and non-reentrantly before the "
                  "next event is delivered (what proxy/server.py does); the addon's next-layer decision is modelled as "
                  "part of the hook's reply; proxy_debug logging (Layer.debug, off by default) is not modelled; ghost fields "
                  "log/arrived of the model carry the theorems' vocabulary; the tie is differential (random programs/trees x "
                  "random/exhaustive schedules), not a proof about the Python text. The blocking-code reading is a theorem (sequential_blocking_equivalence) "
                  "and its reference interpreter `seq` (Model/C04.lean) is tied to the real layers differentially (seqtie "
                  "cases); the split fed to `seq` is taken from the real run (the handler's own view of which completion it was "
                  "waiting for), as the theorem states it. "
                  "Abstain branches of the harness: a schedule step that names a command when none was emitted/pending "
                  "delivers nothing on both sides ('skip' token, compared); primitive ops whose precondition fails "
                  "(process while paused, continue while idle) are skipped on both sides; no case is ever dropped "
                  "(no Skip()), known() excuses nothing (no findings).")
    technique = "Lean 4 proof (induction over schedules, for all handlers) + program-interpreting correspondence on real Layer/NextLayer objects"
    rule = ("a case = a random layer tree (1..8 layers, height <=4, branching <=3; per layer 1-2 handler tables: event kind "
            "-> <=6 yields with blocking flags, child relays and handler re-bindings) + optional real NextLayer in front + "
            "a schedule of <=40 steps over {plain event, completion of a pending blocking command, completion of any "
            "emitted command (stale / non-blocking / sibling / matching)}; three fixed program sets x all schedules up "
            "to a length first; plus primitive-op sequences (process / queue / continue / handle_event) on one layer, all "
            "sequences up to a length then random; plus seqtie cases (same trees/schedules, final configuration compared with the reference "
            "interpreter `seq` on the split of the root's arrivals). distinct = distinct (programs, schedule); non-trivial = some layer "
            "paused and some event was queued.")
    budget = {"quick": 8000, "thorough": 300000}
    time_budget = {"quick": 25, "thorough": 400}
    fingerprints = ["mitmproxy.proxy.layer:Layer.handle_event", "mitmproxy.proxy.layer:Layer._Layer__process",
                    "mitmproxy.proxy.layer:Layer._Layer__continue", "mitmproxy.proxy.layer:Layer.__init__",
                    "mitmproxy.proxy.layer:NextLayer.__init__", "mitmproxy.proxy.layer:NextLayer.handle_event",
                    "mitmproxy.proxy.layer:NextLayer._handle_event", "mitmproxy.proxy.layer:NextLayer._ask",
                    "mitmproxy.proxy.events:CommandCompleted", "mitmproxy.proxy.commands:Command"]
    trusted_base = ["CPython generator protocol (send / StopIteration / yield from) as the primitive the Gen type transcribes",
                    "non-reentrant, complete consumption of handle_event's command generator by the caller"]
    parallel = False     # ~1500 cases/s in-process; the fork pool's IPC (long trace strings) costs more than it saves

    def setup(self, tier):
        self.known_selftest()

    def known_selftest(self):
        """C04 has no recorded finding: known() must excuse nothing, whatever the failure text; and the oracle
        itself must fire on a doctored observation of each clause (so a silent oracle cannot pass)."""
        case = {"nl": 0, "aos": 0, "tree": small_tree(0), "sched": [["e", 1], ["e", 5], ["b", 0, 1]]}
        obs = self.impl(case)
        assert obs["fails"] == [], obs["fails"]
        for f in ("layer 1 started handling p5u1 while waiting for 1.0.1.0.o", "layer 1: handled+queued [] != arrivals []",
                  "nextlayer: child/buffer has [], arrivals were []", "anything else"):
            assert self.known(case, obs, f) is None
        # a layer double that handles a queued event twice / out of order must be flagged by the direct oracle
        ctx = make_ctx(); ly = ProgLayer(ctx, 1, SMALL_PROGS[0](0), [], {"cur": {}})
        e1, e2 = make_event(ctx, 5, 0), make_event(ctx, 5, 1)
        ly.arrivals = [(e1, False, False), (e2, False, False)]; ly.log = [("h", e2), ("h", e1)]
        assert final_oracle({1: ly}, [1], ly, None, []), "order oracle is silent"
        ly.log = [("h", e1), ("h", e1), ("h", e2)]
        assert final_oracle({1: ly}, [1], ly, None, []), "exactly-once oracle is silent"

    def generate(self, rng, tier):
        # small scope first: fixed programs x every schedule over a small alphabet
        alpha = [["e", 0], ["e", 1], ["e", 5], ["b", 0, 1], ["b", 1, 2], ["c", 0, 3]]
        maxlen = 4 if tier == "quick" else 6
        for pi in range(len(SMALL_PROGS)):
            tree = small_tree(pi)
            for nlf, aos in ((1, 1), (0, 0), (1, 0)):
                if tier == "quick" and (pi, nlf, aos) not in ((0, 1, 1), (1, 0, 0), (2, 0, 0)): continue
                for n in range(1, maxlen + 1):
                    if tier == "quick" and pi == 2 and n == maxlen: continue
                    for s in itertools.product(alpha, repeat=n):
                        yield {"nl": nlf, "aos": aos, "tree": tree, "sched": [list(x) for x in s]}
        # the generator primitives one by one, every op sequence up to a length
        palpha = [["p", 1], ["p", 5], ["q", 1], ["q", 5], ["k", 3], ["e", 0], ["b", 2]]
        for pi in (0, 2):
            tabs = SMALL_PROGS[pi](0)
            for n in range(1, (4 if tier == "quick" else 6)):
                for ops in itertools.product(palpha, repeat=n):
                    yield {"prim": 1, "tabs": tabs, "ops": [list(o) for o in ops]}
        # the reference blocking interpreter `seq` against real runs: small trees x every schedule up to a length
        for pi in range(len(SMALL_PROGS)):
            tree = small_tree(pi)
            for nlf, aos in ((0, 0), (1, 1)):
                for n in range(1, (4 if tier == "quick" else 6)):
                    for s in itertools.product(alpha, repeat=n):
                        yield {"seqtie": 1, "nl": nlf, "aos": aos, "tree": tree, "sched": [list(x) for x in s]}
        while True:
            pblock = rng.choice([0.15, 0.3, 0.5])
            pchild = rng.choice([0.3, 0.6, 0.9])
            tree = rand_tree(rng, pblock, pchild)
            labels = rng.choice([[0, 1, 2, 3, 4, 5, 6], [1, 1, 1, 5, 0], [1, 2, 5, 6]])
            for _ in range(4):
                last = {"nl": 1 if rng.chance(0.7) else 0, "aos": rng.randint(0, 1), "tree": tree,
                        "sched": rand_sched(rng, rng.randint(1, 40), labels)}
                yield last
            yield dict(last, seqtie=1)      # same real run, compared with `seq` on the split of the root's arrivals
            nm = rng.choice([1, 2])
            tabs = [rand_table(rng, 0, pblock, 0, nm) for _ in range(nm)]
            yield {"prim": 1, "tabs": tabs,
                   "ops": [[rng.choice("ppqkkeb"), rng.randint(0, 6)] for _ in range(rng.randint(1, 30))]}

    def impl(self, case):
        trace, fails = run_case(case)
        return {"trace": trace, "fails": fails}

    def oracle(self, case, obs):
        return list(obs["fails"])

    def model_lines(self, case):
        if case.get("prim"):
            return ["prim %s %s" % (enc_tabs(case["tabs"]), ",".join("%s%d" % (o[0], o[1]) for o in case["ops"]) or "-")]
        if case.get("seqtie"):
            extra = {}
            run_case(case, extra)      # the split is an observation of the real run (deterministic): re-derive it
            xs, rs = extra["split"]
            return ["seq %s %s %s" % (enc_tree(case["tree"]), ",".join(xs) or "-", ",".join(rs) or "-")]
        return ["run %d %d %s %s" % (case["nl"], case["aos"], enc_tree(case["tree"]), enc_sched(case["sched"]))]

    def model_obs(self, case, replies):
        return replies[0]

    def impl_view(self, case, obs):
        return obs["trace"]

    def classify(self, case, obs):
        t = obs["trace"].split("@")[0]
        queued = any((":p" in s or ":k" in s) for s in t.split("#"))
        if case.get("seqtie"):
            return ("seqtie", case["nl"], case["aos"], enc_tree(case["tree"]), enc_sched(case["sched"])) if queued else None
        return self.model_lines(case)[0] if queued else None

    def branches(self, case, obs):
        t, logs = obs["trace"].split("@")
        if case.get("prim"):
            out = ["prim"]
            if ":p" in t: out.append("prim:queued")
            if "skip" in t: out.append("prim:precondition-skip")
            if ":m1" in t: out.append("prim:handler-rebound")
            return out
        if case.get("seqtie"):
            out = ["seqtie", "seqtie:nl" if case["nl"] else "seqtie:no-nl"]
            root = t.split("]", 1)[1].split("|")[0]
            out.append("seqtie:root-idle" if root.startswith("-:") else "seqtie:root-blocked")
            if ":p" in root or ":k" in root: out.append("seqtie:root-has-unstarted-events")
            if "r" in logs.split("|")[0].replace("r0", ""): out.append("seqtie:root-got-replies")
            return out
        out = ["nl" if case["nl"] else "no-nl", "nodes=%d" % len(case["tree"])]
        depth = {}
        for n in case["tree"]:
            depth[n["idx"]] = depth.get(n["parent"], 0) + 1
        out.append("height=%d" % max(depth.values()))
        if ":p" in t or ":k" in t: out.append("queued-while-paused")
        if ":1|" in t: out.append("nl-handed-over")
        if "skip" in t: out.append("completion-without-target")
        if ":m1" in t: out.append("handler-rebound")
        ll = logs.split("|")
        for n, l in zip(case["tree"], ll):
            if l: out.append("depth%d-active" % depth[n["idx"]])
        out = sorted(set(out))
        if any("hk" in l for l in ll): out.append("completion-handled-as-plain-event")
        if any(("r%d" % r) in l and "s" in l for l in ll for r in range(1, 10)): out.append("resumed-with-reply")
        return out

    def neighbours(self, case, rng):
        key = "ops" if case.get("prim") else "sched"
        s = case[key]
        alts = (["p", 1], ["k", 1], ["q", 5]) if case.get("prim") else (["e", 1], ["b", 0, 1], ["c", 0, 1])
        for i in range(len(s)):
            yield {**case, key: s[:i] + s[i + 1:]}
            for alt in alts:
                yield {**case, key: s[:i] + [list(alt)] + s[i:]}
        for i in range(len(s) - 1):
            t = list(s); t[i], t[i + 1] = t[i + 1], t[i]
            yield {**case, key: t}

    def exhaustive(self, tier):
        return itertools.islice(self.generate(__import__("common.prng", fromlist=["Rng"]).Rng(5), "thorough"), 200000)
