"""C04 — blocked layers process events exactly once, in order
(mitmproxy/proxy/layer.py Layer.handle_event/__process/__continue, NextLayer; events.py; commands.py).

A case is a set of *programs* (one per layer of a real layer tree) and a *schedule*.
Layer tree (all real `Layer` subclasses, driven only through `handle_event`):

    [0] real NextLayer (optional, in front)
     └─[1] ProgLayer ── child0 ─ [2] ProgLayer ── child0 ─ [4] ProgLayer
                     └─ child1 ─ [3] ProgLayer ── child0 ─ [5] ProgLayer

A ProgLayer's `_handle_event` interprets its program: event kind -> list of actions, an action being
"yield a fresh command (label, blocking?)" or "yield from child_i.handle_event(event)".
The handler records which event it handles and which value every `yield` gave back.
The same programs + schedule go to the Lean model driver (`mv_c04`), which runs Model/C04.lean.
"""
import itertools
from dataclasses import dataclass
from typing import Any

from common.check import PropertyCheck
from mitmproxy import connection, options
from mitmproxy.connection import ConnectionState
from mitmproxy.proxy import commands, context, events, layer

NKINDS = 11          # plain labels 0..6, completion of: own cmd (7), child0 subtree (8), child1 subtree (9), other (10)
NPLAIN = 7           # 0 Start, 1 Data(client), 2 Data(server), 3 Closed(client), 4 Closed(server), 5 custom A, 6 custom B
CHILDREN = {1: [2, 3], 2: [4], 3: [5], 4: [], 5: []}
SUBTREE = {1: [[2, 4], [3, 5]], 2: [[4]], 3: [[5]], 4: [], 5: []}
LAYERS = [1, 2, 3, 4, 5]


class PCmd(commands.Command):
    """a command yielded by a ProgLayer; identity = the Python object; (owner, n) only names it in traces"""
    def __init__(self, owner, n, label, seen, blocking):
        self.owner, self.n, self.label, self.seen = owner, n, label, seen
        self.blocking = blocking


@dataclass(repr=False)
class PCmdCompleted(events.CommandCompleted):
    command: PCmd
    reply: Any


class EvA(events.Event):
    pass


class EvB(events.Event):
    pass


def cmd_key(c):
    """(layer, n, label, seen) of any command seen at the top"""
    if isinstance(c, PCmd):
        return (c.owner, c.n, c.label, c.seen)
    return c._c04key        # NextLayer's own commands are numbered by the harness when they first appear


def blk_repr(c):
    b = c.blocking
    return "n" if b is False else ("y" if b is True else "o")


def cmd_str(c):
    return "%d.%d.%d.%d.%s" % (*cmd_key(c), blk_repr(c))


def ev_str(e):
    if isinstance(e, events.CommandCompleted):
        k = cmd_key(e.command)
        return "k%d.%dr%d" % (k[0], k[1], e.reply or 0)
    return "p%du%d" % (e._c04label, e._c04uid)


class ProgLayer(layer.Layer):
    def __init__(self, ctx, idx, prog, rec):
        super().__init__(ctx)
        self.idx, self.prog, self.rec = idx, prog, rec
        self.kids = []
        self.ctr = 0
        self.seen = 0
        self.waiting = None          # the handler's own view: command whose `yield` has not returned yet
        self.log = []                # ("h", event) | ("s", n, value)
        self.arrivals = []           # (event, is_own_completion, handler_was_waiting)
        self.oracle_notes = []

    def kind(self, event):
        if isinstance(event, events.CommandCompleted):
            o = cmd_key(event.command)[0]
            if o == self.idx: return 7
            for i, sub in enumerate(SUBTREE[self.idx]):
                if o in sub: return 8 + i
            return 10
        return event._c04label

    def handle_event(self, event):
        own = self.waiting is not None and isinstance(event, events.CommandCompleted) and event.command is self.waiting
        self.arrivals.append((event, own, self.waiting is not None))
        self.rec["cur"][self.idx] = len(self.arrivals) - 1
        return super().handle_event(event)

    def _handle_event(self, event):
        if self.waiting is not None:
            self.oracle_notes.append("layer %d started handling %s while waiting for %s" % (self.idx, ev_str(event), cmd_str(self.waiting)))
        self.log.append(("h", event))
        for a in self.prog[self.kind(event)]:
            if a[0] == "ch":
                if a[1] < len(self.kids):
                    yield from self.kids[a[1]].handle_event(event)
            else:
                cmd = PCmd(self.idx, self.ctr, a[1], self.seen, bool(a[2]))
                self.ctr += 1
                if a[2]:
                    self.waiting = cmd
                r = yield cmd
                if a[2]:
                    self.waiting = None
                    # which arrival (index into self.arrivals) was being delivered when the yield returned
                    self.log.append(("s", cmd.n, r, cmd, self.rec["cur"].get(self.idx)))
                else:
                    self.log.append(("s", cmd.n, r, None, None))
                self.seen = r or 0


def make_ctx():
    client = connection.Client(peername=("192.0.2.1", 51234), sockname=("127.0.0.1", 8080), timestamp_start=1605699329,
                               state=ConnectionState.OPEN)
    ctx = context.Context(client, options.Options())
    ctx.server = connection.Server(address=("192.0.2.2", 443))
    return ctx


def make_event(ctx, label, uid):
    if label == 0: e = events.Start()
    elif label == 1: e = events.DataReceived(ctx.client, b"c%d" % uid)
    elif label == 2: e = events.DataReceived(ctx.server, b"s%d" % uid)
    elif label == 3: e = events.ConnectionClosed(ctx.client)
    elif label == 4: e = events.ConnectionClosed(ctx.server)
    elif label == 5: e = EvA()
    else: e = EvB()
    e._c04label, e._c04uid = label, uid
    return e


def run_case(case):
    """drive the real layers; returns (canonical trace string, oracle failures)"""
    ctx = make_ctx()
    rec = {"cur": {}}
    L = {}
    for i in LAYERS:
        L[i] = ProgLayer(ctx, i, case["progs"][i - 1], rec)
    for i in LAYERS:
        L[i].kids = [L[j] for j in CHILDREN[i]]
    nl = None
    top = L[1]
    if case["nl"]:
        nl = layer.NextLayer(ctx, ask_on_start=bool(case["aos"]))
        top = nl
    nl_ctr = 0
    emitted, pending = [], []       # all commands seen at the top / blocking ones not yet completed
    steps_out = []
    top_arrivals = []               # (event, was a completion of the hook the NextLayer was waiting on)
    fails = []

    def snap():
        parts = []
        if nl is not None:
            handed = nl._handle is not None
            p = cmd_str(nl._paused.command) if nl._paused else "-"
            parts.append("%s:%s:%s:%d" % (p, ";".join(ev_str(e) for e in nl._paused_event_queue),
                                          ";".join(ev_str(e) for e in nl.events), 1 if handed else 0))
        else:
            parts.append("x")
        for i in LAYERS:
            p = cmd_str(L[i]._paused.command) if L[i]._paused else "-"
            parts.append("%s:%s" % (p, ";".join(ev_str(e) for e in L[i]._paused_event_queue)))
        return "|".join(parts)

    for uid, st in enumerate(case["sched"]):
        if st[0] == "e":
            ev = make_event(ctx, st[1], uid)
            hookdone = False
        else:
            pool = pending if st[0] == "b" else emitted
            if not pool:
                steps_out.append("skip"); continue
            cmd = pool[st[1] % len(pool)]
            r = st[2]
            hookdone = False
            if isinstance(cmd, layer.NextLayerHook):
                if cmd in pending:
                    hookdone = True
                    if r % 2 == 1:
                        nl.layer = L[1]         # the addon's decision, made while the hook is pending
                ev = events.HookCompleted(cmd)
                # the model carries the decision in the reply value; render the reply the same way on both sides
                ev_reply_for_trace = r
            elif isinstance(cmd, PCmd):
                ev = PCmdCompleted(cmd, r if r else None)
            else:  # NextLayer's CloseConnection: any completion class will do, it is never waited on
                ev = PCmdCompleted.__new__(PCmdCompleted); ev.command = cmd; ev.reply = r if r else None
            if isinstance(cmd, layer.NextLayerHook):
                ev.reply = r if r else None     # HookCompleted.reply is a plain dataclass field; NextLayer ignores it
            if cmd in pending: pending.remove(cmd)
        top_arrivals.append((ev, hookdone))
        out = []
        for c in top.handle_event(ev):
            if not isinstance(c, PCmd) and not hasattr(c, "_c04key"):
                c._c04key = (0, nl_ctr, 0 if isinstance(c, layer.NextLayerHook) else 1, 0)
                nl_ctr += 1
            out.append(c)
        for c in out:
            emitted.append(c)
            if c.blocking is not False: pending.append(c)
        steps_out.append("[%s]%s" % (";".join(cmd_str(c) for c in out), snap()))
        fails += step_oracle(L, nl, out)

    logs = []
    for i in LAYERS:
        ent = []
        for e in L[i].log:
            if e[0] == "h": ent.append("h" + ev_str(e[1]))
            else: ent.append("s%dr%d" % (e[1], e[2] or 0))
        logs.append(";".join(ent))
    trace = "#".join(steps_out) + "@" + "|".join(logs)
    fails += final_oracle(L, nl, top_arrivals)
    return trace, fails


# ---- the property, sentence by sentence, over the recorded behaviour of the real layers (no model) -------------
def step_oracle(L, nl, out):
    f = []
    for i in LAYERS:
        ly = L[i]
        # "never starts handling a new event while it waits for a completion"
        f += ly.oracle_notes; ly.oracle_notes = []
        # "Blocking one layer never blocks the layers above it": a layer is paused iff its OWN handler waits
        p = ly._paused.command if ly._paused else None
        if p is not ly.waiting:
            f.append("layer %d is paused on %s but its own handler waits for %s" %
                     (i, cmd_str(p) if p else None, cmd_str(ly.waiting) if ly.waiting else None))
        # "handles every incoming event": nothing stays queued in a layer that is not waiting
        if ly.waiting is None and ly._paused_event_queue:
            f.append("layer %d is not waiting but keeps %d events queued" % (i, len(ly._paused_event_queue)))
    return f


def final_oracle(L, nl, top_arrivals):
    f = []
    for i in LAYERS:
        ly = L[i]
        # "handles every incoming event exactly once and in arrival order" (own completions resume instead)
        want = [e for (e, own, _) in ly.arrivals if not own]
        got = [e[1] for e in ly.log if e[0] == "h"] + list(ly._paused_event_queue)
        if len(want) != len(got) or any(a is not b for a, b in zip(want, got)):
            f.append("layer %d: handled+queued %s != arrivals %s" % (i, [ev_str(e) for e in got], [ev_str(e) for e in want]))
        # "resumes each waiting operation with exactly its own completion"
        used = set()
        for e in ly.log:
            if e[0] != "s": continue
            _, n, r, cmd, cur = e
            if cmd is None:
                if r is not None: f.append("layer %d: non-blocking yield %d got %r" % (i, n, r))
                continue
            arr = ly.arrivals[cur][0] if cur is not None else None
            if not (isinstance(arr, events.CommandCompleted) and arr.command is cmd and arr.reply == r and cur not in used):
                f.append("layer %d: blocking yield %d resumed with %r by %s" % (i, n, r, ev_str(arr) if arr is not None else None))
            used.add(cur)
        owns = [k for k, (e, own, _) in enumerate(ly.arrivals) if own]
        if sorted(used) != owns:
            f.append("layer %d: own completions %s but resumes at %s" % (i, owns, sorted(used)))
    if nl is not None:
        # "events that arrive before a protocol has been chosen reach the chosen layer in arrival order"
        want = [e for (e, hookdone) in top_arrivals if not hookdone]
        if nl._handle is not None:
            got = [e for (e, _, _) in L[1].arrivals]
        else:
            got = list(nl.events) + list(nl._paused_event_queue)
            if L[1].arrivals: f.append("child received events before it was chosen")
        if len(want) != len(got) or any(a is not b for a, b in zip(want, got)):
            f.append("nextlayer: child/buffer has %s, arrivals were %s" % ([ev_str(e) for e in got], [ev_str(e) for e in want]))
    return f


# ---- encoding for the Lean driver -----------------------------------------------------------------------------
def enc_prog(p):
    return "/".join(",".join(("c%d" % a[1]) if a[0] == "ch" else ("y%db%d" % (a[1], a[2])) for a in acts) or "-" for acts in p)


def enc_sched(s):
    return ",".join(("e%d" % st[1]) if st[0] == "e" else ("%s%dr%d" % (st[0], st[1], st[2])) for st in s) or "-"


# ---- generation -------------------------------------------------------------------------------------------------
def rand_prog(rng, idx, pblock, pchild):
    nk = len(CHILDREN[idx])
    table = []
    for kind in range(NKINDS):
        acts = []
        ny = rng.choice([0, 1, 1, 2, 2, 3, 4, 6]) if rng.chance(0.8) else 0
        for _ in range(ny):
            acts.append(["y", rng.randint(0, 5), 1 if rng.chance(pblock) else 0])
        if nk:
            if kind in (8, 9):
                if kind - 8 < nk and rng.chance(0.9):
                    acts.insert(rng.randint(0, len(acts)), ["ch", kind - 8])
            elif kind != 7:
                for c in range(nk):
                    if rng.chance(pchild):
                        acts.insert(rng.randint(0, len(acts)), ["ch", c])
                if rng.chance(0.05):
                    acts.insert(rng.randint(0, len(acts)), ["ch", rng.randint(0, 1)])
        table.append(acts)
    return table


def rand_sched(rng, n, labels):
    s = []
    for _ in range(n):
        x = rng.random()
        if x < 0.5: s.append(["e", rng.choice(labels)])
        elif x < 0.85: s.append(["b", rng.choice([0, 0, 0, 1, 2, 5]), rng.randint(0, 9)])
        else: s.append(["c", rng.randint(0, 30), rng.randint(0, 9)])
    return s


SMALL_PROGS = [
    # one blocking command per data event, children forwarded; a second blocking command on event 5
    lambda i: [[["y", 0, 0]] + [["ch", c] for c in range(len(CHILDREN[i]))],
               [["y", 1, 1]] + [["ch", c] for c in range(len(CHILDREN[i]))] + [["y", 2, 0]],
               [], [["y", 3, 0]], [],
               [["ch", c] for c in range(len(CHILDREN[i]))] + [["y", 4, 1], ["y", 5, 1]],
               [["y", 0, 0]],
               [["y", 1, 0]], [["ch", 0]] if CHILDREN[i] else [], [["ch", 1]] if len(CHILDREN[i]) > 1 else [], []],
    # blocking first, then forward (the same event reaches the child after the resume)
    lambda i: [[], [["y", 1, 1]] + [["ch", c] for c in range(len(CHILDREN[i]))], [["y", 2, 1], ["y", 2, 1]], [], [],
               [["y", 4, 0]] + [["ch", c] for c in range(len(CHILDREN[i]))], [],
               [["y", 1, 1]], [["ch", 0]] if CHILDREN[i] else [], [["ch", 1]] if len(CHILDREN[i]) > 1 else [], [["y", 3, 1]]],
]


class Check(PropertyCheck):
    prop = "C04"
    design_ref = "§5 C04"
    level_text = ("Lean theorems handled_eq_arrivals, no_handle_while_paused (+ scan_pause_then_resume), "
                  "resume_gets_own_reply (+ resumes_are_arrivals), emitted_never_blocking_true, "
                  "child_block_does_not_block_parent, parent_pauses_only_on_own_commands, nextlayer_replay_in_order about an "
                  "executable model of Layer.handle_event/__process/__continue (generators as resumption trees, commands "
                  "with identity, the _paused slot and _paused_event_queue), of a parent layer relaying child layers via "
                  "`yield from child.handle_event`, and of NextLayer — for EVERY handler, EVERY state and EVERY schedule of "
                  "events and completions (induction over the schedule, no bound). The model is tied to the real "
                  "Layer/NextLayer classes by running generated handler programs on a real 5-layer tree (+ real NextLayer) "
                  "and in the compiled model, comparing after every step the emitted commands with their blocking "
                  "attribute, every layer's _paused command and _paused_event_queue, NextLayer.events/_handle, and per "
                  "layer the sequence of _handle_event calls and of values sent into the generators.")
    level_note = ("trusted: Lean kernel; Python generator semantics (send/StopIteration/yield from) are the modelled "
                  "primitive; commands yielded by handle_event are consumed completely and non-reentrantly before the "
                  "next event is delivered (what proxy/server.py does); the addon's next-layer decision is modelled as "
                  "part of the hook's reply; proxy_debug logging (Layer.debug, off by default) is not modelled; ghost fields "
                  "log/arrived of the model carry the theorems' vocabulary; the tie is differential (random programs x "
                  "random/exhaustive schedules), not a proof about the Python text.")
    technique = "Lean 4 proof (induction over schedules, for all handlers) + program-interpreting correspondence on real Layer/NextLayer objects"
    rule = ("a case = 5 handler programs (event kind -> <=6 yields with blocking flags, interleaved with child relays; "
            "tree of depth 3 with two siblings) + optional real NextLayer in front + a schedule of <=40 steps over "
            "{plain event, completion of a pending blocking command, completion of any emitted command (stale / "
            "non-blocking / sibling / matching)}; small fixed programs x all schedules up to a length first. "
            "distinct = distinct (programs, schedule); non-trivial = some layer paused and some event was queued.")
    budget = {"quick": 8000, "thorough": 300000}
    time_budget = {"quick": 25, "thorough": 400}
    fingerprints = ["mitmproxy.proxy.layer:Layer.handle_event", "mitmproxy.proxy.layer:Layer._Layer__process",
                    "mitmproxy.proxy.layer:Layer._Layer__continue", "mitmproxy.proxy.layer:Layer.__init__",
                    "mitmproxy.proxy.layer:NextLayer.__init__", "mitmproxy.proxy.layer:NextLayer.handle_event",
                    "mitmproxy.proxy.layer:NextLayer._handle_event", "mitmproxy.proxy.layer:NextLayer._ask",
                    "mitmproxy.proxy.events:CommandCompleted", "mitmproxy.proxy.commands:Command"]
    trusted_base = ["CPython generator protocol (send / StopIteration / yield from) as the primitive the Gen type transcribes",
                    "non-reentrant, complete consumption of handle_event's command generator by the caller"]
    parallel = False     # ~1500 cases/s in-process; the fork pool's IPC (long trace strings) costs more than it saves

    def generate(self, rng, tier):
        # small scope first: fixed programs x every schedule over a small alphabet
        alpha = [["e", 0], ["e", 1], ["e", 5], ["b", 0, 1], ["b", 1, 2], ["c", 0, 3]]
        maxlen = 4 if tier == "quick" else 6
        for pi, mk in enumerate(SMALL_PROGS):
            progs = [mk(i) for i in LAYERS]
            for nlf, aos in ((1, 1), (0, 0), (1, 0)):
                if tier == "quick" and (pi, nlf, aos) not in ((0, 1, 1), (1, 0, 0)): continue
                for n in range(1, maxlen + 1):
                    for s in itertools.product(alpha, repeat=n):
                        yield {"nl": nlf, "aos": aos, "progs": progs, "sched": [list(x) for x in s]}
        while True:
            pblock = rng.choice([0.15, 0.3, 0.5])
            pchild = rng.choice([0.3, 0.6, 0.9])
            progs = [rand_prog(rng, i, pblock, pchild) for i in LAYERS]
            labels = rng.choice([[0, 1, 2, 3, 4, 5, 6], [1, 1, 1, 5, 0], [1, 2, 5, 6]])
            for _ in range(4):
                yield {"nl": 1 if rng.chance(0.7) else 0, "aos": rng.randint(0, 1), "progs": progs,
                       "sched": rand_sched(rng, rng.randint(1, 40), labels)}

    def impl(self, case):
        trace, fails = run_case(case)
        return {"trace": trace, "fails": fails}

    def oracle(self, case, obs):
        return list(obs["fails"])

    def model_lines(self, case):
        return ["run %d %d %s %s" % (case["nl"], case["aos"], " ".join(enc_prog(p) for p in case["progs"]), enc_sched(case["sched"]))]

    def model_obs(self, case, replies):
        return replies[0]

    def impl_view(self, case, obs):
        return obs["trace"]

    def classify(self, case, obs):
        t = obs["trace"].split("@")[0]
        queued = any((":p" in s or ":k" in s) for s in t.split("#"))
        return self.model_lines(case)[0] if queued else None

    def branches(self, case, obs):
        t, logs = obs["trace"].split("@")
        out = ["nl" if case["nl"] else "no-nl"]
        if ":p" in t or ":k" in t: out.append("queued-while-paused")
        if ":1|" in t: out.append("nl-handed-over")
        if "skip" in t: out.append("completion-without-target")
        ll = logs.split("|")
        for d, ids in ((1, [0]), (2, [1, 2]), (3, [3, 4])):
            if any(ll[i] for i in ids): out.append("depth%d-active" % d)
        if any("hk" in l for l in ll): out.append("completion-handled-as-plain-event")
        if any(("r%d" % r) in l and "s" in l for l in ll for r in range(1, 10)): out.append("resumed-with-reply")
        return out

    def neighbours(self, case, rng):
        s = case["sched"]
        for i in range(len(s)):
            yield dict(case, sched=s[:i] + s[i + 1:])
            for alt in (["e", 1], ["b", 0, 1], ["c", 0, 1]):
                yield dict(case, sched=s[:i] + [alt] + s[i:])
        for i in range(len(s) - 1):
            t = list(s); t[i], t[i + 1] = t[i + 1], t[i]
            yield dict(case, sched=t)

    def exhaustive(self, tier):
        return itertools.islice(self.generate(__import__("common.prng", fromlist=["Rng"]).Rng(5), "thorough"), 200000)
