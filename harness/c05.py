"""C05 — HTTP/2 streams are isolated and correctly mapped.

Anchors: mitmproxy/proxy/layers/http/_http2.py (Http2Server, Http2Client: our_stream_id / their_stream_id, stream_queue,
provisional_max_concurrency, the resume rule), _http_h2.py (BufferedH2Connection), __init__.py (HttpLayer.streams routing).

Two kinds of cases.
  layer  a script of interleaved frames of several concurrent client streams (HEADERS / DATA / trailers / RST_STREAM /
         WINDOW_UPDATE, flushed to the proxy in arbitrary segments) and of server actions (SETTINGS changing
         MAX_CONCURRENT_STREAMS / INITIAL_WINDOW_SIZE, responses in any order, RST_STREAM, WINDOW_UPDATE, GOAWAY, close)
         is run through the real Http2Server -> HttpLayer/HttpStream -> Http2Client stack in harness/common/world.py
         against two independent in-memory h2 peers (harness/c05_h2.py).  The property is checked on what the peers
         decode; the Lean model H2Map is fed the very events the real Http2Client instance received (recorded by a
         tap around Http2Client._handle_event / H2Connection.receive_data) and must reproduce, step by step, the frames
         written upstream, the events passed up with their client stream ids, the queue, the id map, the number of
         open streams and the send buffers.
  buf    operation sequences directly on a BufferedH2Connection (send_data with sizes around the window and the frame
         size, send_trailers, end_stream, reset_stream, WINDOW_UPDATE / SETTINGS / RST_STREAM from the peer) against
         the send-buffer part of the model.
"""
import json

import h2.connection
import h2.events
import h2.exceptions
import h2.settings
import h2.stream
import h2.config

from common.check import PropertyCheck, Skip, hx, unhx
from common.prng import Rng
from c05_h2 import Rig, Peer, AccountingPeer, raw_conn

from mitmproxy.connection import ConnectionState
from mitmproxy.proxy import commands, events
from mitmproxy.proxy.layers.http import _http2, _http_h2
from mitmproxy.proxy.layers.http._base import ReceiveHttp
from mitmproxy.proxy.layers.http import _events as hev

SC = h2.settings.SettingCodes

# ---------------------------------------------------------------- taps (recording only, behaviour unchanged)
_orig_receive = h2.connection.H2Connection.receive_data


def _tapped_receive(self, data):
    tap = getattr(self, "_c05_tap", None)
    try:
        evs = _orig_receive(self, data)
    except h2.exceptions.ProtocolError:
        if tap is not None: tap.append(["P"])
        raise
    except _http2.CATCH_HYPER_H2_ERRORS:
        if tap is not None: tap.append(["P"])
        raise
    if tap is not None: tap.append(list(evs))
    return evs


h2.connection.H2Connection.receive_data = _tapped_receive

TAP = {"log": None}
_orig_init = _http2.Http2Client.__init__
_orig_handle = _http2.Http2Client._handle_event


def _init(self, context):
    _orig_init(self, context)
    if TAP["log"] is not None:
        self._c05_log = TAP["log"]; self._c05_depth = 0
        self.h2_conn._c05_tap = []
        TAP.setdefault("clients", []).append(self)


def sev(e):
    if isinstance(e, h2.events.RemoteSettingsChanged):
        ch = e.changed_settings
        f = lambda code: str(ch[code].new_value) if code in ch else "-"
        return f"S:{f(SC.MAX_CONCURRENT_STREAMS)}:{f(SC.INITIAL_WINDOW_SIZE)}:{f(SC.MAX_FRAME_SIZE)}"
    if isinstance(e, h2.events.WindowUpdated): return f"W:{e.stream_id}:{e.delta}"
    if isinstance(e, h2.events.ResponseReceived):
        try:
            _http2.parse_h2_response_headers(e.headers); ok = 1
        except ValueError:
            ok = 0
        return f"H:{e.stream_id}:{1 if e.stream_ended else 0}:{ok}"
    if isinstance(e, h2.events.InformationalResponseReceived): return f"I:{e.stream_id}"
    if isinstance(e, h2.events.DataReceived): return f"D:{e.stream_id}:{len(e.data)}:{1 if e.stream_ended else 0}"
    if isinstance(e, h2.events.TrailersReceived): return f"T:{e.stream_id}"
    if isinstance(e, h2.events.StreamEnded): return f"E:{e.stream_id}"
    if isinstance(e, h2.events.StreamReset): return f"R:{e.stream_id}"
    if isinstance(e, h2.events.ConnectionTerminated): return "G"
    return "O"


def open_outbound(conn):
    """h2 open_outbound_streams without its side effect (it deletes closed streams)"""
    return sum(1 for sid, s in conn.streams.items() if s.open and sid % 2 == int(conn.config.client_side))


def _handle(self, event):
    log = getattr(self, "_c05_log", None)
    if log is None or self._c05_depth > 0:
        yield from _orig_handle(self, event)
        return
    if isinstance(event, hev.HttpEvent):
        t = event.stream_id
        if isinstance(event, hev.RequestHeaders): inp = f"c {t} h {1 if event.end_stream else 0}"
        elif isinstance(event, hev.RequestData): inp = f"c {t} d {hx(event.data)}"
        elif isinstance(event, hev.RequestTrailers): inp = f"c {t} t"
        elif isinstance(event, hev.RequestEndOfMessage): inp = f"c {t} e"
        elif isinstance(event, hev.RequestProtocolError): inp = f"c {t} x"
        else: inp = None
    elif isinstance(event, events.DataReceived): inp = "s"
    elif isinstance(event, events.ConnectionClosed): inp = "k"
    else: inp = None
    rec = {"in": inp, "bytes": b"", "ups": [], "exc": None}
    self._c05_depth += 1
    self.h2_conn._c05_tap.clear()
    try:
        for cmd in _orig_handle(self, event):
            if isinstance(cmd, commands.SendData): rec["bytes"] += cmd.data
            elif isinstance(cmd, ReceiveHttp):
                e = cmd.event
                if isinstance(e, hev.ResponseHeaders): rec["ups"].append(f"{e.stream_id}h{1 if e.end_stream else 0}")
                elif isinstance(e, hev.ResponseData): rec["ups"].append(f"{e.stream_id}d{len(e.data)}")
                elif isinstance(e, hev.ResponseTrailers): rec["ups"].append(f"{e.stream_id}t")
                elif isinstance(e, hev.ResponseEndOfMessage): rec["ups"].append(f"{e.stream_id}e")
                elif isinstance(e, hev.ResponseProtocolError): rec["ups"].append(f"{e.stream_id}x")
            yield cmd
    except Exception as ex:
        rec["exc"] = type(ex).__name__
        raise
    finally:
        self._c05_depth -= 1
        if inp == "s":
            evs = [x for batch in self.h2_conn._c05_tap for x in batch]
            rec["in"] = "s " + (",".join("P" if x == "P" else sev(x) for x in evs) or "-")
        rec["q"] = [f"{k}*{len(v)}" for k, v in self.stream_queue.items()]
        rec["m"] = [f"{k}>{v}" for k, v in self.our_stream_id.items()]
        rec["o"] = open_outbound(self.h2_conn)
        rec["b"] = [f"{k}*{sum(len(c.data) for c in v)}" for k, v in self.h2_conn.stream_buffers.items()]
        rec["closed"] = self._handle_event == self.done
        log.append(rec)


_http2.Http2Client.__init__ = _init
_http2.Http2Client._handle_event = _handle


def jo(l): return ",".join(l) if l else "-"


def body_of(i, n, off=0):
    """deterministic, stream-specific content so that any cross-stream mix-up shows"""
    return bytes(((i * 37 + (off + k) * 7 + 11) % 251) for k in range(n))


class FrameDecoder:
    """decode-only h2 endpoint turning the proxy's upstream bytes into the model's frame rendering"""

    def __init__(self, client_side):
        self.c = raw_conn(client_side)
        self.c.initiate_connection(); self.c.data_to_send()
        self.c.max_inbound_frame_size = 2 ** 24 - 1
        # never let the decoder's own limits interfere: it only observes
        self.c.local_settings.max_concurrent_streams = 2 ** 31 - 1
        self.c.local_settings.initial_window_size = 2 ** 31 - 1
        self.c.local_settings.max_frame_size = 2 ** 24 - 1
        self.c.local_settings.acknowledge()
        from h2.windows import WindowManager
        self.c._inbound_flow_control_window_manager = WindowManager(2 ** 31 - 1)
        self.fail = None

    def feed(self, data):
        out = []
        if not data or self.fail: return out
        try:
            evs = self.c.receive_data(data)
        except h2.exceptions.ProtocolError as e:
            self.fail = f"{type(e).__name__}: {e}"
            return ["?"]
        for e in evs:
            if isinstance(e, (h2.events.RequestReceived, h2.events.ResponseReceived)):
                out.append(f"H{e.stream_id}.{1 if e.stream_ended else 0}")
            elif isinstance(e, h2.events.DataReceived):
                out.append(f"D{e.stream_id}.{hx(e.data)}.{1 if e.stream_ended else 0}")
                # keep the decoder's windows wide open
                try:
                    if e.flow_controlled_length:
                        self.c.acknowledge_received_data(e.flow_controlled_length, e.stream_id)
                except Exception:
                    pass
            elif isinstance(e, h2.events.TrailersReceived): out.append(f"T{e.stream_id}")
            elif isinstance(e, h2.events.StreamReset): out.append(f"R{e.stream_id}")
        self.c.data_to_send()
        return out


class Check(PropertyCheck):
    prop = "C05"
    design_ref = "§5 C05"
    level_text = ("Lean theorems about EVERY reachable state of the executable model H2Map of Http2Client (stream-id "
                  "translation, stream_queue, provisional_max_concurrency, the resume rule with the recursion of "
                  "_handle_event as an explicit call stack, handle_h2_event, close_connection and the failing of queued "
                  "streams), proved by one invariant through every iteration of the resume loop (reach_inv): id_maps_inverse "
                  "(+ injective), no_stream_lost_or_duplicated (passed-on ++ queued = submitted, per stream, in order, on the "
                  "stream's own upstream id; no_stream_lost_on_close), queue_fifo (opened ++ queued = arrival order), "
                  "queue_nonempty_implies_no_capacity (stated against hyper-h2's count of open streams, i.e. the "
                  "server's — reset_frees_slot: a stream the proxy resets itself stops counting at once), open_le_limit, "
                  "response_routed; and about BufferedH2Connection's send "
                  "buffers for all windows / frame sizes: buffered_bytes_conserved (send_data incl. frame-size splitting, "
                  "the flush loop, stream_window_updated), buffered_bytes_conserved_connection (connection_window_updated: the "
                  "round robin over all buffers, any number of rounds — so every entry point of BufferedH2Connection is "
                  "covered — for streams satisfying StreamOk), stream_ok_invariant (StreamOk holds initially and is kept by "
                  "send_data under the callers' discipline), trailers_after_data; the callers' discipline itself is DERIVED: "
                  "stream_ok_reachable (StreamOk for every stream in every state reachable under Reach2 = Good + the "
                  "per-stream order Good2: data and trailers only before trailers/end/error, one end of message), "
                  "can_submit_derived (CanSubmit holds wherever Http2Client submits data or ends a stream; the "
                  "is_open_for_us guard is part of the model), buffered_bytes_conserved_reachable (the conservation "
                  "theorems for the flush entry points without the StreamOk hypothesis), through received segments with "
                  "RST_STREAM / GOAWAY / SETTINGS / WINDOW_UPDATE, queueing and the resume loop (Lemmas/C05_Sub.lean); and "
                  "the order Good2 + head-first is derived from the HttpStream model of C03: "
                  "httpstream_hands_over_in_order (in EVERY run of C03's model the SendHttp commands addressed to the "
                  "server are head first and once, data only while streaming, trailers only right before the end, one "
                  "end, an error only after the head — a new invariant J over C03's transitions, Lemmas/C05_C03*.lean), "
                  "good2_from_httpstream, good_from_httpstream (with fresh_iff_nothing_handed_over: a stream has no upstream id and is "
                  "not queued exactly when nothing was handed over for it) — both hypotheses of Reach2 are now properties of "
                  "the C03 model; upstream_bytes_own_stream is the WHOLE-HISTORY form of the conservation: in every "
                  "reachable state the DATA bytes on the wire for an upstream id, followed by what is still buffered for it, "
                  "are a prefix of the body data handed over for ITS client stream (all of it while the stream may still send; "
                  "nothing foreign, twice or out of order; no DATA on an id not yet allocated), needing only Good; "
                  "upstream_bytes_prefix_of_submitted; no_stream_lost_on_segment_close (a received segment that closes the connection "
                  "— GOAWAY, protocol error, refused response head — fails every queued stream; with no_stream_lost_on_close and "
                  "client_event_never_closes these are all the ways the connection closes); crashed_only_by_unknown_trailers "
                  "(the KeyError branch of the id translation is unreachable when hyper-h2 reports trailers only for opened "
                  "streams); demux_own_stream / route_own_stream "
                  "(HttpLayer.streams after any make_stream / DropStream sequence hands an event to the HttpStream created for "
                  "its id, or to nobody — the conclusions follow from the shape of the model's table operations; what ties them "
                  "to mitmproxy is the driver: every assignment to, pop from and lookup in the real HttpLayer.streams is "
                  "replayed by the ops L make / L drop / L route and the table, key -> stream_id of the stored HttpStream, and "
                  "every lookup result are compared). The model is tied to the code by replaying, in "
                  "lock step, the events the real Http2Client received in end-to-end runs of interleaved, arbitrarily "
                  "segmented multi-stream scripts (frames written incl. their sizes, events passed up with their ids, queue, "
                  "id map, open streams, buffers compared after every call), and by direct differential runs of "
                  "BufferedH2Connection; the property itself is checked on what two independent, self-accounting h2 peers "
                  "decode (per-stream content, order of opening, concurrency limit, flow-control windows), incl. the "
                  "liveness clause that no complete request is left waiting while the server — by its own count against the "
                  "limit it announced, which some scripts never raise — has a free slot.")
    level_note = ("trusted / not proved: hyper-h2/hpack (framing, stream state machine, flow-control accounting) — the model takes "
                  "the EVENTS h2 reports as input and abstracts its state to window + open flags per stream; that abstraction "
                  "is validated by the lock-step comparison only. Hypothesis of the theorems (Good, and Good2 for the "
                  "buffer theorems): HttpStream hands over, per stream, the request head first and exactly once, then data / "
                  "at most one set of trailers / one end of message in this order, or an error. That order is no longer "
                  "assumed of HttpStream but proved of its C03 model for every run (httpstream_hands_over_in_order); what "
                  "remains unproved is the glue between the two models: that the events of ONE client stream reach "
                  "Http2Client in the order HttpStream emitted them (HttpLayer.event_to_child is a synchronous loop; "
                  "now TIED: the model driver evaluates Good and Good2 on every event the real HttpStream handed to the real "
                  "Http2Client in the lock-step runs and the harness expects G=11), and C03's own correspondence with the "
                  "code (checked by C03). StreamOk "
                  "(nothing buffered for a stream that cannot send any more, END_STREAM only on the last buffered chunk) and "
                  "CanSubmit are now consequences (stream_ok_reachable, can_submit_derived); the older theorems that take "
                  "them as hypotheses are kept. For a "
                  "stream the peer has reset the buffered bytes are (intentionally) dropped. Http2Server passes events up under "
                  "the id hyper-h2 reports (identity); which frame belongs to which stream is hyper-h2's demultiplexing "
                  "(trusted, exercised by the peer oracle); the routing by id in HttpLayer.streams is demux_own_stream (tied by the "
                  "L ops). St.crashed (KeyError in their_stream_id) IS reachable in the model for a segment hyper-h2 would never "
                  "report — trailers for a stream id that was never opened; crashed_only_by_unknown_trailers proves it "
                  "unreachable under exactly that assumption (TrOk), which rests on hyper-h2 and is watched by the lock-step X= "
                  "flag. reset_frees_slot's second conjunct is true by definition (it spells out what noFree counts). Its send "
                  "side uses the same BufferedH2Connection. When a WINDOW_UPDATE arrives in one segment with a GOAWAY hyper-h2 raises inside "
                  "receive_data; what is then left in the send buffers of the closed connection is not compared. "
                  "LENIENT BRANCHES of the oracle, all of them: (1) the END of a response is required at the client only once "
                  "the request has ended too (mitmproxy withholds it until then); (2) a complete request may keep waiting only "
                  "while the server — by its own count against the limit it announced and had acknowledged — has no free slot; "
                  "(3) the accounting peers let the proxy use a RAISED limit / window as soon as it was sent and bind it to a "
                  "LOWERED one only after its SETTINGS ACK; (4) expected opening order = order of the last hook before "
                  "forwarding (requestheaders for streamed requests, request otherwise); (5) after the upstream connection "
                  "died (close/GOAWAY) responses are not required, only that every stream is answered or failed; (6) cases with "
                  "a second upstream connection are judged by the oracle but not replayed through the model; (7) a stream reset "
                  "by either side is exempt from the content clauses.")
    technique = "Lean 4 proof (invariants of a transition system, induction over input histories) + lock-step differential correspondence of the model with the real Http2Client/BufferedH2Connection + peer-decoded property oracle"
    rule = ("layer cases: 2-6 concurrent client streams, each headers/data*/[trailers]/end or reset, interleaved at random, "
            "client and server bytes flushed in 1-4 random segments, server SETTINGS with MAX_CONCURRENT_STREAMS 0-3 and small "
            "INITIAL_WINDOW_SIZE, responses in random order, RST_STREAM, WINDOW_UPDATE, GOAWAY / close; half streamed. buf cases: "
            "1-3 streams with send sizes around window and frame size. distinct = distinct script; non-trivial = at least two "
            "streams reached the upstream side or a buffer was used.")
    budget = {"quick": 800, "thorough": 20000}
    time_budget = {"quick": 25, "thorough": 650}
    fingerprints = [
        "mitmproxy.proxy.layers.http._http2:Http2Client._handle_event",
        "mitmproxy.proxy.layers.http._http2:Http2Client._handle_event2",
        "mitmproxy.proxy.layers.http._http2:Http2Client.handle_h2_event",
        "mitmproxy.proxy.layers.http._http2:Http2Client.__init__",
        "mitmproxy.proxy.layers.http._http2:Http2Connection._handle_event",
        "mitmproxy.proxy.layers.http._http2:Http2Connection.handle_h2_event",
        "mitmproxy.proxy.layers.http._http2:Http2Connection.close_connection",
        "mitmproxy.proxy.layers.http._http2:Http2Connection.protocol_error",
        "mitmproxy.proxy.layers.http._http2:Http2Connection.is_closed",
        "mitmproxy.proxy.layers.http._http2:Http2Connection.is_open_for_us",
        "mitmproxy.proxy.layers.http._http2:Http2Server.handle_h2_event",
        "mitmproxy.proxy.layers.http._http2:Http2Server._handle_event",
        "mitmproxy.proxy.layers.http._http_h2:BufferedH2Connection.send_data",
        "mitmproxy.proxy.layers.http._http_h2:BufferedH2Connection.send_trailers",
        "mitmproxy.proxy.layers.http._http_h2:BufferedH2Connection.end_stream",
        "mitmproxy.proxy.layers.http._http_h2:BufferedH2Connection.reset_stream",
        "mitmproxy.proxy.layers.http._http_h2:BufferedH2Connection.receive_data",
        "mitmproxy.proxy.layers.http._http_h2:BufferedH2Connection.stream_window_updated",
        "mitmproxy.proxy.layers.http._http_h2:BufferedH2Connection.connection_window_updated",
        "mitmproxy.proxy.layers.http:HttpLayer.event_to_child",
        "mitmproxy.proxy.layers.http:HttpLayer.make_stream",
    ]
    trusted_base = ["hyper-h2 4.4.1 + hpack: frame parsing/serialisation, stream state machine, window accounting (its reported events are the model's input)",
                    "the in-memory peers are independent instances of the same h2 library",
                    "HttpStream emits per stream: headers, data*, [trailers], end-of-message | protocol error (C03)"]
    parallel = False

    def setup(self, tier):
        self.parallel = False

    # ---------------------------------------------------------------- generator
    def gen_layer(self, rng):
        n = rng.randint(2, 6)
        plans = []
        for i in range(n):
            nd = rng.weighted([(3, 0), (4, 1), (3, 2), (1, 3)])
            frames = [["ch", i, 1 if (nd == 0 and rng.chance(0.8)) else 0]]
            ended = bool(frames[0][2])
            for d in range(nd):
                last = d == nd - 1
                fin = 1 if (last and rng.chance(0.7)) else 0
                size = rng.weighted([(5, rng.randint(1, 30)), (2, rng.randint(31, 200)), (1, rng.randint(201, 2000))])
                frames.append(["cd", i, size, fin]); ended = ended or bool(fin)
            if not ended:
                r = rng.random()
                if r < 0.35: frames.append(["ct", i])
                elif r < 0.85: frames.append(["cd", i, 0, 1])
                elif r < 0.95: frames.append(["cr", i])
                # else: left open until the end of the script
            elif rng.chance(0.06):
                frames.append(["cr", i])
            plans.append(frames)
        ops = []
        # server-side knobs early in the script
        s_maxc = rng.weighted([(3, None), (2, 1), (2, 2), (1, 3), (1, 0)])
        s_iws = rng.weighted([(4, None), (2, rng.randint(1, 40)), (2, rng.randint(41, 400))])
        c_iws = rng.weighted([(5, None), (2, rng.randint(1, 60))])
        heads = [0] * n
        pending = [i for i in range(n)]
        started = 0
        opened_order = []
        while pending:
            # streams must be opened in increasing id order on the client side
            cand = [i for i in pending if heads[i] > 0 or i == started]
            i = rng.pick(cand)
            ops.append(plans[i][heads[i]])
            if heads[i] == 0: started += 1
            heads[i] += 1
            if heads[i] == len(plans[i]): pending.remove(i)
            if rng.chance(0.35): ops.append(["cf", rng.randint(1, 4), rng.getrandbits(16)])
            r = rng.random()
            if r < 0.10: ops.append(["ss", rng.weighted([(3, rng.randint(0, 3)), (1, None)]), rng.weighted([(3, None), (1, rng.randint(1, 300))])])
            elif r < 0.22: ops.append(["sa", rng.randint(0, 5), rng.randint(0, 2), rng.randint(0, 40), rng.chance(0.2)])
            elif r < 0.30: ops.append(["sw", rng.randint(-1, 5), rng.randint(1, 300)])
            elif r < 0.34: ops.append(["sr", rng.randint(0, 5)])
            elif r < 0.40: ops.append(["cw", rng.randint(-1, n - 1), rng.randint(1, 100)])
            elif r < 0.415: ops.append([rng.pick(["sx", "sg"])])
            if rng.chance(0.3): ops.append(["sf", rng.randint(1, 4), rng.getrandbits(16)])
        return {"kind": "layer", "n": n, "ops": ops, "stream": 1 if rng.chance(0.5) else 0,
                "s_maxc": s_maxc, "s_iws": s_iws, "c_iws": c_iws,
                "drain": rng.weighted([(6, 1), (3, 2 if s_maxc else 1), (1, 0)])}

    def gen_cancel(self, rng):
        """under a small announced MAX_CONCURRENT_STREAMS: streams are opened upstream and then cancelled by the client (the
        proxy resets them upstream itself), at least as many as the limit; then further streams are opened. The limit is
        never raised: every later stream has to get through as slots become free."""
        limit = rng.randint(1, 3)
        cancels = rng.randint(limit, limit + 2)
        later = rng.randint(1, 3)
        st = 1 if rng.chance(0.7) else 0
        ops = [["ch", 0, 1], ["cf", 1, 1], ["sf", 1, 1], ["cf", 1, 2]]       # the connection exists, the limit is known
        if rng.chance(0.5): ops += [["sa", 0, 1, 3, False], ["sf", 1, 3]]
        i = 1
        for _ in range(cancels):
            ops += [["ch", i, 0]]
            if rng.chance(0.6): ops += [["cd", i, rng.randint(1, 20), 0]]
            if not st: ops += [["cd", i, 2, 1]]              # buffered mode: the request must be complete to go upstream
            ops += [["cf", rng.randint(1, 3), rng.getrandbits(16)], ["sf", 1, rng.getrandbits(16)], ["cr", i], ["cf", 1, rng.getrandbits(16)]]
            if rng.chance(0.3): ops += [["sf", rng.randint(1, 2), rng.getrandbits(16)]]
            i += 1
        for _ in range(later):
            ops += [["ch", i, 0], ["cd", i, rng.randint(1, 30), 1]]
            if rng.chance(0.5): ops += [["cf", rng.randint(1, 3), rng.getrandbits(16)]]
            i += 1
        ops += [["cf", 1, rng.getrandbits(16)], ["sf", 1, rng.getrandbits(16)]]
        return {"kind": "layer", "n": i, "ops": ops, "stream": st, "s_maxc": limit, "s_iws": None, "c_iws": None, "drain": 2}

    def gen_buf(self, rng):
        ns = rng.randint(1, 3)
        iws = rng.weighted([(3, rng.randint(1, 50)), (2, rng.randint(51, 500)), (1, 65535), (1, 20000)])
        ops = []
        state = {}
        for k in range(rng.randint(3, 14)):
            r = rng.random()
            s = rng.randint(0, ns - 1)
            if s not in state:
                ops.append(["open", s]); state[s] = "open"
            if state[s] == "open":
                if r < 0.55:
                    size = rng.weighted([(4, rng.randint(0, 30)), (3, rng.randint(31, 600)), (1, rng.randint(16000, 17000)), (1, rng.randint(32760, 33000))])
                    fin = 1 if rng.chance(0.15) else 0
                    ops.append(["data", s, size, fin])
                    if fin: state[s] = "ending"
                elif r < 0.65: ops.append(["trl", s]); state[s] = "trl"
                elif r < 0.75: ops.append(["end", s]); state[s] = "ending"
                elif r < 0.80: ops.append(["rst", s]); state[s] = "reset"
            elif state[s] == "trl" and r < 0.5:
                ops.append(["end", s]); state[s] = "ending"
            r = rng.random()
            if r < 0.35: ops.append(["wu", rng.randint(-1, ns - 1), rng.weighted([(3, rng.randint(1, 40)), (2, rng.randint(41, 1000)), (1, 40000)])])
            elif r < 0.42: ops.append(["set", rng.weighted([(2, rng.randint(0, 100)), (1, rng.randint(101, 70000)), (1, None)]), rng.weighted([(3, None), (1, rng.randint(16384, 40000))])])
            elif r < 0.46: ops.append(["prst", rng.randint(0, ns - 1)])
        return {"kind": "buf", "iws": iws, "ops": ops}

    def generate(self, rng, tier):
        while True:
            r = rng.random()
            yield self.gen_layer(rng) if r < 0.6 else (self.gen_cancel(rng) if r < 0.72 else self.gen_buf(rng))

    # ---------------------------------------------------------------- implementation runner: buf
    def impl_buf(self, case):
        conf = h2.config.H2Configuration(client_side=True, header_encoding=False, validate_outbound_headers=False,
                                         normalize_outbound_headers=False, validate_inbound_headers=False)
        c = _http_h2.BufferedH2Connection(conf)
        c._c05_tap = []
        peer = raw_conn(False)
        peer.local_settings.initial_window_size = case["iws"]; peer.local_settings.acknowledge()
        c.initiate_connection(); peer.initiate_connection()
        peer.receive_data(c.data_to_send()); c.receive_data(peer.data_to_send()); peer.receive_data(c.data_to_send())
        c.receive_data(peer.data_to_send())
        dec = FrameDecoder(False)
        dec.feed(b"")
        pre = _http2.Http2Connection   # only for the two predicates
        steps, lines = [], [f"b srv S:-:{case['iws']}:-"]
        submitted, flags = {}, {}
        sids = {}
        crash = None

        def open_for_us(sid):
            st = c.streams.get(sid)
            return (st is not None and st.state_machine.state is not h2.stream.StreamState.HALF_CLOSED_LOCAL
                    and st.state_machine.state is not h2.stream.StreamState.CLOSED)

        def snap(line, skip_h=False):
            data = c.data_to_send()
            evs_peer = []
            try:
                evs_peer = peer.receive_data(data) if data else []
            except h2.exceptions.ProtocolError as e:
                return {"line": line, "frames": ["peer-rejects: " + type(e).__name__], "b": []}
            fr = []
            for e in evs_peer:
                if isinstance(e, h2.events.DataReceived):
                    fr.append(f"D{e.stream_id}.{hx(e.data)}.{1 if e.stream_ended else 0}")
                elif isinstance(e, h2.events.TrailersReceived): fr.append(f"T{e.stream_id}")
                elif isinstance(e, h2.events.StreamReset): fr.append(f"R{e.stream_id}")
            peer.data_to_send()
            return {"line": line, "frames": fr,
                    "b": [f"{k}*{sum(len(x.data) for x in v)}" for k, v in c.stream_buffers.items()]}

        steps.append(snap(lines[0]))
        try:
            for op in case["ops"]:
                k = op[0]
                if k == "open":
                    sid = 2 * op[1] + 1
                    if sid in sids.values() or any(sid < x for x in sids.values()): continue
                    sids[op[1]] = sid
                    c.send_headers(sid, [(b":method", b"POST"), (b":scheme", b"http"), (b":path", b"/"), (b":authority", b"a")])
                    submitted[sid] = b""; flags[sid] = {"end": False, "trl": False, "rst": False}
                    steps.append(snap(f"b open {sid}"))
                    continue
                if k in ("data", "trl", "end", "rst"):
                    if op[1] not in sids: continue
                    sid = sids[op[1]]
                    if k == "rst":
                        st = c.streams.get(sid)
                        if st is None or st.state_machine.state is h2.stream.StreamState.CLOSED: continue
                        c.reset_stream(sid, 8); flags[sid]["rst"] = True
                        steps.append(snap(f"b rst {sid}")); continue
                    if not open_for_us(sid): continue
                    if k == "data":
                        d = body_of(op[1], op[2], len(submitted[sid]))
                        c.send_data(sid, d, end_stream=bool(op[3])); submitted[sid] += d
                        if op[3]: flags[sid]["end"] = True
                        steps.append(snap(f"b data {sid} {hx(d)} {op[3]}"))
                    elif k == "trl":
                        c.send_trailers(sid, [(b"x-t", b"1")]); flags[sid]["trl"] = True
                        steps.append(snap(f"b trl {sid}"))
                    else:
                        c.end_stream(sid); flags[sid]["end"] = True
                        steps.append(snap(f"b end {sid}"))
                    continue
                # peer side
                if k == "wu":
                    sid = 0 if op[1] < 0 else sids.get(op[1])
                    if sid is None: continue
                    try:
                        peer.increment_flow_control_window(op[2], sid or None)
                    except Exception:
                        continue
                elif k == "set":
                    s = {}
                    if op[1] is not None: s[SC.INITIAL_WINDOW_SIZE] = op[1]
                    if op[2] is not None: s[SC.MAX_FRAME_SIZE] = op[2]
                    if not s: continue
                    peer.update_settings(s)
                elif k == "prst":
                    sid = sids.get(op[1])
                    if sid is None: continue
                    try:
                        peer.reset_stream(sid, 8)
                    except Exception:
                        continue
                    flags[sid]["rst"] = True
                else:
                    continue
                c._c05_tap.clear()
                try:
                    c.receive_data(peer.data_to_send())
                except h2.exceptions.ProtocolError:
                    break
                evs = [x for b in c._c05_tap for x in b]
                steps.append(snap("b srv " + (",".join(sev(x) for x in evs) or "-")))
        except Exception as e:
            crash = f"{type(e).__name__}: {e}"[:200]
        # final drain: open every window wide and let the connection flush
        final = {}
        if crash is None:
            try:
                for _ in range(6):
                    peer.increment_flow_control_window(2 ** 20)
                    for sid in list(submitted):
                        try: peer.increment_flow_control_window(2 ** 20, sid)
                        except Exception: pass
                    c._c05_tap.clear()
                    c.receive_data(peer.data_to_send())
                    evs = [x for b in c._c05_tap for x in b]
                    steps.append(snap("b srv " + (",".join(sev(x) for x in evs) or "-")))
            except Exception as e:
                crash = f"{type(e).__name__}: {e}"[:200]
        # what the peer got per stream, in order
        got = {}
        for st in steps:
            for f in st["frames"]:
                if f[0] == "D":
                    sid, h, fin = f[1:].split(".")
                    g = got.setdefault(int(sid), {"data": b"", "seq": []})
                    g["data"] += unhx(h); g["seq"].append("D");
                    if fin == "1": g["seq"].append("E")
                elif f[0] == "T":
                    g = got.setdefault(int(f[1:]), {"data": b"", "seq": []}); g["seq"] += ["T", "E"]
                elif f[0] == "R":
                    g = got.setdefault(int(f[1:]), {"data": b"", "seq": []}); g["seq"].append("R")
        return {"steps": steps, "crash": crash,
                "streams": {str(sid): {"submitted": hx(submitted[sid]), "got": hx(got.get(sid, {}).get("data", b"")),
                                       "seq": "".join(got.get(sid, {}).get("seq", [])), **flags[sid]} for sid in submitted}}

    def oracle_buf(self, case, obs):
        fails = []
        if obs["crash"]: fails.append("BufferedH2Connection raised: " + obs["crash"])
        for st in obs["steps"]:
            for f in st["frames"]:
                if f.startswith("peer-rejects"): fails.append("the peer rejects what BufferedH2Connection sent: " + f)
        for sid, s in obs["streams"].items():
            sub, got, seq = unhx(s["submitted"]), unhx(s["got"]), s["seq"]
            # buffered_bytes_conserved: bytes sent + buffered = bytes submitted, order kept
            if not sub.startswith(got):
                fails.append(f"stream {sid}: bytes delivered are not a prefix of the bytes submitted")
            if "E" in seq and seq.index("E") != len(seq) - 1 and not seq.endswith("ER"):
                fails.append(f"stream {sid}: frames after END_STREAM ({seq})")
            if "T" in seq and "D" in seq[seq.index("T"):]:
                fails.append(f"stream {sid}: DATA after trailers ({seq})")
            if obs["crash"] is None and not s["rst"]:
                if ("E" in seq) and got != sub:
                    fails.append(f"stream {sid}: stream ended after {len(got)} of {len(sub)} bytes")
                if (s["end"] or s["trl"]) and "E" not in seq:
                    fails.append(f"stream {sid}: end of stream requested but never sent, after the windows were opened ({seq}, {len(got)}/{len(sub)} bytes)")
                if (s["end"] or s["trl"]) and got != sub:
                    fails.append(f"stream {sid}: {len(sub) - len(got)} submitted bytes never sent although the windows were opened")
                if s["trl"] and "T" not in seq:
                    fails.append(f"stream {sid}: trailers never sent ({seq})")
        return fails

    # ---------------------------------------------------------------- implementation runner: layer
    def impl_layer(self, case):
        log = []
        TAP["log"] = log; TAP["clients"] = []
        try:
            return self._impl_layer(case, log)
        finally:
            TAP["log"] = None

    def _impl_layer(self, case, log):
        n = case["n"]
        st = bool(case.get("stream"))
        ss = {}
        if case.get("s_maxc") is not None: ss[SC.MAX_CONCURRENT_STREAMS] = case["s_maxc"]
        if case.get("s_iws") is not None: ss[SC.INITIAL_WINDOW_SIZE] = case["s_iws"]
        cs = {}
        if case.get("c_iws") is not None: cs[SC.INITIAL_WINDOW_SIZE] = case["c_iws"]
        rig = Rig(2, 2, stream_req=st, stream_resp=st, server_settings=ss or None, client_settings=cs or None,
                  peer_cls=AccountingPeer)
        w, cp = rig.w, rig.cpeer
        # tie of `route` / `applyLayerOp` (HttpLayer.streams): every make_stream, DropStream and lookup of the real layer
        lops = []

        class StreamTable(dict):
            def _snap(self): return [f"{k}>{v.stream_id}" for k, v in self.items()]
            def __setitem__(self, k, v):
                dict.__setitem__(self, k, v); lops.append((f"L make {k}", "S=" + jo(self._snap())))
            def pop(self, k, *d):
                r = dict.pop(self, k, *d); lops.append((f"L drop {k}", "S=" + jo(self._snap()))); return r
            def __getitem__(self, k):
                try:
                    v = dict.__getitem__(self, k)
                except KeyError:
                    lops.append((f"L route {k}", "R=-")); raise
                lops.append((f"L route {k}", f"R={v.stream_id}")); return v
        assert w.layer.streams == {}
        w.layer.streams = StreamTable()
        sent = {i: {"headers": False, "body": b"", "trailers": False, "ended": False, "reset": False} for i in range(n)}
        answered = {}      # upstream stream id -> {"status", "body", "ended", "reset"}
        dead = {"server": False}

        def segs(seed, k):
            r = Rng(seed)
            return lambda d: r.split(d, k)

        def sp():
            labs = w.server_labels()
            return rig.speer(labs[0]) if labs else None

        def sid_of(j):
            p = sp()
            if p is None or j < 0 or j >= len(p.order): return None
            return p.order[j]

        def key(p, sid):
            return f"{[l for l, q in rig.speers.items() if q is p][0]}/{sid}"

        def answer(p, sid, nbody, nframes, trailers=False):
            kk = key(p, sid)
            if kk in answered or p.streams[sid].reset is not None: return
            j = p.order.index(sid)
            body = body_of(100 + j, nbody)
            ok = p.do(p.c.send_headers, sid, [(b":status", b"200"), (b"x-resp", b"%d" % j)], end_stream=(nbody == 0 and not trailers))
            if not ok: return
            answered[kk] = {"j": j, "body": body, "ended": nbody == 0 and not trailers, "reset": False, "trailers": trailers}
            k = max(1, nframes); size = max(1, -(-nbody // k))
            pieces = [body[x:x + size] for x in range(0, nbody, size)]
            for q, piece in enumerate(pieces):
                last = q == len(pieces) - 1
                if p.do(p.c.send_data, sid, piece, end_stream=(last and not trailers)):
                    if last and not trailers: answered[kk]["ended"] = True
                else:
                    answered[kk]["body"] = body[:q * size]
                    break
            else:
                if trailers and p.do(p.c.send_headers, sid, [(b"x-rt", b"1")], end_stream=True):
                    answered[kk]["ended"] = True

        def finish(p, sid):
            a = answered.get(key(p, sid))
            if a is None or a["ended"] or a["reset"]: return
            if p.do(p.c.send_data, sid, b"", end_stream=True): a["ended"] = True

        for op in case["ops"]:
            k = op[0]
            if k == "ch":
                i = op[1]
                hdrs = [(b":method", b"POST"), (b":scheme", b"http"), (b":path", b"/%d" % i), (b":authority", b"example.com"), (b"x-id", b"%d" % i)]
                if cp.do(cp.c.send_headers, 2 * i + 1, hdrs, end_stream=bool(op[2])):
                    sent[i]["headers"] = True; sent[i]["ended"] = bool(op[2])
            elif k == "cd":
                i = op[1]
                if not sent[i]["headers"] or sent[i]["ended"] or sent[i]["reset"]: continue
                d = body_of(i, op[2], len(sent[i]["body"]))
                if cp.do(cp.c.send_data, 2 * i + 1, d, end_stream=bool(op[3])):
                    sent[i]["body"] += d; sent[i]["ended"] = bool(op[3])
            elif k == "ct":
                i = op[1]
                if not sent[i]["headers"] or sent[i]["ended"] or sent[i]["reset"]: continue
                if cp.do(cp.c.send_headers, 2 * i + 1, [(b"x-trailer", b"%d" % i)], end_stream=True):
                    sent[i]["trailers"] = True; sent[i]["ended"] = True
            elif k == "cr":
                i = op[1]
                if not sent[i]["headers"] or sent[i]["reset"]: continue
                if cp.do(cp.c.reset_stream, 2 * i + 1, 8): sent[i]["reset"] = True
            elif k == "cw":
                sid = None if op[1] < 0 else 2 * op[1] + 1
                if sid is None or sent.get(op[1], {}).get("headers"): cp.grant(op[2], sid)
            elif k == "cf":
                d = cp.take()
                if d:
                    for s in Rng(op[2]).split(d, op[1]): w.recv("client", s)
                    rig.pump_out()
            elif dead["server"]:
                continue
            elif k == "ss":
                p = sp()
                if p is None: continue
                s = {}
                if op[1] is not None: s[SC.MAX_CONCURRENT_STREAMS] = op[1]
                if op[2] is not None: s[SC.INITIAL_WINDOW_SIZE] = op[2]
                if s: p.advertise(s)
            elif k == "sa":
                p, sid = sp(), sid_of(op[1])
                if sid is not None and p.streams[sid].headers is not None:
                    answer(p, sid, op[3], op[2], trailers=bool(op[4]))
            elif k == "sw":
                p = sp()
                if p is None: continue
                sid = None if op[1] < 0 else sid_of(op[1])
                if op[1] >= 0 and sid is None: continue
                p.grant(op[2], sid)
            elif k == "sr":
                p, sid = sp(), sid_of(op[1])
                if sid is None: continue
                if p.do(p.c.reset_stream, sid, 2):
                    answered.setdefault(key(p, sid), {"j": p.order.index(sid), "body": b"", "ended": False, "reset": True, "trailers": False})["reset"] = True
            elif k == "sf":
                for lab, p in list(rig.speers.items()):
                    d = p.take()
                    if d:
                        for s in Rng(op[2]).split(d, op[1]): w.recv(lab, s)
                rig.pump_out()
            elif k in ("sx", "sg"):
                p = sp()
                if p is None: continue
                labs = w.server_labels()
                if k == "sg":
                    p.do(p.c.close_connection)
                    w.recv(labs[0], p.take())
                else:
                    w.recv(labs[0], p.take()); w.peer_close(labs[0])
                rig.pump_out(); dead["server"] = True
        # ---- drain: deliver everything, open the windows, answer what is unanswered
        if case.get("drain", 1):
            for rnd in range(12):
                d = cp.take()
                if d: w.recv("client", d)
                rig.pump_out()
                if not dead["server"]:
                    for lab, p in list(rig.speers.items()):
                        if lab != w.server_labels()[0]: continue
                        for sid in list(p.order):
                            r = p.streams[sid]
                            if r.reset is None and (r.ended or st):
                                if r.ended: answer(p, sid, 5, 1)
                            finish(p, sid) if key(p, sid) in answered and r.ended else None
                            p.grant(2 ** 16, sid)
                        p.grant(2 ** 18)
                        if rnd == 2 and case.get("drain", 1) == 1: p.advertise({SC.MAX_CONCURRENT_STREAMS: 100})
                        d = p.take()
                        if d: w.recv(lab, d)
                    # later connections (opened after the first one died) get a plain answer too
                for lab in w.server_labels()[1:]:
                    p = rig.speer(lab)
                    for sid in list(p.order):
                        if p.streams[sid].ended: answer(p, sid, 5, 1)
                    d = p.take()
                    if d: w.recv(lab, d)
                for i in range(n):
                    if sent[i]["headers"]: cp.grant(2 ** 16, 2 * i + 1)
                cp.grant(2 ** 18)
                rig.pump_out()
        # ---- observables
        labs = w.server_labels()
        slots = None
        if labs and not dead["server"]:
            p0 = rig.speer(labs[0])
            # what the PEER knows: the limit it announced and had acknowledged, and the streams it still considers open
            slots = {"limit": p0.maxc, "open": p0.c.open_inbound_streams, "pending_settings": len(p0.pending)}
        ups = []
        for lab in labs:
            p = rig.speer(lab)
            ups.append({"order": list(p.order), "failure": p.failure, "violations": list(p.violations),
                        "streams": {str(s): p.streams[s].view() for s in p.order}})
        client = {str(s): r.view() for s, r in cp.streams.items()}
        flows = []
        for name, snap, idx in rig.snap:
            xid = None
            for kx, vx in (snap.get("request") or {}).get("fields", []):
                if unhx(kx) == b"x-id": xid = int(unhx(vx))
            flows.append([name, xid, (snap.get("request") or {}).get("content"), (snap.get("request") or {}).get("trailers") is not None])
        return {"sent": {str(i): {**{k: v for k, v in s.items() if k != "body"}, "body_hex": hx(s["body"])} for i, s in sent.items()},
                "answered": {str(k): {**{kk: vv for kk, vv in v.items() if kk != "body"}, "body_hex": hx(v["body"])} for k, v in answered.items()},
                "ups": ups, "client": client, "client_failure": cp.failure, "client_terminated": cp.terminated, "client_violations": list(cp.violations),
                "fins": {str(op[1]): op[2] for op in case["ops"] if op[0] == "ch"},
                "flows": flows, "crash": [e[0] + ": " + e[1][:100] for e in w.errors], "dead": dead["server"], "slots": slots,
                "tap": [{"in": r["in"], "bytes_hex": hx(r["bytes"]), "ups": r["ups"], "q": r["q"], "m": r["m"], "o": r["o"], "b": r["b"],
                         "closed": r["closed"], "exc": r["exc"]} for r in log],
                "nclients": len(TAP["clients"]), "drained": bool(case.get("drain", 1)), "lops": [list(x) for x in lops]}

    def oracle_layer(self, case, obs):
        fails = []
        n = case["n"]
        sent = {int(k): v for k, v in obs["sent"].items()}
        if obs["crash"]:
            fails.append("exception out of the layer stack: " + obs["crash"][0])
        if obs["client_failure"]:
            fails.append("the client peer rejects what mitmproxy sent: " + obs["client_failure"])
        for v in obs["client_violations"][:2]:
            fails.append("towards the client: " + v)
        # (1) "every flow carries exactly the headers, body and trailers of its own stream"
        for name, xid, content, has_trl in obs["flows"]:
            if name == "request" and xid is not None and not case.get("stream"):
                s = sent[xid]
                if content is not None and unhx(content) != unhx(s["body_hex"]):
                    fails.append(f"flow of stream {xid} carries a body that is not the one sent on that stream")
                if has_trl != s["trailers"]:
                    fails.append(f"flow of stream {xid}: trailers {'present' if has_trl else 'missing'}")
        # (2) upstream: own server stream, opened once, content of its own client stream
        seen = {}
        for ci, up in enumerate(obs["ups"]):
            if up["failure"]:
                fails.append(f"the server peer rejects what mitmproxy sent: {up['failure']}")
            # "opened only while the server's concurrency limit allows"; flow-control windows respected
            for v in up["violations"][:2]:
                fails.append("upstream: " + v)
            for sid in up["order"]:
                s = up["streams"][str(sid)]
                xid = None
                for k, v in s["headers"] or []:
                    if unhx(k) == b"x-id": xid = int(unhx(v))
                if xid is None or xid not in sent:
                    fails.append(f"upstream stream {sid} carries no known x-id"); continue
                if xid in seen:
                    fails.append(f"client stream {xid} was opened twice upstream ({seen[xid]} and conn{ci}/{sid})")
                seen[xid] = f"conn{ci}/{sid}"
                body, src = unhx(s["body_hex"]), unhx(sent[xid]["body_hex"])
                if not src.startswith(body):
                    fails.append(f"upstream stream {sid} (client stream {xid}) carries bytes that were not sent on that client stream")
                if s["ended"] and s["reset"] is None and body != src:
                    fails.append(f"upstream stream {sid} (client stream {xid}) ended after {len(body)} of {len(src)} body bytes")
                if s["trailers"] is not None:
                    tv = [unhx(v) for k, v in s["trailers"] if unhx(k) == b"x-trailer"]
                    if tv != [b"%d" % xid]: fails.append(f"upstream stream {sid} carries the trailers of another stream: {tv}")
                if s["ended"] and s["reset"] is None and sent[xid]["trailers"] and s["trailers"] is None:
                    fails.append(f"upstream stream {sid} (client stream {xid}) lost its trailers")
        # (3) "streams waiting for capacity are opened in arrival order": order of first appearance upstream
        #     = order in which the requests were handed to the upstream connection (hook order)
        # a request is handed to the upstream connection when its last hook before that completes: requestheaders for a
        # streamed request (streaming on and the HEADERS frame did not end the stream), request otherwise
        def release(xid):
            return "requestheaders" if case.get("stream") and not obs["fins"].get(str(xid)) else "request"
        hook_order = [xid for name, xid, _, _ in obs["flows"] if xid is not None and name == release(xid)]
        if obs["ups"]:
            first = obs["ups"][0]
            opened = []
            for sid in first["order"]:
                for k, v in first["streams"][str(sid)]["headers"] or []:
                    if unhx(k) == b"x-id": opened.append(int(unhx(v)))
            expect = [x for x in hook_order if x in opened]
            if opened != expect:
                fails.append(f"upstream streams opened in order {opened}, requests arrived in order {expect}")
        # (4) "each response or reset reaches the client on the stream of the request it answers" / none lost
        if obs["ups"]:
            first = obs["ups"][0]
            for sid in first["order"]:
                a = obs["answered"].get(f"server0/{sid}")
                s = first["streams"][str(sid)]
                xid = None
                for k, v in s["headers"] or []:
                    if unhx(k) == b"x-id": xid = int(unhx(v))
                if a is None or xid is None: continue
                c = obs["client"].get(str(2 * xid + 1))
                if sent[xid]["reset"]: continue
                if a["ended"] and not a["reset"] and obs["drained"] and not obs["dead"] and s["reset"] is None:
                    if c is None or c["headers"] is None:
                        fails.append(f"the response to client stream {xid} never reached the client"); continue
                    j = [unhx(v) for k, v in c["headers"] if unhx(k) == b"x-resp"]
                    if j != [b"%d" % a["j"]]:
                        fails.append(f"client stream {xid} received the response of another request: x-resp {j}, expected {a['j']}")
                    elif unhx(c["body_hex"]) != unhx(a["body_hex"]) or (not c["ended"] and sent[xid]["ended"]):
                        # (mitmproxy ends the response stream only once the request is complete as well)
                        fails.append(f"client stream {xid}: response body {len(unhx(c['body_hex']))}/{len(unhx(a['body_hex']))} bytes, ended={c['ended']}")
        for sid, c in obs["client"].items():
            xid = (int(sid) - 1) // 2
            if c["headers"] is None: continue
            j = [unhx(v) for k, v in c["headers"] if unhx(k) == b"x-resp"]
            if j and xid in seen:
                # the response must be the one the server gave on the upstream stream of this client stream
                conn, usid = seen[xid].split("/")
                if conn == "conn0":
                    a = obs["answered"].get(f"server0/{usid}")
                    if a is None or j != [b"%d" % a["j"]]:
                        fails.append(f"client stream {xid} received a response (x-resp {j}) that was not given to its request")
                    elif not unhx(a["body_hex"]).startswith(unhx(c["body_hex"])):
                        fails.append(f"client stream {xid} received body bytes that are not from its response")
        # "opened only while the server's concurrency limit allows; streams waiting for capacity are opened ...": a
        # complete request must not be left waiting while the server — by its own count of open streams against the limit
        # it announced — has a free slot (everything has been delivered both ways at this point)
        sl = obs.get("slots")
        if obs["drained"] and sl and not sl["pending_settings"] and not obs["crash"] and len(obs["ups"]) == 1:
            waiting = [i for i, s in sent.items() if s["headers"] and s["ended"] and not s["reset"] and i not in seen
                       and not ((obs["client"].get(str(2 * i + 1)) or {}).get("headers") or (obs["client"].get(str(2 * i + 1)) or {}).get("reset") is not None)]
            free = sl["limit"] is None or sl["open"] < sl["limit"]
            if waiting and free and obs["client_terminated"] is None:
                fails.append(f"client streams {waiting} are still waiting although the server has a free slot "
                             f"({sl['open']} open, MAX_CONCURRENT_STREAMS={sl['limit']})")
        # none lost: a request that was completely delivered is, after the drain, either opened upstream or failed
        if obs["drained"]:
            for i, s in sent.items():
                if not (s["headers"] and s["ended"]) or s["reset"]: continue
                c = obs["client"].get(str(2 * i + 1))
                answered_somehow = c is not None and (c["headers"] is not None or c["reset"] is not None)
                # (a stream may keep waiting only while the server, by its own count, has no free slot)
                no_slot = sl is not None and sl["limit"] is not None and sl["open"] >= sl["limit"]
                if i not in seen and not answered_somehow and obs["client_terminated"] is None and not no_slot:
                    fails.append(f"client stream {i} was neither opened upstream nor answered (lost)")
                if i in seen and not answered_somehow and obs["client_terminated"] is None and not obs["crash"]:
                    fails.append(f"client stream {i} was opened upstream but never answered nor failed")
        return fails

    # ---------------------------------------------------------------- dispatch
    def impl(self, case):
        return self.impl_buf(case) if case["kind"] == "buf" else self.impl_layer(case)

    def oracle(self, case, obs):
        return self.oracle_buf(case, obs) if case["kind"] == "buf" else self.oracle_layer(case, obs)

    # ---------------------------------------------------------------- model tie
    def model_lines(self, case):
        key, obs = self._memo
        if key != json.dumps(case, sort_keys=True): return None
        if case["kind"] == "buf":
            if obs["crash"]: return None
            return ["reset"] + [s["line"] for s in obs["steps"]]
        if obs["nclients"] != 1: return None           # several upstream connections: each would need its own model instance
        lines = ["reset"]
        for r in obs["tap"]:
            if r["in"] is not None: lines.append(r["in"])
        # HttpLayer.streams has its own state in the driver: its operations are replayed after the client's
        return lines + [x[0] for x in obs["lops"]]

    _memo = (None, None)

    def model_obs(self, case, replies):
        if case["kind"] == "buf":
            out = []
            for r in replies[1:]:
                d = dict(x.split("=", 1) for x in r.split(" ") if "=" in x)
                out.append(f"F={d.get('F')} B={d.get('B')}" if d else r)
            return out
        return [self._canon(x) for x in replies[1:]]

    def impl_view(self, case, obs):
        if case["kind"] == "buf":
            return [self._buf_view(s) for s in obs["steps"]]
        dec = FrameDecoder(False)
        out = []
        for r in obs["tap"]:
            frames = dec.feed(unhx(r["bytes_hex"]))
            if r["in"] is None: continue
            out.append(f"F={jo(frames)} U={jo(r['ups'])} Q={jo(r['q'])} M={jo(r['m'])} O={r['o']} B={jo(r['b'])} "
                       f"X={1 if r['closed'] else 0}{1 if r['exc'] else 0}"
                       # the hypotheses of the theorems (Good, Good2), evaluated by the model driver on every event the
                       # real HttpStream handed to Http2Client: they must hold
                       + (" G=11" if r["in"].startswith("c ") else ""))
        return [self._canon(x) for x in out] + [x[1] for x in obs["lops"]]

    @staticmethod
    def _canon(line):
        """once the connection is closed nothing is written to it any more: what is left in the send buffers (hyper-h2
        raises in the middle of BufferedH2Connection.receive_data when a WINDOW_UPDATE comes with a GOAWAY) is not compared"""
        d = dict(x.split("=", 1) for x in line.split(" ") if "=" in x)
        if d.get("X", "00")[0] == "1":
            d["B"] = "*"
        return " ".join(f"{k}={v}" for k, v in d.items())

    @staticmethod
    def _buf_view(s):
        return f"F={jo(s['frames'])} B={jo(s['b'])}"

    # ---------------------------------------------------------------- bookkeeping
    def classify(self, case, obs):
        if case["kind"] == "buf":
            return json.dumps(case, sort_keys=True) if any(s["b"] for s in obs["steps"]) else None
        return json.dumps(case, sort_keys=True) if obs["ups"] and len(obs["ups"][0]["order"]) >= 2 else None

    def branches(self, case, obs):
        if case["kind"] == "buf":
            out = ["buf"]
            if any(s["b"] for s in obs["steps"]): out.append("buf:buffered")
            if any(len(s["b"]) > 1 for s in obs["steps"]): out.append("buf:two-streams-buffered")
            return out
        out = ["layer", "layer:stream" if case.get("stream") else "layer:buffered"]
        if any(r["q"] for r in obs["tap"]): out.append("layer:queued")
        if any(len(r["q"]) > 1 for r in obs["tap"]): out.append("layer:queue>=2")
        if any(r["b"] for r in obs["tap"]): out.append("layer:send-buffered")
        if obs["dead"]: out.append("layer:upstream-closed")
        if case.get("drain") == 2: out.append("layer:limit-kept-small")
        if any(s["reset"] for s in obs["sent"].values()) and case.get("s_maxc"): out.append("layer:cancelled-under-limit")
        if obs["nclients"] > 1: out.append("layer:second-upstream-connection")
        if any(s["reset"] for s in obs["sent"].values()): out.append("layer:client-reset")
        if any(a["reset"] for a in obs["answered"].values()): out.append("layer:server-reset")
        if obs["ups"]: out.append(f"layer:upstream-streams={min(len(obs['ups'][0]['order']), 6)}")
        return out


# impl() must remember the observable for model_lines (same process, called right after impl)
_impl = Check.impl


def _impl_memo(self, case):
    obs = _impl(self, case)
    self._memo = (json.dumps(case, sort_keys=True), obs)
    return obs


Check.impl = _impl_memo
