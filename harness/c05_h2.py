"""Shared helpers of the C05/C06 checks: in-memory HTTP/2 peers and a rig that runs the real
HttpLayer (Http2Server/Http1Server -> HttpStream -> Http2Client/Http1Client) in harness/common/world.py.

The peers are independent h2.connection.H2Connection *instances* (same library as mitmproxy uses, separate state);
outbound validation and normalisation are switched off so that adversarial header blocks leave them unchanged, and
inbound validation is switched off so that they report whatever mitmproxy emitted.
"""
import h2.config
import h2.connection
import h2.errors
import h2.events
import h2.exceptions
import h2.settings

from common.world import World, make_context
from mitmproxy.proxy.layers.http import HttpLayer, HTTPMode

SERVER_ADDR = ("example.com", 80)


def raw_conn(client_side: bool) -> h2.connection.H2Connection:
    conf = h2.config.H2Configuration(
        client_side=client_side, header_encoding=False,
        validate_outbound_headers=False, normalize_outbound_headers=False,
        validate_inbound_headers=False, normalize_inbound_headers=False)
    return h2.connection.H2Connection(conf)


class StreamRec:
    __slots__ = ("headers", "data", "trailers", "ended", "reset", "frames", "info")

    def __init__(self):
        self.headers, self.data, self.trailers, self.ended, self.reset = None, bytearray(), None, False, None
        self.frames = []     # ("H", end) / ("D", n) / ("T",) / ("E",) / ("R", code) in arrival order
        self.info = []       # informational (1xx) header blocks

    def view(self):
        return {"headers": None if self.headers is None else [[bytes(k).hex(), bytes(v).hex()] for k, v in self.headers],
                "body_hex": bytes(self.data).hex(),
                "trailers": None if self.trailers is None else [[bytes(k).hex(), bytes(v).hex()] for k, v in self.trailers],
                "ended": self.ended, "reset": self.reset}


class Peer:
    """h2 endpoint talking to the proxy; decodes everything the proxy sends into per-stream records"""

    def __init__(self, client_side: bool, settings=None):
        self.client_side = client_side
        self.c = raw_conn(client_side)
        if settings:
            for k, v in settings.items():
                self.c.local_settings[k] = v
            # hyper-h2 pitfall: un-acknowledged local changes are not what initiate_connection() announces
            self.c.local_settings.acknowledge()
        self.c.initiate_connection()
        self.streams = {}          # stream id -> StreamRec
        self.order = []            # stream ids in the order their first HEADERS arrived
        self.terminated = None     # GOAWAY error code
        self.failure = None        # the peer itself found a protocol violation in what the proxy sent
        self.log = []              # (stream_id, frame tuple) in arrival order
        self.auto_ack = True       # acknowledge received DATA at once (keeps the proxy's send window open)

    def rec(self, sid):
        if sid not in self.streams:
            self.streams[sid] = StreamRec()
        return self.streams[sid]

    def take(self) -> bytes:
        return self.c.data_to_send()

    def feed(self, data: bytes):
        if not data or self.failure: return []
        try:
            evs = self.c.receive_data(data)
        except h2.exceptions.ProtocolError as e:
            self.failure = f"{type(e).__name__}: {e}"
            return []
        for e in evs:
            self._event(e)
        return evs

    def _note(self, sid, fr):
        self.rec(sid).frames.append(fr); self.log.append((sid, fr))

    def _event(self, e):
        if isinstance(e, (h2.events.RequestReceived, h2.events.ResponseReceived)):
            r = self.rec(e.stream_id)
            if r.headers is None: self.order.append(e.stream_id)
            r.headers = list(e.headers)
            self._note(e.stream_id, ("H", bool(e.stream_ended)))
        elif isinstance(e, h2.events.InformationalResponseReceived):
            self.rec(e.stream_id).info.append(list(e.headers))
        elif isinstance(e, h2.events.DataReceived):
            self.rec(e.stream_id).data += e.data
            self._note(e.stream_id, ("D", len(e.data)))
            if self.auto_ack and e.flow_controlled_length:
                try:
                    self.c.acknowledge_received_data(e.flow_controlled_length, e.stream_id)
                except h2.exceptions.ProtocolError:
                    pass
        elif isinstance(e, h2.events.TrailersReceived):
            self.rec(e.stream_id).trailers = list(e.headers)
            self._note(e.stream_id, ("T",))
        elif isinstance(e, h2.events.StreamEnded):
            self.rec(e.stream_id).ended = True
            self._note(e.stream_id, ("E",))
        elif isinstance(e, h2.events.StreamReset):
            self.rec(e.stream_id).reset = int(e.error_code)
            self._note(e.stream_id, ("R", int(e.error_code)))
        elif isinstance(e, h2.events.ConnectionTerminated):
            self.terminated = int(e.error_code)

    # guarded senders: a script may ask for a frame the peer's own state machine forbids -> False (step skipped)
    def do(self, fn, *a, **kw):
        try:
            fn(*a, **kw); return True
        except (h2.exceptions.ProtocolError, h2.exceptions.H2Error, KeyError, ValueError):
            return False


class AccountingPeer(Peer):
    """A peer that ADVERTISES limits (MAX_CONCURRENT_STREAMS, INITIAL_WINDOW_SIZE) without letting its own h2 instance
    enforce them, and keeps its own books instead: `violations` lists every frame of the proxy that exceeds what had
    been granted.  A lowered limit binds the proxy only once it has acknowledged the SETTINGS frame (RFC 9113 6.5.3);
    a raised limit and every WINDOW_UPDATE may be used as soon as it was sent.  Frames are fed to h2 one at a time so
    that the state seen at each event is the state at that frame."""

    BIG = 2 ** 30

    def __init__(self, client_side: bool, settings=None):
        self.client_side = client_side
        self.c = raw_conn(client_side)
        adv = dict(settings or {})
        for k, v in adv.items():
            self.c.local_settings[k] = v
        self.c.local_settings.acknowledge()
        self.c.initiate_connection()
        # what our own h2 instance enforces: nothing
        self.c.local_settings[h2.settings.SettingCodes.MAX_CONCURRENT_STREAMS] = self.BIG
        self.c.local_settings[h2.settings.SettingCodes.INITIAL_WINDOW_SIZE] = self.BIG
        self.c.local_settings.acknowledge()
        from h2.windows import WindowManager
        self.c._inbound_flow_control_window_manager = WindowManager(self.BIG)
        self.streams, self.order, self.terminated, self.failure, self.log = {}, [], None, None, []
        self.auto_ack = False
        self.violations = []
        self.pending = [adv]                    # advertised, not yet acknowledged SETTINGS (oldest first)
        self.maxc = None                        # binding MAX_CONCURRENT_STREAMS (None: unlimited)
        self.iws = 65535                        # binding INITIAL_WINDOW_SIZE
        self.iws_lenient = max(65535, adv.get(h2.settings.SettingCodes.INITIAL_WINDOW_SIZE, 0))
        self.conn_credit = 65535
        self.credit = {}                        # stream id -> bytes the proxy may still send
        self.inbuf = b""
        self.preface = not client_side

    def advertise(self, settings):
        from hyperframe.frame import SettingsFrame
        f = SettingsFrame(0); f.settings = dict(settings)
        self.c._data_to_send += f.serialize()
        self.pending.append(dict(settings))
        w = settings.get(h2.settings.SettingCodes.INITIAL_WINDOW_SIZE)
        if w is not None and w > self.iws_lenient:
            for sid in self.credit: self.credit[sid] += w - self.iws_lenient
            self.iws_lenient = w
        return True

    def grant(self, n, sid=None):
        """WINDOW_UPDATE"""
        if not self.do(self.c.increment_flow_control_window, n, sid): return False
        if sid is None: self.conn_credit += n
        else: self.credit[sid] = self.credit.get(sid, self.iws_lenient) + n
        return True

    def feed(self, data: bytes):
        if not data or self.failure: return []
        self.inbuf += data
        out = []
        if self.preface:
            if len(self.inbuf) < 24: return out
            out += self._feed1(self.inbuf[:24]); self.inbuf = self.inbuf[24:]; self.preface = False
        while len(self.inbuf) >= 9 and not self.failure:
            n = int.from_bytes(self.inbuf[:3], "big")
            if len(self.inbuf) < 9 + n: break
            out += self._feed1(self.inbuf[:9 + n]); self.inbuf = self.inbuf[9 + n:]
        return out

    def _feed1(self, frame):
        try:
            evs = self.c.receive_data(frame)
        except h2.exceptions.ProtocolError as e:
            self.failure = f"{type(e).__name__}: {e}"
            return []
        for e in evs:
            self._account(e)
            self._event(e)
        return evs

    def _account(self, e):
        SCODE = h2.settings.SettingCodes
        if isinstance(e, h2.events.SettingsAcknowledged):
            if self.pending:
                s = self.pending.pop(0)
                if SCODE.MAX_CONCURRENT_STREAMS in s: self.maxc = s[SCODE.MAX_CONCURRENT_STREAMS]
                if SCODE.INITIAL_WINDOW_SIZE in s:
                    self.iws = s[SCODE.INITIAL_WINDOW_SIZE]
                    # the lenient bound: the largest value still allowed to the proxy
                    new_len = max([self.iws] + [p[SCODE.INITIAL_WINDOW_SIZE] for p in self.pending if SCODE.INITIAL_WINDOW_SIZE in p])
                    if new_len != self.iws_lenient:
                        for sid in self.credit: self.credit[sid] += new_len - self.iws_lenient
                        self.iws_lenient = new_len
        elif isinstance(e, h2.events.RequestReceived):
            self.credit[e.stream_id] = self.iws_lenient
            limit = self.maxc
            for p in self.pending:       # a higher limit may be used before it is acknowledged
                v = p.get(SCODE.MAX_CONCURRENT_STREAMS)
                if v is not None and (limit is None or v > limit): limit = v
            if self.maxc is not None and limit is not None and self.c.open_inbound_streams > limit:
                self.violations.append(f"stream {e.stream_id} opened as number {self.c.open_inbound_streams} while MAX_CONCURRENT_STREAMS={limit} was acknowledged")
        elif isinstance(e, h2.events.ResponseReceived):
            self.credit.setdefault(e.stream_id, self.iws_lenient)
        elif isinstance(e, h2.events.DataReceived):
            n = e.flow_controlled_length
            self.conn_credit -= n
            self.credit[e.stream_id] = self.credit.get(e.stream_id, self.iws_lenient) - n
            if self.conn_credit < 0:
                self.violations.append(f"DATA on stream {e.stream_id} exceeds the connection window by {-self.conn_credit}")
            if self.credit[e.stream_id] < 0:
                self.violations.append(f"DATA on stream {e.stream_id} exceeds the stream window by {-self.credit[e.stream_id]}")

    def open_response_credit(self, sid):
        """client side: a stream we opened gets the advertised window for the response"""
        self.credit.setdefault(sid, self.iws_lenient)


class Rig:
    """real HttpLayer in transparent mode; client side HTTP/1 or HTTP/2, upstream HTTP/1 or HTTP/2"""

    def __init__(self, cv=2, sv=2, stream_req=False, stream_resp=False, optkw=None, server_settings=None,
                 client_settings=None, on_hook=None, peer_cls=Peer):
        self.peer_cls = peer_cls
        ctx = make_context()
        ctx.client.alpn = b"h2" if cv == 2 else b"http/1.1"
        ctx.server.address = SERVER_ADDR
        ctx.options.validate_inbound_headers = True
        ctx.options.http2_ping_keepalive = 0
        for k, v in (optkw or {}).items():
            setattr(ctx.options, k, v)
        self.cv, self.sv, self.ctx = cv, sv, ctx
        self.snap = []       # (hook name, snapshot dict) in order
        self.flows = []      # flows in requestheaders order
        self.extra_hook = on_hook

        def hook(w, h):
            name = h.name
            f = getattr(h, "flow", None) if hasattr(h, "flow") else None
            if f is None and h.args():
                f = h.args()[0]
            if name == "requestheaders":
                self.flows.append(f)
                if stream_req: f.request.stream = True
            if name == "responseheaders" and stream_resp and f.response is not None:
                f.response.stream = True
            if name in ("requestheaders", "request", "responseheaders", "response", "error"):
                self.snap.append((name, snapshot(f), self.flows.index(f) if f in self.flows else -1))
            if self.extra_hook:
                return self.extra_hook(w, h)
            return None

        def on_connect(w, cmd):
            cmd.connection.alpn = b"h2" if sv == 2 else None
            return None

        self.w = World(HttpLayer(ctx, HTTPMode.transparent), ctx, on_hook=hook, on_connect=on_connect)
        self.w.start()
        self.cpeer = peer_cls(True, client_settings) if cv == 2 else None
        self.speers = {}      # server label -> Peer (sv == 2)
        self.server_settings = server_settings
        self.pos = {}

    # ---- plumbing -----------------------------------------------------------------------------
    def new_from_proxy(self, label) -> bytes:
        d = self.w.sent_to(label); p = self.pos.get(label, 0)
        self.pos[label] = len(d)
        return d[p:]

    def speer(self, label):
        if label not in self.speers:
            self.speers[label] = self.peer_cls(False, self.server_settings)
        return self.speers[label]

    def pump_out(self):
        """hand everything the proxy has written to the peers (decode only; nothing is sent back)"""
        if self.cpeer is not None:
            self.cpeer.feed(self.new_from_proxy("client"))
        if self.sv == 2:
            for lab in self.w.server_labels():
                d = self.new_from_proxy(lab)
                if d: self.speer(lab).feed(d)

    def client_send(self, data: bytes):
        ok = self.w.recv("client", data)
        self.pump_out()
        return ok

    def server_send(self, label, data: bytes):
        ok = self.w.recv(label, data)
        self.pump_out()
        return ok

    def flush_peers(self, segs=None):
        """deliver what the h2 peers have pending (settings, acks, window updates, scripted frames)"""
        progress = False
        if self.cpeer is not None:
            d = self.cpeer.take()
            if d:
                progress = True
                for s in (segs(d) if segs else [d]): self.w.recv("client", s)
        for lab, p in list(self.speers.items()):
            d = p.take()
            if d:
                progress = True
                for s in (segs(d) if segs else [d]): self.w.recv(lab, s)
        self.pump_out()
        return progress

    def settle(self, limit=50):
        n = 0
        while self.flush_peers() and n < limit:
            n += 1


def fields_view(headers):
    return [[bytes(k).hex(), bytes(v).hex()] for k, v in headers.fields]


def snapshot(f):
    d = {}
    rq = f.request
    if rq is not None:
        d["request"] = {"method": rq.data.method.hex(), "scheme": rq.data.scheme.hex(), "authority": rq.data.authority.hex(),
                        "path": rq.data.path.hex(), "version": rq.data.http_version.decode("latin-1"),
                        "fields": fields_view(rq.headers),
                        "content": None if rq.raw_content is None else rq.raw_content.hex(),
                        "trailers": None if rq.trailers is None else fields_view(rq.trailers)}
    rs = f.response
    if rs is not None:
        d["response"] = {"status": rs.status_code, "reason": rs.data.reason.hex(), "version": rs.data.http_version.decode("latin-1"),
                         "fields": fields_view(rs.headers),
                         "content": None if rs.raw_content is None else rs.raw_content.hex(),
                         "trailers": None if rs.trailers is None else fields_view(rs.trailers)}
    if f.error is not None:
        d["error"] = True
    return d
