"""C06 — translating between HTTP versions preserves message semantics.

Anchors: mitmproxy/proxy/layers/http/_http2.py (parse_h2_request_headers, split_pseudo_headers, parse_h2_response_headers,
format_h2_request_headers, format_h2_response_headers, normalize_h1_headers), _http1.py (Http1Client.send / Http1Server.send
conversion of HTTP/2 messages), net/http/http1/assemble.py, layers/http/__init__.py (validate_request) and
net/http/validate.py (validate_headers), with h2's inbound validator switched on (validate_inbound_headers).

A case is one exchange — a request from the client and the response of the server — over a (client version, server
version) pair in {1,2}x{1,2}, driven through the real HttpLayer in harness/common/world.py (transparent mode).  HTTP/2
sides are raw in-memory h2 peers (harness/c05_h2.py), HTTP/1 sides are byte strings; what mitmproxy writes to an HTTP/1
hop is parsed by the independent strict RFC 9112 parser harness/common/refparsers.py.
"""
import json, re

from common.check import PropertyCheck, Skip, hx, unhx
from common import refparsers as ref
from c05_h2 import Rig, Peer, AccountingPeer
import h2.settings

from mitmproxy.connection import ConnectionState
from mitmproxy.net.http import status_codes, url

HOP = {b"connection", b"proxy-connection", b"keep-alive", b"transfer-encoding", b"upgrade"}
FRAMING = {b"content-length", b"transfer-encoding"}
TOKEN = re.compile(rb"[!#$%&'*+\-.^_`|~0-9A-Za-z]+\Z")


def P(pairs):           # [(bytes, bytes)] -> json
    return [[hx(k), hx(v)] for k, v in pairs]


def U(pairs):           # json -> [(bytes, bytes)]
    return [(unhx(k), unhx(v)) for k, v in (pairs or [])]


def enc_pairs(pairs):   # driver line encoding
    return ",".join(f"{hx(k)}:{hx(v)}" for k, v in pairs) if pairs else "-"


def split_block(block):
    """pseudo-header part / regular part of an h2 header block as a well-formed sender means it"""
    i = 0
    while i < len(block) and block[i][0].startswith(b":"):
        i += 1
    return block[:i], block[i:]


def chunk_encode(body, k):
    if not body: return b"0\r\n\r\n"
    n = max(1, len(body) // max(1, k))
    out = b""
    for i in range(0, len(body), n):
        c = body[i:i + n]
        out += b"%x\r\n%s\r\n" % (len(c), c)
    return out + b"0\r\n\r\n"


class Src:
    """what the sender of a message put on the wire, read as the sender means it"""

    def __init__(self, case, which):
        m = case[which]
        self.version = case["cv"] if which == "req" else case["sv"]
        self.body = unhx(m.get("body_hex", "-"))
        self.trailers = U(m.get("trailers"))
        self.wellformed = True
        if self.version == 2:
            block = U(m["block"])
            pseudo, self.fields = split_block(block)
            self.pseudo = pseudo
            names = [k for k, _ in pseudo]
            if len(set(names)) != len(names) or any(k.startswith(b":") for k, _ in self.fields):
                self.wellformed = False
            d = dict(pseudo)
            if which == "req":
                self.method, self.scheme = d.get(b":method"), d.get(b":scheme")
                self.path, self.authority = d.get(b":path"), d.get(b":authority", b"")
                if self.method is None or self.scheme is None or self.path is None or set(d) - {b":method", b":scheme", b":path", b":authority"}:
                    self.wellformed = False
                if not self.authority:
                    hosts = [v for k, v in self.fields if k.lower() == b"host"]
                    self.authority = hosts[0] if hosts else b""
            else:
                self.status_raw = d.get(b":status")
                if self.status_raw is None or set(d) - {b":status"}:
                    self.wellformed = False
                self.status = int(self.status_raw) if self.status_raw is not None and re.fullmatch(rb"[0-9]{3}", self.status_raw) else None
        else:
            self.fields = U(m["fields"])
            # an HTTP/1 sender's meaning is only defined if the strict reader accepts its bytes (HTTP/1 input
            # ambiguities are C01's subject)
            if which == "req":
                p = ref.parse_requests(Check.h1_request_bytes(m))
            else:
                p = ref.parse_responses(Check.h1_response_bytes(m), methods=None, eof=True)
            if len(p.messages) != 1 or p.stop is not None:
                self.wellformed = False
            if which == "req":
                self.method, self.path, self.scheme = unhx(m["method"]), unhx(m["target"]), b"http"
                hosts = [v.strip(b" \t") for k, v in self.fields if k.lower() == b"host"]
                self.authority = hosts[0] if hosts else b""
            else:
                self.status = m["status"]


def canon_fields(fields, drop_hop):
    out, cookies, cl = [], [], []
    for k, v in fields:
        n = k.lower()
        v = v.strip(b" \t")
        if n == b"cookie": cookies.append(v); continue
        if n == b"content-length": cl.append(v); continue
        if n == b"host" or n in FRAMING: continue
        if drop_hop and n in HOP: continue
        out.append((n, v))
    return out, b"; ".join(cookies).strip(b" \t"), cl


class Check(PropertyCheck):
    prop = "C06"
    design_ref = "§5 C06"
    level_text = ("Lean theorems about the executable model of the HTTP/2<->HTTP/1 conversion code (split_pseudo_headers, "
                  "parse_h2_request_headers / parse_h2_response_headers, validate_request + validate_headers, "
                  "Http1Client.send's Host insertion / Cookie joining / Content-Length for a buffered body, "
                  "assemble_request_head, the reason phrase table, format_h2_request/response_headers with h2's "
                  "normalize_outbound_headers): h2_to_h1_single_message — for EVERY header block that hyper-h2's validator "
                  "(H2Valid, transcribed from h2/utilities.py) and the model of mitmproxy's checks accept, with a buffered body "
                  "obeying h2's content-length law, the HTTP/1 bytes written are read by a strict RFC 9112 reference reader "
                  "written in Lean as exactly ONE message with the same method, path, fields and body; h2_to_h1_host / "
                  "_cookie / _other_fields say what that field list is (Host from :authority, cookies joined with '; ', "
                  "everything else unchanged and in order); h1_to_h2 (+ _names), h2_to_h2 are parse-back theorems for the "
                  "blocks written over HTTP/2; the STREAMED conversion (flow.request.stream) is modelled too (h2ToH1Streamed): "
                  "its full statement h2_to_h1_streamed_single_message is refuted by h2_to_h1_streamed_single_message_"
                  "counterexample (the F-C06a witness: a streamed body without content-length is read as a second request) and "
                  "proved as h2_to_h1_streamed_single_message_partial under the decidable guard streamedFramed (the head "
                  "carries a content-length or there is no body); h2_to_h1_response_single_message is the RESPONSE direction: "
                  "for every final response block h2's validator and mitmproxy's checks accept, what Http1Server writes to an "
                  "HTTP/1 client is read by the response side of the Lean reference reader (Ref.parseResp: status line, "
                  "no body for HEAD/1xx/204/304, content-length, else close-delimited — closeAfter says exactly when the "
                  "connection must close) as exactly ONE response with the same status, fields and body; "
                  "cl_law_from_h2_check / resp_cl_law_from_h2_check derive the content-length hypothesis of these theorems "
                  "from h2ClOk, the transcription of hyper-h2's _track_content_length (now part of the model, tied to the "
                  "library on every case) — h2_to_h1_single_message_checked / h2_to_h1_response_single_message_checked — "
                  "except for the one input class where hyper-h2 checks nothing (END_STREAM on HEADERS with a non-zero "
                  "content-length: findings F-C06b/c, the explicit guard of the _checked theorems); h2_to_h2_trailers: "
                  "trailers forwarded HTTP/2 -> HTTP/2 are emitted exactly as received and pass the next hop's validator; "
                  "status_preserved "
                  "covers the three response conversions, h2_to_h2_response / h1_to_h2_response are the parse-back theorems for "
                  "RESPONSES written over HTTP/2 (same status; fields as received, resp. lower-cased / stripped / without the "
                  "connection-specific ones, in order); cl_law_trailers_counterexample / h2_to_h1_trailers_counterexample: for a "
                  "stream ended by a TRAILERS frame hyper-h2's check passes with fewer bytes than announced and both the law and "
                  "the single-message conclusion are false (findings F-C06d/e) — the _checked theorems carry endOnTrailers := "
                  "false explicitly; conversion_keeps_message (a RESTATEMENT OF A MODELLING DECISION — sendRequest returns its "
                  "argument, sendRequest/sendAll are not run by the driver — kept as documentation; the claim about the code "
                  "rests on the oracle's stored-before/after clause and the replay passes): sending "
                  "leaves the recorded request unchanged and every later send of the same flow emits what the first would "
                  "(the model's sendAll over any history of hops) — the harness checks both on the real code: the recorded "
                  "request/response state before and after it was sent must be equal (non-interference clause), and the "
                  "recorded flow is replayed once or twice through clientplayback's MockServer stack towards HTTP/1 and "
                  "HTTP/2 servers, each pass judged by the same conversion oracle and compared with the model. The model is tied to "
                  "the real layers by byte-exact differential runs over all four (client, server) version pairs with "
                  "adversarial header blocks, and the Lean reference reader to harness/common/refparsers.py on every byte "
                  "string mitmproxy wrote to an HTTP/1 server (op refparse) and, for its response-stream / close-delimited "
                  "side, on every byte string mitmproxy wrote to an HTTP/1 client (op refresp: same framing decision, same "
                  "messages, same leftover).")
    level_note = ("trusted / not proved: that hyper-h2 enforces H2Valid and its content-length check h2ClOk (the "
                  "transcriptions are tied to the library by the differential run on every case; the law 'content-length = "
                  "body length' itself is no longer a hypothesis but derived from h2ClOk in the _checked theorems, with the two "
                  "holes explicit: END_STREAM on the HEADERS frame (findings F-C06b/c, guard hguard) and a stream ended by "
                  "trailers (findings F-C06d/e, argument endOnTrailers := false, refuted otherwise by "
                  "cl_law_trailers_counterexample)); h2_to_h2 is exercised against the code for scheme = http only (transparent "
                  "mode takes the scheme from the transport; the theorem holds for every scheme); url.parse_authority (its verdict is a parameter); hpack. PARTIAL: the streamed "
                  "(flow.request.stream) request conversion violates the property for bodies without content-length (finding "
                  "F-C06a, pinned by an upstream test): the code does NOT re-frame such a body as chunked, so the theorem is "
                  "_partial + _counterexample, and the model reproduces the defect byte for byte in the differential run; "
                  "streamed RESPONSES towards HTTP/1 without content-length are close-delimited: the theorem "
                  "h2_to_h1_response_single_message covers them only together with the connection closing after the "
                  "message (closeAfter), which on the real code is checked by the oracle. "
                  "HTTP/3 is NOT exercised: Http3Server/Http3Client share parse_h2_request_headers / format_h2_*_headers and "
                  "the Http1 conversion with HTTP/2 (covered), the aioquic H3 framing is not. Trailers are only required to "
                  "survive HTTP/2 -> HTTP/2 (oracle + model): mitmproxy has no HTTP/1 trailer support, an HTTP/1 hop is "
                  "treated as unable to carry them. The Lean reference reader refuses obs-fold (stricter than the Python one). "
                  "The rig runs HttpLayer in transparent mode over plain TCP. LENIENT BRANCHES of the oracle, all of "
                  "them: (1) mitmproxy's own error pages (error hook fired and connection closed) are not judged as converted "
                  "messages; (2) an incomplete upstream HTTP/1 request / unended HTTP/2 request stream is tolerated only when the "
                  "exchange did NOT complete (no request hook or an error hook); (3) the scheme is compared only when the client "
                  "said http (transparent mode takes it from the transport); (4) HTTP/1-sourced messages are compared field by "
                  "field only if the strict reference reader accepts the bytes the harness sent (HTTP/1 ambiguities are C01); "
                  "(5) no body comparison for HEAD/204/304/1xx towards or from HTTP/1 (framing is still checked); (6) Host and the "
                  "framing fields are compared as authority / by framing, not as ordinary fields, cookies as their '; ' join; "
                  "hop-by-hop fields may disappear HTTP/1 -> HTTP/2; (7) replays are judged only when the first pass was clean; "
                  "(8) the recorded findings F-C06a..e, each excused only for its exact input class AND failure clause AND "
                  "bytes written (known_selftest with near misses runs on every start). Timing: the response may complete "
                  "before, between or after the pieces of a streamed request body, with a second exchange in between "
                  "(HTTP/2 upstream); flow-control windows smaller than the bodies on the HTTP/2 sides.")
    technique = "Lean 4 proof (printer/parser round trip against a reference parser, by induction over header lists) + differential model-vs-code correspondence through the real HTTP layers"
    rule = ("one exchange per case over (cv, sv) in {1,2}^2: ~65% well-formed messages from a field pool (mixed-case names, "
            "several Cookie fields, Host/:authority variants, bodies with and without Content-Length, trailers), ~25% one "
            "mutation (CR/LF/NUL/SP/HTAB in a pseudo-header or value, upper-case or non-token names, connection-specific "
            "fields, duplicate/missing/unknown pseudo-headers, empty :path, odd :status, body on 204/304/HEAD, wrong "
            "Content-Length), ~10% random blocks; streaming on in 1/4. distinct = distinct case; non-trivial = something "
            "reached the other hop.")
    budget = {"quick": 2500, "thorough": 60000}
    time_budget = {"quick": 40, "thorough": 600}
    fingerprints = [
        "mitmproxy.proxy.layers.http._http2:split_pseudo_headers",
        "mitmproxy.proxy.layers.http._http2:parse_h2_request_headers",
        "mitmproxy.proxy.layers.http._http2:parse_h2_response_headers",
        "mitmproxy.proxy.layers.http._http2:format_h2_request_headers",
        "mitmproxy.proxy.layers.http._http2:format_h2_response_headers",
        "mitmproxy.proxy.layers.http._http2:normalize_h1_headers",
        "mitmproxy.proxy.layers.http._http2:Http2Server.handle_h2_event",
        "mitmproxy.proxy.layers.http._http2:Http2Client.handle_h2_event",
        "mitmproxy.proxy.layers.http._http1:Http1Client.send",
        "mitmproxy.proxy.layers.http._http1:Http1Server.send",
        "mitmproxy.net.http.http1.assemble:assemble_request_head",
        "mitmproxy.net.http.http1.assemble:assemble_response_head",
        "mitmproxy.net.http.http1.assemble:_assemble_request_line",
        "mitmproxy.net.http.http1.assemble:_assemble_response_line",
        "mitmproxy.net.http.validate:validate_headers",
        "mitmproxy.proxy.layers.http:validate_request",
        "mitmproxy.proxy.layers.http:HttpStream.state_consume_request_body",
        "mitmproxy.proxy.layers.http:HttpStream.send_response",
        "h2.utilities:validate_headers",
        "h2.utilities:_reject_illegal_characters",
        "h2.utilities:_reject_pseudo_header_fields",
        "h2.utilities:_check_pseudo_header_field_acceptability",
        "h2.utilities:_validate_host_authority_header",
        "h2.utilities:normalize_outbound_headers",
    ]
    trusted_base = ["hyper-h2 4.4.1 enforces H2Valid on inbound header blocks and Content-Length = body length (validated differentially)",
                    "hpack encodes/decodes header blocks faithfully",
                    "url.parse_authority's accept/reject verdict is a model parameter",
                    "harness/common/refparsers.py is the HTTP/1 oracle for the implementation; its Lean counterpart C06.Ref is the spec of the theorems"]
    parallel = False

    def setup(self, tier):
        self.parallel = False
        self.known_selftest()

    # ---------------------------------------------------------------- (T) tables regenerated from the live code
    def translate(self):
        import h2.utilities
        from mitmproxy.net.http import validate

        def lit(b): return "[" + ", ".join(str(c) for c in b) + "]"

        def lst(items): return "[" + ",\n   ".join(items) + "]"
        conn = sorted(bytes(x) for x in h2.utilities.CONNECTION_HEADERS)
        tes = sorted(validate._HTTP_1_1_TRANSFER_ENCODINGS)
        te_chunked = [t.encode() for t in tes if t.split(",")[-1] == "chunked"]
        te_other = [t.encode() for t in tes if t.split(",")[-1] != "chunked"]
        reasons = sorted((k, v.encode()) for k, v in status_codes.RESPONSES.items())
        known = sorted(ref.KNOWN_CODINGS)
        out = ("-- generated by harness/c06.py (Check.translate) from h2.utilities.CONNECTION_HEADERS,\n"
               "-- mitmproxy.net.http.validate._HTTP_1_1_TRANSFER_ENCODINGS, mitmproxy.net.http.status_codes.RESPONSES\n"
               "-- and harness/common/refparsers.KNOWN_CODINGS — do not edit\n"
               "import MitmVerif.Basic.Bytes\nnamespace MitmVerif.Gen.C06\nopen MitmVerif\n\n"
               f"def connectionHeaders : List Bytes :=\n  {lst([lit(x) for x in conn])}\n\n"
               f"def teChunked : List Bytes :=\n  {lst([lit(x) for x in te_chunked])}\n\n"
               f"def teOther : List Bytes :=\n  {lst([lit(x) for x in te_other])}\n\n"
               f"def knownCodings : List Bytes :=\n  {lst([lit(x) for x in known])}\n\n"
               f"def reasons : List (Nat × Bytes) :=\n  {lst([f'({k}, {lit(v)})' for k, v in reasons])}\n\n"
               "end MitmVerif.Gen.C06\n")
        return {"MitmVerif/Gen/C06.lean": out}

    # ---------------------------------------------------------------- generator
    NAMES = [b"accept", b"user-agent", b"x-a", b"x-b", b"cookie", b"cookie", b"content-type", b"x-long-name-1", b"te",
             b"accept-encoding", b"cache-control", b"x-c"]
    VALUES = [b"1", b"a=b", b"text/html", b"c=d; e=f", b"", b"x y", b"trailers", b"gzip, br", b"\xc3\xa9", b"a\tb", b"0", b"v:w"]
    BAD_BYTES = [b"\r", b"\n", b"\r\n", b"\x00", b" ", b"\t", b"\x0b", b"\x0c", b"\r\n ", b"\x7f", b"\xff", b":"]

    def gen_fields(self, rng, version, n=None):
        out = []
        for _ in range(rng.randint(0, 5) if n is None else n):
            k = rng.pick(self.NAMES); v = rng.pick(self.VALUES)
            if k == b"te": v = b"trailers"
            if version == 1:
                if rng.chance(0.5): k = k.title()
                if rng.chance(0.1): k = k.upper()
                if v.startswith(b"\xc3"): pass
            out.append((k, v))
        return out

    CODINGS = ["identity", "gzip", "deflate", "br", "zstd"]

    def gen_coded(self, rng, body):
        """(raw body as sent, extra fields): a body together with a content-encoding / content-type under which a
        'decoded' twin of it exists (get_content() vs raw_content, text vs content) — or pretends to"""
        from mitmproxy.net import encoding
        r = rng.random()
        if r < 0.45:      # really encoded
            c = rng.pick(self.CODINGS)
            plain = body or rng.pick([b"hi", b"A" * 4000, b"GET /x HTTP/1.1\r\n\r\n", bytes(rng.pick(b"abc") for _ in range(rng.randint(1, 300)))])
            return encoding.encode(plain, c), [(b"content-encoding", c.encode())]
        if r < 0.60:      # valid coding, data that does not decode under it
            return body or b"not compressed", [(b"content-encoding", rng.pick([b"gzip", b"deflate", b"br", b"zstd"]))]
        if r < 0.70:      # unknown / odd spellings / several codings
            return body or b"xyz", [(b"content-encoding", rng.pick([b"x-foo", b"GZIP", b"gzip, br", b"", b"none"]))]
        if r < 0.80:      # truncated stream of a valid coding
            full = encoding.encode(b"B" * 500, rng.pick(["gzip", "deflate", "br", "zstd"]))
            return full[:max(1, len(full) // 2)], [(b"content-encoding", b"gzip")]
        # charset twin: text vs content
        cs = rng.pick([b"utf-16", b"utf-8", b"latin-1", b"shift_jis", b"x-unknown"])
        txt = rng.pick([b"\xff\xfeh\x00i\x00", b"h\xc3\xa9llo", b"\xe9t\xe9", b"\x82\xa0", b"\xff\xff\xff"])
        return txt, [(b"content-type", b"text/plain; charset=" + cs)]

    def gen_body(self, rng):
        r = rng.random()
        if r < 0.35: return b""
        if r < 0.8: return bytes(rng.pick(b"abcdefghij0123456789") for _ in range(rng.randint(1, 24)))
        if r < 0.9: return b"GET /smuggled HTTP/1.1\r\nHost: example.com\r\n\r\n"
        return rng.bytes_(rng.randint(1, 40))

    def gen_req(self, rng, cv):
        body = self.gen_body(rng)
        method = rng.weighted([(5, b"GET"), (5, b"POST"), (1, b"HEAD"), (1, b"PUT"), (1, b"OPTIONS"), (1, b"DELETE")])
        if method in (b"GET", b"HEAD") and rng.chance(0.7): body = b""
        path = rng.pick([b"/", b"/a", b"/a/b?c=d", b"/%20x", b"*", b"/" + b"p" * rng.randint(1, 30), b"/a%2Fb/%41?q=a+b%26c",
                         b"/caf\xc3\xa9?x=\xff", b"//double//slash/../x", b"/;p=1?#"])
        coded = []
        if rng.chance(0.22) and method not in (b"GET", b"HEAD"):
            body, coded = self.gen_coded(rng, body)
        auth = rng.pick([b"example.com", b"example.com:80", b"example.com:8080", b"other.example", b"[::1]:80", b"EXAMPLE.com", b"xn--bcher-kva.example"])
        fields = self.gen_fields(rng, cv)
        for f in coded: fields.insert(rng.randint(0, len(fields)), f if cv == 2 else (f[0].title(), f[1]))
        if cv == 2:
            hostmode = rng.weighted([(6, "auth"), (2, "both"), (2, "host")])
            block = [(b":method", method), (b":scheme", rng.pick([b"http", b"http", b"https"])), (b":path", path)]
            if hostmode in ("auth", "both"): block.append((b":authority", auth))
            if rng.chance(0.3): rng.shuffle(block)
            if hostmode in ("both", "host"): fields.insert(rng.randint(0, len(fields)), (b"host", auth))
            if body and rng.chance(0.55): fields.insert(rng.randint(0, len(fields)), (b"content-length", b"%d" % len(body)))
            elif not body and rng.chance(0.15): fields.append((b"content-length", b"0"))
            req = {"block": P(block + fields), "body_hex": hx(body), "chunks": rng.randint(1, 3)}
            if rng.chance(0.12): req["trailers"] = P(self.gen_fields(rng, 2, rng.randint(1, 2)))
            return req
        fields.insert(rng.randint(0, len(fields)), (rng.pick([b"Host", b"host", b"HOST"]), auth))
        framing = "none"
        if body:
            framing = rng.weighted([(6, "cl"), (3, "chunked")])
            if framing == "cl": fields.insert(rng.randint(0, len(fields)), (rng.pick([b"Content-Length", b"content-length"]), b"%d" % len(body)))
            else: fields.append((rng.pick([b"Transfer-Encoding", b"transfer-encoding"]), rng.pick([b"chunked", b"Chunked", b"gzip, chunked"])))
        if rng.chance(0.15): fields.append((b"Connection", rng.pick([b"keep-alive", b"x-a", b"close"])))
        if rng.chance(0.05): fields.append((b"Keep-Alive", b"timeout=5"))
        if rng.chance(0.05): fields.append((b"Upgrade", b"h2c"))
        if rng.chance(0.05): fields.append((b"Proxy-Connection", b"keep-alive"))
        return {"method": hx(method), "target": hx(path), "fields": P(fields), "body_hex": hx(body), "framing": framing, "chunks": rng.randint(1, 3)}

    def gen_resp(self, rng, sv, method):
        body = self.gen_body(rng)
        status = rng.weighted([(8, 200), (2, 404), (1, 201), (1, 204), (1, 304), (1, 500), (1, 302), (1, 299), (1, 418), (1, 999), (1, 600)])
        if status in (204, 304) and rng.chance(0.7): body = b""
        fields = self.gen_fields(rng, sv)
        fields = [(k, v) for k, v in fields if k.lower() not in (b"te",)]
        if rng.chance(0.22) and status not in (204, 304) and method != b"HEAD":
            body, coded = self.gen_coded(rng, body)
            for f in coded: fields.insert(rng.randint(0, len(fields)), f if sv == 2 else (f[0].title(), f[1]))
        if sv == 2:
            block = [(b":status", b"%d" % status)]
            if body and rng.chance(0.55): fields.insert(rng.randint(0, len(fields)), (b"content-length", b"%d" % len(body)))
            resp = {"block": P(block + fields), "body_hex": hx(body), "chunks": rng.randint(1, 3)}
            if rng.chance(0.12): resp["trailers"] = P(self.gen_fields(rng, 2, rng.randint(1, 2)))
            return resp
        framing = rng.weighted([(6, "cl"), (2, "chunked"), (2, "eof")])
        if method == b"HEAD" or status in (204, 304):
            if rng.chance(0.7): body = b""
        if framing == "cl": fields.insert(rng.randint(0, len(fields)), (rng.pick([b"Content-Length", b"content-length"]), b"%d" % len(body)))
        elif framing == "chunked": fields.append((b"Transfer-Encoding", b"chunked"))
        if rng.chance(0.1): fields.append((b"Connection", rng.pick([b"keep-alive", b"close"])))
        return {"status": status, "reason_hex": hx(rng.pick([b"OK", b"", b"Some Reason", b"Not Found", b"caf\xe9", b"R\xc3\xa9ason"])), "fields": P(fields),
                "body_hex": hx(body), "framing": framing, "chunks": rng.randint(1, 3)}

    def mutate_block(self, rng, block, is_req):
        block = list(block)
        kind = rng.randint(0, 11)
        idx = rng.randrange(len(block)) if block else 0
        k, v = block[idx] if block else (b"x", b"y")
        bad = rng.pick(self.BAD_BYTES)
        tail = rng.pick([b"", b"x", b"HTTP/1.1", b"X: y"])
        if kind == 0:      # bad byte inside a value (pseudo or regular)
            pos = rng.randint(0, len(v)); block[idx] = (k, v[:pos] + bad + tail + v[pos:])
        elif kind == 1:    # bad byte inside a name
            pos = rng.randint(1 if k.startswith(b":") else 0, len(k)); block[idx] = (k[:pos] + bad + k[pos:], v)
        elif kind == 2:    # upper-case name
            block[idx] = (k.upper() if not k.startswith(b":") else k, v)
            if k.startswith(b":"): block.append((b"X-Upper", b"1"))
        elif kind == 3:    # connection-specific field
            block.append(rng.pick([(b"connection", b"close"), (b"transfer-encoding", b"chunked"), (b"upgrade", b"h2c"), (b"keep-alive", b"1"),
                                   (b"proxy-connection", b"x"), (b"te", b"gzip"), (b"transfer-encoding", b"identity")]))
        elif kind == 4:    # duplicate pseudo-header
            ps = [x for x in block if x[0].startswith(b":")]
            if ps:
                d = rng.pick(ps); block.insert(rng.randint(0, len(ps)), (d[0], rng.pick([d[1], b"/other", b"POST", b"500"])))
        elif kind == 5:    # missing pseudo-header
            ps = [i for i, x in enumerate(block) if x[0].startswith(b":")]
            if ps: del block[rng.pick(ps)]
        elif kind == 6:    # unknown / misplaced pseudo-header
            if rng.chance(0.5): block.append((rng.pick([b":path", b":method", b":status", b":authority"]), b"/late"))
            else: block.insert(0, (rng.pick([b":foo", b":protocol", b":status" if is_req else b":method"]), b"x"))
        elif kind == 7:    # empty value of a pseudo-header
            ps = [i for i, x in enumerate(block) if x[0].startswith(b":")]
            if ps:
                i = rng.pick(ps); block[i] = (block[i][0], b"")
        elif kind == 8:    # request-line injection through a pseudo-header
            ps = [i for i, x in enumerate(block) if x[0] in (b":path", b":method", b":scheme", b":authority", b":status")]
            if ps:
                i = rng.pick(ps)
                block[i] = (block[i][0], block[i][1] + rng.pick([b" HTTP/1.1\r\nX: y", b" /x", b"\tHTTP/1.1", b" HTTP/1.1", b"\r\n\r\nGET / HTTP/1.1\r\n", b"#frag ment", b"@evil.example", b"\x00"]))
        elif kind == 9:    # non-token name that h2 accepts
            block.append((rng.pick([b"x(y", b"x,y", b"x/y", b"x=y", b"x\"y", b"{x}", b"x@y", b"x;y", b"[x]", b"x\\y", b"x?"]), b"1"))
        elif kind == 10:   # content-length games
            block.append((b"content-length", rng.pick([b"0", b"5", b"+3", b"3 ", b"3, 3", b"0x3", b"3_0", b"-1", b"", b"\xd9\xa3", b"03"])))
        else:              # whitespace around a value / empty name
            block[idx] = (k, rng.pick([b" ", b"\t", b""]) + v + rng.pick([b" ", b"\t", b""]))
            if rng.chance(0.2): block.append((b"", b"v"))
        return block

    def add_flow(self, rng, case):
        """bodies larger than the HTTP/2 peer's initial window, position-dependent bytes, several DATA frames, and
        WINDOW_UPDATE increments small / medium / large relative to what is buffered"""
        cv, sv = case["cv"], case["sv"]
        win = rng.weighted([(3, rng.randint(1, 20)), (3, rng.randint(21, 200)), (1, rng.randint(201, 2000))])
        flow = {"c_iws": win if cv == 2 else None, "s_iws": rng.pick([win, rng.randint(1, 300)]) if sv == 2 else None}

        def big(n_chunks):
            n = rng.randint(win + 1, win * rng.randint(2, 8) + 5)
            seed = rng.getrandbits(8)
            return bytes((seed + 7 * k + (k >> 3)) % 251 for k in range(n))
        incs = []
        for _ in range(rng.randint(1, 6)):
            incs.append(rng.weighted([(3, rng.randint(1, max(1, win // 3))), (3, rng.randint(1, win * 2)), (1, rng.randint(win, win * 10))]))
        flow["wu"] = incs
        case["flow"] = flow
        for which, ver in (("req", cv), ("resp", sv)):
            m = case[which]
            if which == "req":
                case["req"] = m = self.force_method(m, cv, b"POST") if False else m
            body = big(0)
            m["body_hex"] = hx(body); m["chunks"] = rng.randint(1, 4)
            if ver == 2:
                blk = [(k, v) for k, v in U(m["block"]) if k not in (b"content-length", b"content-encoding")]
                if which == "req": blk = [(k, b"POST" if k == b":method" else v) for k, v in blk]
                else: blk = [(k, b"200" if k == b":status" else v) for k, v in blk]
                if rng.chance(0.5): blk.append((b"content-length", b"%d" % len(body)))
                m["block"] = P(blk)
                if rng.chance(0.4): m["trailers"] = P([(b"x-t", b"1")])
                else: m.pop("trailers", None)
            else:
                fields = [(k, v) for k, v in U(m["fields"]) if k.lower() not in (b"content-length", b"transfer-encoding", b"content-encoding")]
                if which == "req":
                    m["method"] = hx(b"POST")
                    m["framing"] = rng.pick(["cl", "chunked"])
                else:
                    m["status"] = 200
                    m["framing"] = rng.pick(["cl", "chunked", "eof"])
                if m["framing"] == "cl": fields.append((b"Content-Length", b"%d" % len(body)))
                elif m["framing"] == "chunked": fields.append((b"Transfer-Encoding", b"chunked"))
                m["fields"] = P(fields)

    def generate(self, rng, tier):
        while True:
            cv, sv = rng.pick([(2, 1), (2, 1), (2, 1), (1, 2), (2, 2), (1, 1), (1, 2), (2, 2)])
            case = {"cv": cv, "sv": sv, "stream": 1 if rng.chance(0.25) else 0}
            case["req"] = self.gen_req(rng, cv)
            method = unhx(case["req"]["method"]) if cv == 1 else dict(U(case["req"]["block"])).get(b":method", b"GET")
            case["resp"] = self.gen_resp(rng, sv, method)
            if (cv == 2 or sv == 2) and rng.chance(0.2):
                self.add_flow(rng, case)
                yield case
                continue
            if sv == 2 and rng.chance(0.18):
                # timing: the response completes before / between / after the pieces of a STREAMED request body,
                # optionally with a second exchange opened in between
                case["stream"] = 1
                body = bytes((rng.getrandbits(8) + 5 * k) % 251 for k in range(rng.randint(2, 60)))
                chunks = rng.randint(1, 4)
                rq = case["req"]
                rq["body_hex"] = hx(body); rq["chunks"] = chunks; rq.pop("trailers", None)
                if cv == 2:
                    blk = [(k, b"POST" if k == b":method" else v) for k, v in U(rq["block"]) if k not in (b"content-length", b"content-encoding")]
                    if rng.chance(0.5): blk.append((b"content-length", b"%d" % len(body)))
                    rq["block"] = P(blk)
                else:
                    rq["method"] = hx(b"POST"); rq["framing"] = "cl"
                    rq["fields"] = P([(k, v) for k, v in U(rq["fields"]) if k.lower() not in (b"content-length", b"transfer-encoding", b"content-encoding")]
                                     + [(b"Content-Length", b"%d" % len(body))])
                npieces = len(range(0, len(body), max(1, -(-len(body) // chunks))))
                case["early"] = {"after": rng.randint(0, npieces), "second": bool(cv == 2 and rng.chance(0.5))}
                yield case
                continue
            if not case["stream"] and rng.chance(0.15):
                case["replay"] = [rng.pick([1, 2]) for _ in range(rng.randint(1, 2))]
            r = rng.random()
            if r < 0.35:
                which = "req" if (cv == 2 and (sv == 1 or rng.chance(0.6))) or sv == 1 else "resp"
                ver = cv if which == "req" else sv
                m = case[which]
                if ver == 2:
                    if rng.chance(0.15) and which == "resp":
                        b = U(m["block"])
                        b[0] = (b":status", rng.pick([b"1000", b"99", b"2_00", b"+200", b"0200", b"20", b"abc", b"200 ", b"-200", b"", b"2e2", b"100", b"101", b"103"]))
                        m["block"] = P(b)
                    elif rng.chance(0.12):
                        # body where none is allowed / length games
                        if which == "resp":
                            b = U(m["block"]); b[0] = (b":status", rng.pick([b"204", b"304", b"200"])); m["block"] = P(b)
                            if rng.chance(0.5): case["req"] = self.force_method(case["req"], cv, b"HEAD")
                        m["body_hex"] = hx(b"HTTP/1.1 200 OK\r\nContent-Length: 1\r\n\r\nX")
                        m["block"] = P([x for x in U(m["block"]) if x[0] != b"content-length"])
                    else:
                        m["block"] = P(self.mutate_block(rng, U(m["block"]), which == "req"))
                else:
                    fields = U(m["fields"])
                    k = rng.randint(0, 3)
                    if k == 0 and fields:
                        i = rng.randrange(len(fields)); fields[i] = (fields[i][0], fields[i][1] + rng.pick([b"\x00", b"\rX", b"\x7f", b" ", b"\t"]))
                    elif k == 1:
                        fields.append(rng.pick([(b"Connection", b"x-a, close"), (b"TE", b"trailers"), (b"Transfer-Encoding", b"chunked"), (b"X_a", b"1"), (b"x(y", b"1")]))
                        if fields[-1][0] == b"Transfer-Encoding": m["framing"] = "chunked"
                    elif k == 2 and which == "resp":
                        m["status"] = rng.pick([204, 304, 100, 101, 199, 600, 999])
                        m["body_hex"] = hx(b"HTTP/1.1 200 OK\r\n\r\n")
                    else:
                        fields.append((b"Cookie", b"z=1"))
                    m["fields"] = P(fields)
            elif r < 0.42 and (cv == 2 or sv == 2):
                which = "req" if cv == 2 else "resp"
                n = rng.randint(1, 5)
                blk = [(rng.pick([b":method", b":path", b":scheme", b":authority", b":status", b"a", b"host", b"cookie", rng.bytes_(rng.randint(0, 3))]),
                        rng.bytes_(rng.randint(0, 4)) if rng.chance(0.5) else rng.pick([b"GET", b"/", b"http", b"example.com", b"200"])) for _ in range(n)]
                case[which]["block"] = P(blk)
            yield case

    @staticmethod
    def force_method(req, cv, method):
        req = dict(req)
        if cv == 1:
            req["method"] = hx(method)
            if method == b"HEAD":
                req["body_hex"] = "-"; req["framing"] = "none"
                req["fields"] = P([x for x in U(req["fields"]) if x[0].lower() not in FRAMING])
        else:
            req["block"] = P([(k, method if k == b":method" else v) for k, v in U(req["block"]) if k != b"content-length"])
            req["body_hex"] = "-"; req.pop("trailers", None)
        return req

    # ---------------------------------------------------------------- implementation runner
    @staticmethod
    def h1_request_bytes(req):
        fields = U(req["fields"]); body = unhx(req["body_hex"])
        head = unhx(req["method"]) + b" " + unhx(req["target"]) + b" HTTP/1.1\r\n" + b"".join(k + b": " + v + b"\r\n" for k, v in fields) + b"\r\n"
        if req.get("framing") == "chunked": return head + chunk_encode(body, req.get("chunks", 1))
        return head + body

    @staticmethod
    def h1_response_bytes(resp):
        fields = U(resp["fields"]); body = unhx(resp["body_hex"])
        head = b"HTTP/1.1 %d %s\r\n" % (resp["status"], unhx(resp["reason_hex"])) + b"".join(k + b": " + v + b"\r\n" for k, v in fields) + b"\r\n"
        if resp.get("framing") == "chunked": return head + chunk_encode(body, resp.get("chunks", 1))
        return head + body

    @staticmethod
    def h2_send(peer, sid, m, after_headers=None):
        """headers / data frames / trailers of one message through a raw peer; False if the peer cannot even emit it"""
        block = U(m["block"]); body = unhx(m["body_hex"]); trailers = U(m.get("trailers"))
        if not block: return False
        ok = peer.do(peer.c.send_headers, sid, block, end_stream=not body and not trailers)
        if not ok: return False
        if after_headers is not None: after_headers()
        k = max(1, m.get("chunks", 1)); n = max(1, -(-len(body) // k)) if body else 1
        pieces = [body[i:i + n] for i in range(0, len(body), n)]
        for j, piece in enumerate(pieces):
            peer.do(peer.c.send_data, sid, piece, end_stream=(j == len(pieces) - 1 and not trailers))
        if trailers:
            peer.do(peer.c.send_headers, sid, trailers, end_stream=True)
        return True

    _memo = (None, None)

    def impl(self, case):
        obs = self._impl(case)
        self._memo = (json.dumps(case, sort_keys=True), obs)
        return obs

    def _impl(self, case):
        cv, sv = case["cv"], case["sv"]
        st = bool(case.get("stream"))
        flow = case.get("flow")
        IWS = h2.settings.SettingCodes.INITIAL_WINDOW_SIZE
        if flow:
            # small flow-control windows on the HTTP/2 sides: the peers advertise them, keep their own books and hand out
            # WINDOW_UPDATEs of the scripted sizes (no automatic acknowledgement of received data)
            rig = Rig(cv, sv, stream_req=st, stream_resp=st, peer_cls=AccountingPeer,
                      client_settings={IWS: flow["c_iws"]} if flow.get("c_iws") else None,
                      server_settings={IWS: flow["s_iws"]} if flow.get("s_iws") else None)
        else:
            rig = Rig(cv, sv, stream_req=st, stream_resp=st)
        w = rig.w
        rig.settle()

        def drip(side):
            """WINDOW_UPDATEs of the scripted sizes for every open stream of one side, then wide open"""
            if not flow: return
            for inc in list(flow.get("wu", [])) + [2 ** 20] * 3:
                peers = [rig.cpeer] if side == "client" else list(rig.speers.values())
                for p in peers:
                    if p is None: continue
                    for sid in ([1] if side == "client" else list(p.order)):
                        p.grant(inc, sid)
                    p.grant(inc)
                rig.flush_peers(); rig.settle()

        # ---- request
        early = case.get("early")
        responded = False
        if early:
            # the server completes its response after `after` pieces of the streamed request body (0 = before any),
            # optionally a second exchange is opened in between; the rest of the body and its end follow
            rq = case["req"]
            body = unhx(rq["body_hex"]); k = max(1, rq.get("chunks", 1)); n = max(1, -(-len(body) // k))
            pieces = [body[i:i + n] for i in range(0, len(body), n)]

            def respond_now():
                nonlocal responded
                labs = w.server_labels()
                if not labs: return
                sp_ = rig.speer(labs[0])
                if sp_.order and not responded:
                    responded = self.h2_send(sp_, sp_.order[0], case["resp"])
                    rig.flush_peers(); rig.settle()
                if early.get("second") and cv == 2:
                    cp_ = rig.cpeer
                    cp_.do(cp_.c.send_headers, 3, [(b":method", b"GET"), (b":scheme", b"http"), (b":path", b"/second"),
                                                   (b":authority", b"example.com")], end_stream=True)
                    rig.flush_peers(); rig.settle()
            if cv == 2:
                cp_ = rig.cpeer
                blk = U(rq["block"])
                if not blk or not cp_.do(cp_.c.send_headers, 1, blk, end_stream=False): raise Skip()
                rig.flush_peers(); rig.settle()
                for j, piece in enumerate(pieces):
                    if j == early["after"]: respond_now()
                    cp_.do(cp_.c.send_data, 1, piece, end_stream=False)
                    rig.flush_peers(); rig.settle()
                if early["after"] >= len(pieces): respond_now()
                cp_.do(cp_.c.send_data, 1, b"", end_stream=True)
                rig.flush_peers()
            else:
                raw = self.h1_request_bytes(dict(rq, framing="cl"))
                head_end = raw.index(b"\r\n\r\n") + 4
                rig.client_send(raw[:head_end]); rig.settle()
                for j, piece in enumerate(pieces):
                    if j == early["after"]: respond_now()
                    rig.client_send(piece); rig.settle()
                if early["after"] >= len(pieces): respond_now()
        elif cv == 2:
            # with streaming on, the head goes first so that the upstream peer's SETTINGS are known before the body
            pause = (lambda: (rig.flush_peers(), rig.settle())) if (flow and st) else None
            if not self.h2_send(rig.cpeer, 1, case["req"], after_headers=pause): raise Skip()
            rig.flush_peers()
        else:
            rig.client_send(self.h1_request_bytes(case["req"]))
        rig.settle()
        drip("server")
        labels = w.server_labels()
        # ---- response (only if the request reached an upstream connection)
        if labels and not early:
            lab = labels[0]
            if sv == 2:
                sp = rig.speer(lab)
                if sp.order:
                    responded = self.h2_send(sp, sp.order[0], case["resp"])
                    rig.flush_peers()
            elif w.sent_to(lab):
                responded = rig.server_send(lab, self.h1_response_bytes(case["resp"]))
                if case["resp"].get("framing") == "eof":
                    w.peer_close(lab); rig.pump_out()
        rig.settle()
        drip("client")
        # ---- observables
        up = {"labels": len(labels)}
        if labels:
            lab = labels[0]; conn = w.conns[lab]
            up["closed"] = conn.state is ConnectionState.CLOSED
            up["half_closed"] = not (conn.state & ConnectionState.CAN_WRITE)
            if sv == 1:
                up["bytes_hex"] = hx(w.sent_to(lab))
            else:
                sp = rig.speer(lab)
                up["streams"] = [sp.streams[s].view() for s in sp.order]
                up["failure"] = sp.failure
        down = {"closed": w.ctx.client.state is ConnectionState.CLOSED}
        if cv == 1:
            down["bytes_hex"] = hx(w.sent_to("client"))
        else:
            cp = rig.cpeer
            down["stream"] = cp.streams[1].view() if 1 in cp.streams else None
            down["info"] = len(cp.streams[1].info) if 1 in cp.streams else 0
            down["terminated"], down["failure"] = cp.terminated, cp.failure
        # ---- the recorded messages before they were sent on vs. now (non-interference), and replays of the recorded flow
        from c05_h2 import snapshot
        stored = {}
        flow0 = rig.flows[0] if rig.flows else None

        def strip(d, streamed):
            d = dict(d or {})
            if streamed:
                d.pop("content", None); d.pop("trailers", None)
            return d
        if flow0 is not None:
            snaps = {n: sn for n, sn, idx in rig.snap if idx == 0}
            rel = "requestheaders" if st else "request"
            if rel in snaps and "request" in snaps[rel] and "error" not in [n for n, _, i in rig.snap if i == 0]:
                stored["request"] = [strip(snaps[rel]["request"], st), None]
            rel = "responseheaders" if st else "response"
            if rel in snaps and "response" in snaps[rel] and flow0.response is not None and "error" not in [n for n, _, i in rig.snap if i == 0]:
                stored["response"] = [strip(snaps[rel]["response"], st), strip(snapshot(flow0).get("response"), st)]
        replays = []
        if (flow0 is not None and case.get("replay") and not st and not flow0.live and flow0.request.raw_content is not None
                and flow0.websocket is None and not w.errors):
            for rsv in case["replay"]:
                replays.append(self.replay_pass(flow0, rsv))
        if "request" in stored:
            stored["request"][1] = strip(snapshot(flow0).get("request"), st)
        return {"up": up, "down": down, "hooks": [n for n, _, i in rig.snap if i <= 0], "responded": bool(responded),
                "crash": [e[0] + ": " + e[1][:80] for e in w.errors], "stored": stored, "replays": replays}

    def replay_pass(self, flow, sv):
        """the recorded flow sent again the way mitmproxy.addons.clientplayback does it (start_replay's preparation,
        ReplayHandler's layer stack with the real MockServer), towards an HTTP/1 or HTTP/2 server"""
        from mitmproxy.addons.clientplayback import MockServer
        from mitmproxy.connection import Server
        from mitmproxy.proxy import context
        from mitmproxy.proxy.layers.http import HttpLayer, HTTPMode
        from common.world import World, make_context
        flow.backup(); flow.is_replay = "request"; flow.response = None; flow.error = None
        opts = make_context().options
        opts.validate_inbound_headers = True; opts.http2_ping_keepalive = 0
        client = flow.client_conn.copy(); client.state = ConnectionState.OPEN
        ctx = context.Context(client, opts)
        ctx.server = Server(address=(flow.request.host, flow.request.port))
        layer = HttpLayer(ctx, HTTPMode.transparent)
        layer.connections[client] = MockServer(flow, ctx.fork())
        hooks = []

        def on_connect(w, cmd):
            cmd.connection.alpn = b"h2" if sv == 2 else None
            return None
        w = World(layer, ctx, on_hook=lambda w, h: hooks.append(h.name), on_connect=on_connect)
        w.start()
        up = {"labels": len(w.server_labels())}
        responded = False
        if w.server_labels():
            lab = w.server_labels()[0]
            if sv == 2:
                sp = Peer(False)
                sp.feed(w.sent_to(lab)); pos = len(w.sent_to(lab))
                w.recv(lab, sp.take())
                sp.feed(w.sent_to(lab)[pos:]); pos = len(w.sent_to(lab))
                if sp.order and sp.streams[sp.order[0]].ended:
                    sid = sp.order[0]
                    responded = sp.do(sp.c.send_headers, sid, [(b":status", b"200"), (b"content-length", b"2")]) and \
                        sp.do(sp.c.send_data, sid, b"ok", end_stream=True)
                    w.recv(lab, sp.take())
                    sp.feed(w.sent_to(lab)[pos:])
                up["streams"] = [sp.streams[x].view() for x in sp.order]; up["failure"] = sp.failure
            else:
                if w.sent_to(lab):
                    responded = w.recv(lab, b"HTTP/1.1 200 OK\r\nContent-Length: 2\r\n\r\nok")
                up["bytes_hex"] = hx(w.sent_to(lab))
            conn = w.conns[lab]
            up["closed"] = conn.state is ConnectionState.CLOSED
            up["half_closed"] = not (conn.state & ConnectionState.CAN_WRITE)
        return {"sv": sv, "up": up, "hooks": hooks, "responded": bool(responded),
                "crash": [e[0] + ": " + e[1][:80] for e in w.errors]}

    def _judge_request(self, rq, cv, sv, up, hooks, responded, second=False):
        """the conversion oracle for one request as seen by the next hop -> (failures, what was forwarded)"""
        fails = []
        forwarded_req = None
        # ---- request as seen by the next hop
        if up["labels"]:
            if sv == 1:
                data = unhx(up.get("bytes_hex", "-"))
                if data:
                    p = ref.parse_requests(data)
                    # "never makes mitmproxy emit more than one HTTP/1 message, or one framed differently"
                    if len(p.messages) > 1:
                        fails.append(f"upstream HTTP/1 bytes parse as {len(p.messages)} requests: {data[:120]!r}")
                    elif p.stop is not None and p.stop[0] != "incomplete":
                        fails.append(f"upstream HTTP/1 bytes are not one well-framed request ({p.stop}): {data[:120]!r}")
                    elif p.stop is not None and p.messages:
                        # a complete message followed by bytes that are not (yet) one: the body was framed shorter than sent
                        fails.append(f"upstream HTTP/1 bytes continue after the end of the request ({len(data) - p.rest} bytes): {data[:120]!r}")
                    elif p.stop is not None and "request" in hooks and "error" not in hooks:
                        # the exchange went through without an error, so the request must have been written completely
                        fails.append(f"upstream HTTP/1 request is incomplete ({p.stop}) although the exchange completed: {data[:120]!r}")
                    elif p.stop is not None and not (up["closed"] or up["half_closed"]):
                        if not (p.stop == ("incomplete", "body") and not responded):
                            fails.append(f"upstream HTTP/1 request left incomplete on an open connection ({p.stop}): {data[:120]!r}")
                    elif p.messages and p.stop is None:
                        m = p.messages[0]
                        forwarded_req = {"method": m["method"], "path": m["target"], "fields": m["fields"], "body": m["body"],
                                         "authority": b"".join(v for k, v in m["fields"] if k.lower() == b"host"),
                                         "nhost": sum(1 for k, _ in m["fields"] if k.lower() == b"host"), "trailers": None, "scheme": None}
            else:
                if up.get("failure"):
                    fails.append(f"upstream h2 peer rejects what mitmproxy sent: {up['failure']}")
                nstreams = len(up.get("streams", []))
                if nstreams > (2 if second else 1):
                    fails.append("one request opened several upstream streams")
                if second and nstreams == 2:
                    # the second exchange: its own (empty) body and END_STREAM on its own upstream stream
                    s2 = up["streams"][1]
                    p2 = dict(U(s2["headers"] or [])).get(b":path")
                    if p2 != b"/second" or unhx(s2["body_hex"]) != b"" or s2["trailers"] is not None:
                        fails.append(f"the second request's upstream stream carries what belongs to the first: path {p2!r}, "
                                     f"{len(unhx(s2['body_hex']))} body bytes, trailers {s2['trailers'] is not None}")
                for s in up.get("streams", [])[:1]:
                    if s["headers"] is not None and s["ended"]:
                        blk = U(s["headers"]); ps, fs = split_block(blk); d = dict(ps)
                        if len(d) != len(ps) or any(k.startswith(b":") for k, _ in fs):
                            fails.append(f"upstream h2 header block malformed: {blk!r}")
                        forwarded_req = {"method": d.get(b":method"), "path": d.get(b":path"), "scheme": d.get(b":scheme"),
                                         "authority": d.get(b":authority", b"") or b"".join(v for k, v in fs if k == b"host"),
                                         "nhost": 1, "fields": fs, "body": unhx(s["body_hex"]),
                                         "trailers": None if s["trailers"] is None else U(s["trailers"])}
                        if any(k != k.lower() for k, _ in fs):
                            fails.append(f"upper-case field name sent over HTTP/2: {fs!r}")
                    elif (s["headers"] is not None and s["reset"] is None and "request" in hooks and "error" not in hooks
                          and not up.get("failure")):
                        # the exchange went through without an error, so the request must have been ended on its stream
                        fails.append(f"upstream HTTP/2 request stream was never ended although the exchange completed "
                                     f"({len(unhx(s['body_hex']))} body bytes arrived)")
        if forwarded_req is not None:
            f = forwarded_req
            if not rq.wellformed and cv == 1:
                pass
            elif not rq.wellformed:
                fails.append("a malformed HTTP/2 header block (duplicate/missing/unknown pseudo-header) was forwarded")
            else:
                if f["method"] != rq.method: fails.append(f"method changed: {rq.method!r} -> {f['method']!r}")
                if f["path"] != rq.path: fails.append(f"path changed: {rq.path!r} -> {f['path']!r}")
                if f["authority"] != rq.authority or f["nhost"] > 1 or (rq.authority and f["nhost"] != 1):
                    fails.append(f"authority/Host changed: {rq.authority!r} -> {f['authority']!r} ({f['nhost']} Host fields)")
                # transparent mode derives the scheme from the transport (plain TCP here), not from the message
                if f["scheme"] is not None and cv == 2 and rq.scheme == b"http" and f["scheme"] != rq.scheme:
                    fails.append(f"scheme changed: {rq.scheme!r} -> {f['scheme']!r}")
                if f["body"] != rq.body: fails.append(f"request body changed: {rq.body[:60]!r} -> {f['body'][:60]!r}")
                a, ca, cla = canon_fields(rq.fields, drop_hop=(cv == 1 and sv == 2))
                b, cb, clb = canon_fields(f["fields"], drop_hop=False)
                if a != b: fails.append(f"request fields changed: {a!r} -> {b!r}")
                if ca != cb: fails.append(f"cookies changed: {ca!r} -> {cb!r}")
                if cla and clb and cla != clb: fails.append(f"content-length changed: {cla!r} -> {clb!r}")
                if cv == 2 and sv == 2 and rq.trailers and [(k.lower(), v) for k, v in rq.trailers] != (f["trailers"] or []):
                    fails.append(f"request trailers changed: {rq.trailers!r} -> {f['trailers']!r}")
        return fails, forwarded_req

    # ---------------------------------------------------------------- oracle
    def oracle(self, case, obs):
        fails = []
        if obs["crash"]:
            # "converted ... keeps": an exception escaping the layer ("mitmproxy has crashed!") loses the message
            fails.append("crash: " + obs["crash"][0])
        cv, sv = case["cv"], case["sv"]
        rq = Src(case, "req")
        up, down = obs["up"], obs["down"]
        rfails, forwarded_req = self._judge_request(rq, cv, sv, up, obs["hooks"], obs["responded"],
                                                    second=bool((case.get("early") or {}).get("second")) and cv == 2)
        fails += rfails
        # ---- the same request object sent again (client replay of the recorded flow): judged by the same oracle
        if forwarded_req is not None and not rfails and rq.wellformed:
            for k, rp in enumerate(obs.get("replays", [])):
                if rp.get("crash"):
                    fails.append(f"replay {k + 1}: crash: {rp['crash'][0]}")
                pf, fwd = self._judge_request(rq, cv, rp["sv"], rp["up"], rp["hooks"], rp["responded"])
                fails += [f"replay {k + 1} (to HTTP/{rp['sv']}): {x}" for x in pf]
                if fwd is None and not pf:
                    fails.append(f"replay {k + 1} (to HTTP/{rp['sv']}): the request was not sent again")
        # ---- non-interference: sending a message must not change the flow's recorded message
        for which in ("request", "response"):
            pair = obs.get("stored", {}).get(which)
            if pair and pair[0] != pair[1]:
                diff = [k for k in pair[0] if pair[0].get(k) != pair[1].get(k)]
                fails.append(f"the recorded {which} was changed by sending it ({', '.join(diff)}): "
                             f"{ {k: pair[0][k] for k in diff} } -> { {k: pair[1][k] for k in diff} }"[:400])
        # ---- response as seen by the client
        if obs["responded"]:
            rs = Src(case, "resp")
            method = rq.method or b"GET"
            got = None
            own_error_page = "error" in obs["hooks"] and down["closed"]
            if cv == 1 and own_error_page:
                pass    # mitmproxy's own error response followed by a close: not a converted message, nothing can follow it
            elif cv == 1:
                data = unhx(down.get("bytes_hex", "-"))
                if data:
                    p = ref.parse_responses(data, methods=[method], eof=down["closed"])
                    finals = [m for m in p.messages if not m["interim"]]
                    if len(finals) > 1 or (p.stop is not None and p.stop[0] == "tunnel" and p.stop[1] > 0 and finals and finals[0]["status"] != 101):
                        fails.append(f"client HTTP/1 bytes parse as more than one response: {data[:160]!r}")
                    elif p.stop is not None and p.stop[0] in ("malformed", "ambiguous"):
                        fails.append(f"client HTTP/1 bytes are not one well-framed response ({p.stop}): {data[:160]!r}")
                    elif p.stop is not None and p.stop[0] == "incomplete" and finals and p.stop[1] == "head":
                        fails.append(f"client HTTP/1 bytes continue after the end of the response: {data[:160]!r}")
                    elif p.stop is not None and p.stop[0] == "incomplete" and not down["closed"]:
                        fails.append(f"client HTTP/1 response left incomplete on an open connection ({p.stop}): {data[:160]!r}")
                    elif finals and p.stop is None:
                        m = finals[0]
                        got = {"status": m["status"], "fields": m["fields"], "body": m["body"], "trailers": None}
            else:
                if down.get("failure") and "response" in obs["hooks"] and "error" not in obs["hooks"]:
                    fails.append(f"client h2 peer rejects what mitmproxy sent: {down['failure']}")
                s = down.get("stream")
                if s and s["headers"] is not None and s["ended"]:
                    blk = U(s["headers"]); ps, fs = split_block(blk); d = dict(ps)
                    st = d.get(b":status", b"")
                    if len(ps) != 1 or not re.fullmatch(rb"[0-9]{3}", st) or any(k.startswith(b":") for k, _ in fs):
                        fails.append(f"client h2 response block malformed: {blk!r}")
                    else:
                        got = {"status": int(st), "fields": fs, "body": unhx(s["body_hex"]),
                               "trailers": None if s["trailers"] is None else U(s["trailers"])}
                    if any(k != k.lower() for k, _ in fs):
                        fails.append(f"upper-case field name sent over HTTP/2: {fs!r}")
            # is it the server's response (and not an error page made up by mitmproxy)?
            relayed = got is not None and "response" in obs["hooks"] and "error" not in obs["hooks"]
            if relayed:
                if not rs.wellformed and sv == 1:
                    pass
                elif not rs.wellformed or rs.status is None:
                    fails.append("a malformed HTTP/2 response block was relayed")
                else:
                    if got["status"] != rs.status: fails.append(f"status changed: {rs.status} -> {got['status']}")
                    bodiless = method.upper() == b"HEAD" or rs.status in (204, 304) or 100 <= rs.status <= 199
                    if (cv == 1 or sv == 1) and bodiless:
                        pass   # an HTTP/1 hop cannot carry a body here; that nothing follows the head is checked above
                    elif got["body"] != rs.body:
                        fails.append(f"response body changed: {rs.body[:60]!r} -> {got['body'][:60]!r}")
                    a, ca, cla = canon_fields(rs.fields, drop_hop=(sv == 1 and cv == 2))
                    b, cb, clb = canon_fields(got["fields"], drop_hop=False)
                    if a != b: fails.append(f"response fields changed: {a!r} -> {b!r}")
                    if ca != cb: fails.append(f"response cookie fields changed: {ca!r} -> {cb!r}")
                    if cla and clb and cla != clb: fails.append(f"response content-length changed: {cla!r} -> {clb!r}")
                    if cv == 2 and sv == 2 and rs.trailers and [(k.lower(), v) for k, v in rs.trailers] != (got["trailers"] or []):
                        fails.append(f"response trailers changed: {rs.trailers!r} -> {got['trailers']!r}")
        return fails

    # ---------------------------------------------------------------- model tie
    # Compared: (1) what reaches the next hop for the request — the exact HTTP/1 bytes, or the HTTP/2 header block,
    # body and trailers as decoded by the peer, or "reject"; (2) the same for the response; (3) the Lean reference
    # reader against harness/common/refparsers.py on every byte string mitmproxy wrote to an HTTP/1 server.
    def _req_line(self, case):
        cv, sv, rq = case["cv"], case["sv"], case["req"]
        if cv == 2:
            blk = U(rq["block"])
            auth = dict(split_block(blk)[0]).get(b":authority", b"")
            ok = 1
            if auth:
                try: url.parse_authority(auth, check=True)
                except ValueError: ok = 0
            return f"req 2 {sv} {ok} {enc_pairs(blk)} {rq['body_hex']} {enc_pairs(U(rq.get('trailers')))}"
        src = Src(case, "req")
        if not src.wellformed: return None
        p = ref.parse_requests(self.h1_request_bytes(rq))
        m = p.messages[0]
        if any(k.lower() == b"expect" for k, _ in m["fields"]): return None
        blk = [(b":method", m["method"]), (b":path", m["target"])] + list(m["fields"])
        return f"req 1 {sv} 1 {enc_pairs(blk)} {hx(m['body'])} -"

    def _resp_line(self, case):
        cv, sv, rs = case["cv"], case["sv"], case["resp"]
        method = Src(case, "req").method or b"GET"
        if sv == 2:
            rt = 1 if (case["cv"] == 2 and case["req"].get("trailers")) else 0
            return f"resp 2 {cv} {hx(method)} {rt} {enc_pairs(U(rs['block']))} {rs['body_hex']} {enc_pairs(U(rs.get('trailers')))}"
        if cv == 1: return None
        src = Src(case, "resp")
        if not src.wellformed or not (200 <= rs["status"] <= 999): return None
        p = ref.parse_responses(self.h1_response_bytes(rs), methods=[method], eof=True)
        if len(p.messages) != 1 or p.stop is not None: return None
        m = p.messages[0]
        blk = [(b":status", b"%d" % m["status"])] + list(m["fields"])
        return f"resp 1 {cv} {hx(method)} 0 {enc_pairs(blk)} {hx(m['body'])} -"

    @staticmethod
    def _render_ref(p):
        if p.stop is not None: return "none"
        out = f"some {len(p.messages)}"
        for m in p.messages:
            out += f" {hx(m['method'])} {hx(m['target'])} {enc_pairs(m['fields'])} {hx(m['body'])}"
        return out

    @staticmethod
    def _ref_bytes(case, obs):
        """bytes written to an HTTP/1 server, if the Lean and the Python reference reader are to be compared on them"""
        if case["sv"] != 1 or not obs["up"]["labels"]: return None
        data = unhx(obs["up"].get("bytes_hex", "-"))
        if not data or b"\n " in data or b"\n\t" in data: return None      # obs-fold: the Lean reader refuses it
        return data

    def _streamed_line(self, case):
        """streamed HTTP/2 -> HTTP/1 request (model: h2ToH1Streamed); only where the DATA frames cannot contradict an
        announced length half-way through the forwarding"""
        if not (case["cv"] == 2 and case["sv"] == 1) or case["req"].get("trailers"): return None
        rq = case["req"]
        blk = U(rq["block"]); body = unhx(rq["body_hex"])
        cl = [v for k, v in blk if k == b"content-length"]
        if cl and not all(v == b"%d" % len(body) for v in cl): return None
        auth = dict(split_block(blk)[0]).get(b":authority", b"")
        ok = 1
        if auth:
            try: url.parse_authority(auth, check=True)
            except ValueError: ok = 0
        return f"reqs {ok} {enc_pairs(blk)} {rq['body_hex']}"

    @staticmethod
    def _rref_bytes(case, obs):
        """bytes written to an HTTP/1 client, if the Lean and the Python response-stream readers are to be compared"""
        if case["cv"] != 1: return None
        data = unhx(obs["down"].get("bytes_hex", "-"))
        if not data or b"\n " in data or b"\n\t" in data: return None
        return data

    @staticmethod
    def _render_rref(p):
        if p.stop is not None: return "R:none"
        out = f"R:some {len(p.messages)}"
        for m in p.messages:
            out += f" {m['status']} {hx(m['reason'])} {enc_pairs(m['fields'])} {hx(m['body'])}"
        return out

    def model_lines(self, case):
        if case.get("stream"):
            line = self._streamed_line(case)
            return None if line is None else [line]
        req = self._req_line(case)
        if req is None: return None
        lines = [req]
        resp = self._resp_line(case)
        if resp is not None: lines.append(resp)
        key, obs = self._memo
        if key == json.dumps(case, sort_keys=True):
            # the recorded flow sent again: the model is a function of the message, so it is the same line with the new hop
            for rp in obs.get("replays", []):
                parts = req.split(" "); parts[2] = str(rp["sv"])
                lines.append(" ".join(parts))
        if key == json.dumps(case, sort_keys=True):
            data = self._ref_bytes(case, obs)
            if data is not None: lines.append("refparse " + hx(data))
            data = self._rref_bytes(case, obs)
            if data is not None:
                method = Src(case, "req").method or b"GET"
                lines.append(f"refresp {1 if obs['down']['closed'] else 0} {hx(method)} {hx(data)}")
        return lines

    def model_obs(self, case, replies):
        if case.get("stream"):
            return {"req": replies[0], "resp": None, "ref": None}
        out = {"req": replies[0], "resp": None, "ref": None}
        rest = list(replies[1:])
        if rest and rest[-1].startswith("R:"): out["rref"] = rest.pop()
        if self._resp_line(case) is not None and rest:
            out["resp"] = rest.pop(0) if replies[0] != "reject" else (rest.pop(0) and "n/a")
        if rest and (rest[-1].startswith("some ") or rest[-1] == "none"): out["ref"] = rest.pop()
        if rest: out["replays"] = rest
        return out

    def impl_view(self, case, obs):
        cv, sv = case["cv"], case["sv"]
        up, down = obs["up"], obs["down"]
        req = "reject"
        if up["labels"]:
            if sv == 1:
                if up.get("bytes_hex", "-") != "-": req = "h1 " + up["bytes_hex"]
            elif up.get("streams") and up["streams"][0]["headers"] is not None:
                s0 = up["streams"][0]
                req = f"h2 {enc_pairs(U(s0['headers']))} {s0['body_hex'] or '-'} {enc_pairs(U(s0['trailers']))}"
        out = {"req": req, "resp": None, "ref": None}
        if case.get("stream"): return out
        if self._resp_line(case) is not None:
            if req == "reject":
                out["resp"] = "n/a"
            else:
                relayed = "response" in obs["hooks"] and "error" not in obs["hooks"]
                resp = "reject"
                if relayed and cv == 1 and down.get("bytes_hex", "-") != "-":
                    resp = "h1 " + down["bytes_hex"]
                elif relayed and cv == 2 and down.get("stream") and down["stream"]["headers"] is not None:
                    s1 = down["stream"]
                    resp = f"h2 {enc_pairs(U(s1['headers']))} {s1['body_hex'] or '-'} {enc_pairs(U(s1['trailers']))}"
                out["resp"] = resp
        data = self._ref_bytes(case, obs)
        if data is not None and not case.get("stream"):
            out["ref"] = self._render_ref(ref.parse_requests(data))
        data = self._rref_bytes(case, obs)
        if data is not None:
            method = Src(case, "req").method or b"GET"
            out["rref"] = self._render_rref(ref.parse_responses(data, methods=[method], eof=obs["down"]["closed"]))
        if obs.get("replays"):
            out["replays"] = []
            for rp in obs["replays"]:
                u = rp["up"]; v = "reject"
                if u["labels"] and rp["sv"] == 1 and u.get("bytes_hex", "-") != "-": v = "h1 " + u["bytes_hex"]
                elif u["labels"] and rp["sv"] == 2 and u.get("streams") and u["streams"][0]["headers"] is not None:
                    s0 = u["streams"][0]
                    v = f"h2 {enc_pairs(U(s0['headers']))} {s0['body_hex'] or '-'} {enc_pairs(U(s0['trailers']))}"
                out["replays"].append(v)
        return out

    # ---------------------------------------------------------------- bookkeeping
    def classify(self, case, obs):
        if not obs["up"]["labels"]: return None
        return json.dumps(case, sort_keys=True)

    def branches(self, case, obs):
        out = [f"v{case['cv']}->{case['sv']}", "stream" if case.get("stream") else "buffered"]
        out.append("req:forwarded" if obs["up"]["labels"] and (obs["up"].get("bytes_hex", "-") != "-" or obs["up"].get("streams")) else "req:rejected")
        if obs["responded"]:
            out.append("resp:relayed" if "response" in obs["hooks"] and "error" not in obs["hooks"] else "resp:rejected")
        if "trailers" in case["req"] or "trailers" in case["resp"]: out.append("trailers")
        if obs.get("replays"): out.append(f"replayed x{len(obs['replays'])}")
        if obs.get("stored"): out.append("stored-message-compared")
        if case.get("early"):
            out.append("early-response:" + ("before-body" if case["early"]["after"] == 0 else "mid/after-body"))
            if case["early"].get("second"): out.append("early-response:second-exchange")
        if case.get("flow"):
            out.append("flow-control")
            wins = [x for x in (case["flow"].get("c_iws"), case["flow"].get("s_iws")) if x]
            big = max(len(unhx(case["req"].get("body_hex", "-"))), len(unhx(case["resp"].get("body_hex", "-"))))
            if wins and big > min(wins): out.append("flow-control:body>window")
        return out

    # ---------------------------------------------------------------- recorded findings
    # A failure is excused only if BOTH the input is in the finding's recorded class AND what mitmproxy wrote is exactly
    # the recorded failure (structured facts from case + observation, not "some failure for an input that looks like X").
    A_FAILS = ("upstream HTTP/1 bytes parse as ", "upstream HTTP/1 bytes are not one well-framed request",
               "upstream HTTP/1 bytes continue after the end of the request")

    @staticmethod
    def _head_only(data):
        """(start line parts + fields of the first header section, bytes after it) or (None, None); no framing applied"""
        h = ref._head_lines(data, 0)
        if h[0] in ("incomplete", "malformed") or not h[0]: return None, None
        lines, end = h
        f = ref._fields(lines[1:])
        if isinstance(f, tuple): return None, None
        parts = lines[0].split(b" ")
        m = {"fields": f}
        if lines[0].startswith(b"HTTP/"):
            if len(parts) < 2 or not parts[1].isdigit(): return None, None
            m["status"] = int(parts[1])
        else:
            if len(parts) != 3: return None, None
            m["method"], m["target"] = parts[0], parts[1]
        return m, data[end:]

    @staticmethod
    def _cl(fields):
        return [v for k, v in fields if k.lower() == b"content-length"]

    def known(self, case, obs, failure):
        cv, sv = case["cv"], case["sv"]
        # F-C06a: STREAMED HTTP/2 request, non-empty body, no content-length/transfer-encoding in the block; recorded
        # failure: the HTTP/1 server gets the correct head WITHOUT framing followed by exactly the raw body
        if cv == 2 and sv == 1 and case.get("stream") and failure.startswith(self.A_FAILS):
            rq = Src(case, "req")
            if rq.wellformed and rq.body and not any(k.lower() in FRAMING for k, _ in rq.fields) and obs["up"]["labels"]:
                m, rest = self._head_only(unhx(obs["up"].get("bytes_hex", "-")))
                if (m is not None and rest == rq.body and m["method"] == rq.method and m["target"] == rq.path
                        and not any(k.lower() in FRAMING for k, _ in m["fields"])):
                    return "F-C06a"
        # F-C06b: HTTP/2 response to an HTTP/1 client, content-length N > 0 announced, stream ended without a DATA frame;
        # recorded failure: the relayed head announces N, no body byte follows, connection kept open
        if sv == 2 and cv == 1 and failure.startswith("client HTTP/1 response left incomplete on an open connection (('incomplete', 'body'))"):
            rs = Src(case, "resp")
            cl = self._cl(rs.fields)
            if (rs.wellformed and not rs.body and len(cl) == 1 and re.fullmatch(rb"[1-9][0-9]*", cl[0])
                    and "response" in obs["hooks"] and "error" not in obs["hooks"]):
                m, rest = self._head_only(unhx(obs["down"].get("bytes_hex", "-")))
                if m is not None and rest == b"" and self._cl(m["fields"]) == cl and m["status"] == rs.status:
                    return "F-C06b"
        # F-C06c: the same on the request side (HTTP/2 client -> HTTP/1 server); recorded failure: the forwarded head
        # announces N, no body byte follows
        if cv == 2 and sv == 1 and failure.startswith("upstream HTTP/1 request is incomplete (('incomplete', 'body'))"):
            rq = Src(case, "req")
            cl = self._cl(rq.fields)
            if rq.wellformed and not rq.body and len(cl) == 1 and re.fullmatch(rb"[1-9][0-9]*", cl[0]) and obs["up"]["labels"]:
                m, rest = self._head_only(unhx(obs["up"].get("bytes_hex", "-")))
                if (m is not None and rest == b"" and self._cl(m["fields"]) == cl and m["method"] == rq.method
                        and m["target"] == rq.path):
                    return "F-C06c"
        # F-C06d / F-C06e: content-length N announced, 0 < M < N body bytes sent, stream ended by TRAILERS (hyper-h2 makes
        # the final length comparison only on a DATA frame carrying END_STREAM); recorded failure: head announcing N,
        # followed by exactly the M raw bytes
        if sv == 2 and cv == 1 and failure.startswith("client HTTP/1 response left incomplete on an open connection (('incomplete', 'body'))"):
            rs = Src(case, "resp")
            cl = self._cl(rs.fields)
            if (rs.wellformed and rs.trailers and len(cl) == 1 and re.fullmatch(rb"[1-9][0-9]*", cl[0]) and 0 < len(rs.body) < int(cl[0])
                    and "response" in obs["hooks"] and "error" not in obs["hooks"]):
                m, rest = self._head_only(unhx(obs["down"].get("bytes_hex", "-")))
                if m is not None and rest == rs.body and self._cl(m["fields"]) == cl and m["status"] == rs.status:
                    return "F-C06d"
        if cv == 2 and sv == 1 and failure.startswith("upstream HTTP/1 request is incomplete (('incomplete', 'body'))"):
            rq = Src(case, "req")
            cl = self._cl(rq.fields)
            if (rq.wellformed and rq.trailers and len(cl) == 1 and re.fullmatch(rb"[1-9][0-9]*", cl[0]) and 0 < len(rq.body) < int(cl[0])
                    and obs["up"]["labels"]):
                m, rest = self._head_only(unhx(obs["up"].get("bytes_hex", "-")))
                if (m is not None and rest == rq.body and self._cl(m["fields"]) == cl and m["method"] == rq.method
                        and m["target"] == rq.path):
                    return "F-C06e"
        return None

    def known_selftest(self):
        """positive witnesses and near misses of every classifier (raises AssertionError: the run ends as INFRA)"""
        from common.check import load_known
        db = load_known(self.prop)
        wit = {k: v["witness"] for k, v in db.items()}
        checks = []

        def run(case):
            obs = self._impl(case)
            return obs, self.oracle(case, obs)

        def edit(case, fn):
            c = json.loads(json.dumps(case)); fn(c); return c
        # ---- F-C06a
        wa = wit["F-C06a"]; oa, fa = run(wa)
        fa = [x for x in fa if x.startswith(self.A_FAILS)] or ["upstream HTTP/1 bytes parse as 2 requests: b''"]
        if unhx(oa["up"].get("bytes_hex", "-")).endswith(unhx(wa["req"]["body_hex"])): checks.append((wa, oa, fa[0], "F-C06a"))
        # (a) same input class, other clauses of the oracle
        checks.append((wa, oa, "request body changed: b'x' -> b'y'", None))
        checks.append((wa, oa, "upstream HTTP/1 request is incomplete (('incomplete', 'body')) although the exchange completed: b''", None))
        #     same input class and clause, but what was written is NOT head + raw body (path altered in the observation)
        ob = json.loads(json.dumps(oa)); ob["up"]["bytes_hex"] = hx(unhx(oa["up"]["bytes_hex"]).replace(b"POST / ", b"POST /x ", 1))
        checks.append((wa, ob, fa[0], None))
        ob = json.loads(json.dumps(oa)); ob["up"]["bytes_hex"] = hx(unhx(oa["up"]["bytes_hex"]) + b"Z")
        checks.append((wa, ob, fa[0], None))
        # (b) neighbouring inputs with the same kind of failure text: buffered instead of streamed; content-length present
        nb = edit(wa, lambda c: c.update(stream=0)); onb, _ = run(nb)
        checks.append((nb, onb, fa[0], None))
        nb = edit(wa, lambda c: c["req"].update(block=c["req"]["block"] + [[hx(b"content-length"), hx(b"%d" % len(unhx(c["req"]["body_hex"])))]]))
        onb, fnb = run(nb)
        checks.append((nb, onb, fa[0], None))
        # ---- F-C06b
        wb = wit["F-C06b"]; ob_, fb = run(wb)
        fb0 = [x for x in fb if x.startswith("client HTTP/1 response left incomplete")]
        fb = fb0 or ["client HTTP/1 response left incomplete on an open connection (('incomplete', 'body')): b''"]
        if fb0: checks.append((wb, ob_, fb[0], "F-C06b"))
        checks.append((wb, ob_, "client HTTP/1 response left incomplete on an open connection (('incomplete', 'until-eof')): b''", None))
        checks.append((wb, ob_, "status changed: 201 -> 200", None))
        o2 = json.loads(json.dumps(ob_)); o2["down"]["bytes_hex"] = hx(unhx(ob_["down"]["bytes_hex"]) + b"ab")
        checks.append((wb, o2, fb[0], None))          # some body bytes did follow: not the recorded failure
        nb = edit(wb, lambda c: c["resp"].update(body_hex=hx(b"abc"), block=[x for x in c["resp"]["block"] if unhx(x[0]) != b"content-length"] + [[hx(b"content-length"), hx(b"3")]]))
        onb, fnb = run(nb)
        checks.append((nb, onb, fb[0], None))
        nb = edit(wb, lambda c: c["resp"].update(block=[x for x in c["resp"]["block"] if unhx(x[0]) != b"content-length"] + [[hx(b"content-length"), hx(b"0")]]))
        onb, _ = run(nb)
        checks.append((nb, onb, fb[0], None))
        # ---- F-C06c
        wc = wit["F-C06c"]; oc, fc = run(wc)
        fc0 = [x for x in fc if x.startswith("upstream HTTP/1 request is incomplete")]
        fc = fc0 or ["upstream HTTP/1 request is incomplete (('incomplete', 'body')) although the exchange completed: b''"]
        if fc0: checks.append((wc, oc, fc[0], "F-C06c"))
        checks.append((wc, oc, "upstream HTTP/1 request is incomplete (('incomplete', 'head')) although the exchange completed: b''", None))
        checks.append((wc, oc, "method changed: b'POST' -> b'GET'", None))
        o2 = json.loads(json.dumps(oc)); o2["up"]["bytes_hex"] = hx(unhx(oc["up"]["bytes_hex"]).replace(b"content-length: 5", b"content-length: 7"))
        checks.append((wc, o2, fc[0], None))          # the announced length was altered on the way: another defect
        nb = edit(wc, lambda c: c["req"].update(body_hex=hx(b"abcde")))
        onb, fnb = run(nb)
        checks.append((nb, onb, fc[0], None))
        nb = edit(wc, lambda c: c["req"].update(block=[x for x in c["req"]["block"] if unhx(x[0]) != b"content-length"] + [[hx(b"content-length"), hx(b"0")]]))
        onb, fnb = run(nb)
        checks.append((nb, onb, fc[0], None))
        # ---- F-C06d / F-C06e
        for fid, which, clause in (("F-C06d", "resp", "client HTTP/1 response left incomplete"), ("F-C06e", "req", "upstream HTTP/1 request is incomplete")):
            wx = wit[fid]; ox, fx = run(wx)
            fx0 = [x for x in fx if x.startswith(clause)]
            if not fx0: continue
            checks.append((wx, ox, fx0[0], fid))
            checks.append((wx, ox, "request body changed: b'x' -> b'y'", None))
            checks.append((wx, ox, fx0[0].replace("'body'", "'head'"), None))
            side = "down" if which == "resp" else "up"
            o2 = json.loads(json.dumps(ox)); o2[side]["bytes_hex"] = hx(unhx(ox[side]["bytes_hex"]) + b"Z")
            checks.append((wx, o2, fx0[0], None))      # more than the raw body was written: another defect
            nb = edit(wx, lambda c: c[which].pop("trailers"))      # without trailers hyper-h2 does reject the short body
            onb, _ = run(nb)
            checks.append((nb, onb, fx0[0], None))
            nb = edit(wx, lambda c: c[which].update(body_hex=hx(b"abcde")))   # the announced length is met
            onb, _ = run(nb)
            checks.append((nb, onb, fx0[0], None))
        for case, obs, failure, want in checks:
            got = self.known(case, obs, failure)
            assert got == want, f"known() classifier self-test: expected {want}, got {got} for {failure[:70]!r} on {json.dumps(case)[:160]}"

    def neighbours(self, case, rng):
        for _ in range(200):
            c = json.loads(json.dumps(case))
            which = rng.pick(["req", "resp"])
            ver = c["cv"] if which == "req" else c["sv"]
            if ver == 2:
                c[which]["block"] = P(self.mutate_block(rng, U(c[which]["block"]), which == "req"))
            else:
                c["cv"], c["sv"] = rng.pick([(2, 1), (1, 2), (2, 2)])
                c["req"] = self.gen_req(rng, c["cv"]); c["resp"] = self.gen_resp(rng, c["sv"], b"GET")
            yield c
