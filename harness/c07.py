"""C07 — body size limits are enforced and streamed bodies are relayed exactly.

Anchors: mitmproxy/proxy/layers/http/__init__.py (HttpStream.check_body_size, state_consume_*/state_stream_*,
start_*_stream), mitmproxy/utils/human.py (parse_size, SIZE_UNITS), mitmproxy/addons/proxyserver.py (option
validation in Proxyserver.configure), and the HTTP/1 writers that frame the streamed chunks
(mitmproxy/proxy/layers/http/_http1.py Http1Client.send / Http1Server.send).

A real HttpLayer (regular mode, HTTP/1 on both sides) is driven through harness/common/world.py: one message
with a body travels in the chosen direction, the body arrives in the chosen chunking and framing, a real addon
hook sets `.stream` according to the policy.  Observed: the error hook, what the client got, the exact chunk
list written to the peer (de-framed by an independent strict reader), len(request_body_buf)/len(response_body_buf)
after every delivery, and what the flow kept.
"""
import itertools, json
from common.check import PropertyCheck, Skip, hx, unhx

from mitmproxy import exceptions
from mitmproxy.utils import human
# imported here (not lazily) so that the forked pool workers inherit the loaded modules
from common.world import World, make_context
from mitmproxy.proxy.layers import http
from mitmproxy.proxy.layers.http import HTTPMode
from mitmproxy.test import taddons
from mitmproxy.addons import proxyserver

def _gen_split(d):
    yield d[:1]
    yield d[1:]


def _gen_mark(d):
    yield d if d else b"!"


def _gen_empty(d):
    return
    yield b""       # noqa: makes this a generator function


POLICIES = ["none", "true", "false", "id", "upper", "drop", "dropl", "dup", "mark",
            "tup", "gen", "iter", "egen", "genmark"]
# the documented contract of a stream callable is `bytes | Iterable[bytes]`: bytes, list, tuple, generator, one-shot
# iterator and empty generator results are all exercised, for data chunks and for the end-of-message call
CALLABLES = {
    "id": lambda d: d,
    "upper": lambda d: d.upper(),
    "drop": lambda d: b"",            # bytes result
    "dropl": lambda d: [],            # iterable result
    "dup": lambda d: [d, d],
    "mark": lambda d: d if d else b"!",   # emits a trailer chunk when called with b"" at the end
    "tup": lambda d: (d,),            # tuple
    "gen": _gen_split,                # generator: two pieces per call (also at the end: two empty pieces)
    "iter": lambda d: iter([d, d]),   # one-shot iterator
    "egen": _gen_empty,               # generator that yields nothing
    "genmark": _gen_mark,             # generator with a trailer chunk at the end
}
LIMIT_MSG = "body exceeds mitmproxy's body_size_limit."


def policy_value(p):
    return {"none": None, "true": True, "false": False}.get(p, CALLABLES.get(p))


def transform(policy, chunks):
    """what a peer must receive when the body is streamed through the policy's callable from the first byte on"""
    f = CALLABLES.get(policy)
    if f is None: return b"".join(chunks)
    out = b""
    for c in list(chunks) + [b""]:
        r = f(c)
        out += r if isinstance(r, bytes) else b"".join(r)
    return out


# ---- independent strict readers for what the peer receives ---------------------------------------------------------
def split_head(raw: bytes):
    i = raw.find(b"\r\n\r\n")
    if i < 0: return None, raw
    return raw[:i + 4], raw[i + 4:]


def read_chunked(b: bytes):
    """RFC 9112 §7.1 chunked body: returns (chunks, complete, leftover); chunks = the data of every non-last chunk"""
    chunks, pos = [], 0
    while True:
        j = b.find(b"\r\n", pos)
        if j < 0: return chunks, False, b[pos:]
        size_s = b[pos:j]
        if not size_s or any(c not in b"0123456789abcdefABCDEF" for c in size_s): return chunks, False, b[pos:]
        n = int(size_s, 16)
        if n == 0:
            if b[j + 2:j + 4] != b"\r\n": return chunks, False, b[pos:]
            return chunks, True, b[j + 4:]
        if len(b) < j + 2 + n + 2 or b[j + 2 + n:j + 4 + n] != b"\r\n": return chunks, False, b[pos:]
        chunks.append(b[j + 2:j + 2 + n]); pos = j + 4 + n


# every spelling of a Transfer-Encoding header the READER (validate.parse_transfer_encoding + Headers.get) takes for
# "chunked is the final coding": case variants, coding lists with/without OWS and tabs around the comma, two header lines
# (the latter only passes with validate_inbound_headers off)
TE_SPELLINGS = ["chunked", "chunked", "Chunked", "CHUNKED", "gzip, chunked", "gzip,chunked", "deflate ,chunked",
                "compress ,\tchunked", "GZip,\t Chunked", "gzip ,\t chunked", "deflate, chunked", "2lines:gzip|chunked",
                "2lines:Deflate|CHUNKED"]


def te_header(sub) -> bytes:
    te = sub.get("te") or "chunked"
    if te.startswith("2lines:"):
        return b"".join(b"Transfer-Encoding: " + v.encode() + b"\r\n" for v in te[7:].split("|"))
    return b"Transfer-Encoding: " + te.encode() + b"\r\n"


def needs_novalidate(case) -> bool:
    return any((c.get("te") or "").startswith("2lines:") for c in (case, case.get("pre") or {}))


def head_says_chunked(phead: bytes) -> bool:
    """independent reading of a message head (RFC 9112 6.1): chunked is the final transfer coding of the combined
    Transfer-Encoding field value"""
    vals = []
    for line in phead.split(b"\r\n")[1:]:
        name, _, val = line.partition(b":")
        if name.strip().lower() == b"transfer-encoding": vals.append(val)
    codings = [c.strip(b" \t").lower() for c in b",".join(vals).split(b",")]
    return bool(vals) and codings[-1] == b"chunked"


def te_probe(v: bytes):
    """the real reader's and the real writer's verdict on one Transfer-Encoding value"""
    from mitmproxy import http as mhttp
    from mitmproxy.connection import ConnectionState, Server
    from mitmproxy.net.http.http1 import read as h1read
    from mitmproxy.proxy import commands as mcmds, events as mevents
    from mitmproxy.proxy.layers.http._events import RequestData, RequestHeaders
    from mitmproxy.proxy.layers.http._http1 import Http1Client
    req = mhttp.Request.make("POST", "http://a.example/p", b"", {})
    req.headers = mhttp.Headers([(b"Host", b"a.example"), (b"Transfer-Encoding", v)])
    rsp = mhttp.Response.make(200, b"", {}); rsp.headers = mhttp.Headers([(b"Transfer-Encoding", v)])
    try:
        n = h1read.expected_http_body_size(req, rsp)
        reads = "chunked" if n is None else "other"
    except ValueError:
        reads = "err"
    ctx = make_context()
    ctx.server = Server(address=("a.example", 80)); ctx.server.state = ConnectionState.OPEN
    lay = Http1Client(ctx)
    out = list(lay.handle_event(mevents.Start()))
    out += list(lay.handle_event(RequestHeaders(1, req, False)))
    out = list(lay.handle_event(RequestData(1, b"ab")))
    sent = b"".join(c.data for c in out if isinstance(c, mcmds.SendData))
    return {"reads": reads, "writes": sent == b"2\r\nab\r\n", "raw": sent == b"ab"}


def frame_probe(case):
    """the real HTTP/1 writers on a list of data events + end of message: the bytes written after the head"""
    from mitmproxy import http as mhttp
    from mitmproxy.connection import ConnectionState, Server
    from mitmproxy.proxy import commands as mcmds, events as mevents
    from mitmproxy.proxy.layers.http import _events as E
    from mitmproxy.proxy.layers.http._http1 import Http1Client, Http1Server
    chunks = [unhx(c) for c in case["chunks"]]
    hdr = [(b"Transfer-Encoding", b"chunked")] if case["chunked"] else [(b"Content-Length", str(sum(map(len, chunks))).encode())]
    ctx = make_context()
    ctx.server = Server(address=("a.example", 80)); ctx.server.state = ConnectionState.OPEN
    sent = []

    def run(lay, ev):
        for c in lay.handle_event(ev):
            if isinstance(c, mcmds.SendData): sent.append(bytes(c.data))
    if case["dir"] == "req":
        lay = Http1Client(ctx)
        run(lay, mevents.Start())
        req = mhttp.Request.make("POST", "http://a.example/p", b"", {})
        req.headers = mhttp.Headers([(b"Host", b"a.example")] + hdr)
        run(lay, E.RequestHeaders(1, req, False))
        for c in chunks: run(lay, E.RequestData(1, c))
        run(lay, E.RequestEndOfMessage(1))
    else:
        lay = Http1Server(ctx)
        run(lay, mevents.Start())
        run(lay, mevents.DataReceived(ctx.client, b"GET http://a.example/p HTTP/1.1\r\nHost: a.example\r\n\r\n"))
        rsp = mhttp.Response.make(200, b"", {}); rsp.headers = mhttp.Headers(hdr)
        run(lay, E.ResponseHeaders(1, rsp, False))
        for c in chunks: run(lay, E.ResponseData(1, c))
        run(lay, E.ResponseEndOfMessage(1))
    return {"head": bool(sent), "wire_hex": hx(b"".join(sent[1:]))}


def ref_final_chunked(v: bytes) -> bool:
    return [c.strip(b" \t").lower() for c in v.split(b",")][-1] == b"chunked"


def status_of(raw: bytes):
    if not raw.startswith(b"HTTP/1.1 "): return None
    try: return int(raw[9:12])
    except ValueError: return None


# ---- the run ------------------------------------------------------------------------------------------------------
def run_flow(case):
    """one exchange on a fresh HttpLayer.  `flow`/`wire` cases observe one direction (dir); an `exch` case carries a
    request body AND a response body (case["pre"] = the request side) and observes both."""
    resp_main = case["dir"] == "resp"
    pre = case.get("pre")
    pols = {True: case["policy"] if resp_main else None, False: (pre["policy"] if pre else None) if resp_main else case["policy"]}
    with taddons.context(proxyserver.Proxyserver()) as tctx:
        try:
            tctx.options.update(body_size_limit=case["limit"], stream_large_bodies=case["thr"],
                                store_streamed_bodies=bool(case["store"]), validate_inbound_headers=not needs_novalidate(case))
        except exceptions.OptionsError:
            return {"rejected": True}
        ctx = make_context(opts=tctx.options)
        lay = http.HttpLayer(ctx, HTTPMode.regular)
        seen = {"flow": None, "err": []}
        stream = [None]

        def on_hook(w, h):
            if stream[0] is None and lay.streams: stream[0] = next(iter(lay.streams.values()))
            f = getattr(h, "flow", None)
            if f is not None: seen["flow"] = f
            for is_resp, hook in ((False, "requestheaders"), (True, "responseheaders")):
                if h.name == hook and pols[is_resp] not in (None, "none"):
                    (f.response if is_resp else f.request).stream = policy_value(pols[is_resp])
            if h.name == "error":
                seen["err"].append(f.error.msg if f.error else "")
            seen.setdefault("hooks", []).append(h.name)
        w = World(lay, ctx, on_hook=on_hook)
        w.start()

        def phase(resp, sub):
            """deliver one message with a body in direction `resp` and observe that direction"""
            wire = sub["op"] == "wire"
            chunks = [] if wire else [unhx(c) for c in sub["chunks"]]
            body = b"".join(chunks)
            framing = sub["framing"]
            err0 = len(seen["err"])
            hook0 = len(seen.get("hooks", []))
            samples, head_at = [], [None]
            peer = "client" if resp else "server0"

            def sample(i):
                if stream[0] is None and lay.streams: stream[0] = next(iter(lay.streams.values()))
                st = stream[0]
                samples.append(0 if st is None else len(st.response_body_buf if resp else st.request_body_buf))
                if head_at[0] is None and split_head(w.sent_to(peer))[0] is not None and not (resp and status_of(w.sent_to(peer)) != 200):
                    head_at[0] = i

            def frame_head():
                if framing == "cl": return b"Content-Length: %d\r\n" % (sub["cl"] if wire else len(body))
                if framing == "chunked": return te_header(sub)
                return b""
            if resp:
                src = "server0"
                head = b"HTTP/1.1 200 OK\r\n" + frame_head() + b"\r\n"
                if src not in w.conns: raise RuntimeError("no upstream connection was opened")
            else:
                src = "client"
                head = b"POST http://a.example/p HTTP/1.1\r\nHost: a.example\r\n" + frame_head() + b"\r\n"
            segs = [b"%x\r\n%s\r\n" % (len(c), c) for c in chunks] if framing == "chunked" else list(chunks)
            # deliveries: the head (optionally glued to the first chunk), every chunk, the end marker
            deliveries = []
            if sub.get("glue") and segs:
                deliveries.append(("d", head + segs[0])); rest = segs[1:]
            else:
                deliveries.append(("d", head)); rest = segs
            deliveries += [("d", x) for x in rest]
            if framing == "chunked": deliveries.append(("d", b"0\r\n\r\n"))
            if framing == "eof": deliveries.append(("close", None))
            if wire:
                # raw wire bytes in an arbitrary segmentation (not aligned with chunks), optionally the peer's close
                deliveries = [("d", head)] + [("d", unhx(x)) for x in sub["segs"]] + ([("close", None)] if sub["close"] else [])
            for i, (k, d) in enumerate(deliveries):
                if k == "d": w.recv(src, d)
                else: w.peer_close(src)
                sample(i)
            fl = seen["flow"]
            msg = None if fl is None else (fl.response if resp else fl.request)
            raw = w.sent_to(peer)
            phead, pbody = split_head(raw)
            # per-SendData pieces after the head (content-length / until-eof framing: one SendData per relayed chunk)
            pieces, acc = [], b""
            for lab, data in w.sent_log:
                if lab != peer: continue
                if phead is not None and len(acc) >= len(phead): pieces.append(data)
                acc += data
            out_framing = None
            peer_chunks, framing_ok, leftover = [], True, b""
            relayed = phead is not None and not (resp and status_of(raw) != 200)
            if relayed:
                hl = phead.lower()
                if head_says_chunked(phead):
                    out_framing = "chunked"
                    peer_chunks, framing_ok, leftover = read_chunked(pbody)
                else:
                    out_framing = "cl" if b"content-length:" in hl else "eof"
                    peer_chunks = [p for p in pieces if p]
            client_raw = w.sent_to("client")
            content = None if msg is None else msg.raw_content
            errs = seen["err"][err0:]
            return {
                "rejected": False,
                "errors": errs,
                "client_status": status_of(client_raw),
                "client_closed": ctx.client.state.name == "CLOSED",
                "relayed": relayed, "head_at": head_at[0], "out_framing": out_framing,
                "peer_chunks": [hx(c) for c in peer_chunks], "framing_ok": bool(framing_ok), "leftover_hex": hx(leftover),
                "samples": samples, "content_hex": None if content is None else hx(content),
                "crash": [e[0] + ": " + e[1] for e in w.errors],
                "n_deliveries": len(deliveries),
                "proto_err": any("HTTP/1 protocol error" in e for e in errs),
                "trailer": trailer_seen(lay, ctx, resp, w, any("HTTP/1 protocol error" in e and "peer closed connection" not in e for e in errs)),
                # what else the outside sees of HttpStream's outputs: hooks of this direction, the error sent upstream
                "n_headers_hook": seen.get("hooks", [])[hook0:].count("responseheaders" if resp else "requestheaders"),
                "n_message_hook": seen.get("hooks", [])[hook0:].count("response" if resp else "request"),
                "server_killed": any(t[0] == "close" and t[1] == "server0" and t[2] is False for t in w.trace),
                "end_seen": (bool(framing_ok) and leftover == b"") if (relayed and out_framing == "chunked") else None,
            }
        if not resp_main:
            return phase(False, case)
        if pre is None:
            w.recv("client", b"GET http://a.example/p HTTP/1.1\r\nHost: a.example\r\n\r\n")
            return phase(True, case)
        # an exchange with a request body and a response body
        sub = dict(pre, op="flow")
        obs_req = phase(False, sub)
        if any(LIMIT_MSG in e for e in obs_req["errors"]) or not obs_req["relayed"] or "server0" not in w.conns:
            return {"rejected": False, "pre": obs_req, "main": None, "crash": obs_req["crash"]}
        obs = phase(True, case)
        return {"rejected": False, "pre": obs_req, "main": obs, "crash": obs["crash"]}


# ---- exchanges over HTTP/1 or HTTP/2 peers, with the response arriving before / during / after the request body --------
import h2.config, h2.connection, h2.events


class H2Peer:
    """a real hyper-h2 state machine as the client of, or the server behind, mitmproxy"""

    def __init__(self, client_side):
        self.c = h2.connection.H2Connection(h2.config.H2Configuration(client_side=client_side, header_encoding=False,
                                                                      validate_inbound_headers=False))
        self.c.initiate_connection()
        self.head, self.chunks, self.ended, self.reset, self.sid = None, [], False, False, None

    def receive(self, data):
        for ev in self.c.receive_data(data):
            if isinstance(ev, (h2.events.RequestReceived, h2.events.ResponseReceived)):
                self.head, self.sid = dict(ev.headers), ev.stream_id
            elif isinstance(ev, h2.events.DataReceived):
                if ev.data: self.chunks.append(bytes(ev.data))
                self.c.acknowledge_received_data(ev.flow_controlled_length, ev.stream_id)
            elif isinstance(ev, h2.events.StreamEnded): self.ended = True
            elif isinstance(ev, h2.events.StreamReset): self.reset = True


def run_x2(case):
    """one exchange: client protocol cp, upstream protocol sp, request body and response body; the response block is
    delivered as soon as at least case['resp_at'] request chunks have been delivered AND the upstream has the request"""
    cp, sp = case["cp"], case["sp"]
    rq, rs = case["pre"], case
    pols = {False: rq["policy"], True: rs["policy"]}
    with taddons.context(proxyserver.Proxyserver()) as tctx:
        tctx.options.update(body_size_limit=case["limit"], stream_large_bodies=case["thr"],
                            store_streamed_bodies=bool(case["store"]), http2_ping_keepalive=0,
                            validate_inbound_headers=not needs_novalidate(case))
        ctx = make_context(opts=tctx.options)
        if cp == "h2": ctx.client.alpn = b"h2"
        lay = http.HttpLayer(ctx, HTTPMode.regular)
        seen = {"flow": None, "err": []}
        stream = [None]

        def on_hook(w, h):
            if stream[0] is None and lay.streams: stream[0] = next(iter(lay.streams.values()))
            if h.name == "server_connected" and sp == "h2": h.data.server.alpn = b"h2"
            f = getattr(h, "flow", None)
            if f is not None and hasattr(f, "request"): seen["flow"] = f
            for is_resp, hook in ((False, "requestheaders"), (True, "responseheaders")):
                if h.name == hook and pols[is_resp] != "none":
                    (f.response if is_resp else f.request).stream = policy_value(pols[is_resp])
            if h.name == "error":
                seen["err"].append((f.error.msg if f.error else ""))
            seen.setdefault("hooks", []).append(h.name)
        w = World(lay, ctx, on_hook=on_hook)
        w.start()
        cl = H2Peer(True) if cp == "h2" else None
        sv = [None]
        off = {"client": 0, "server0": 0}

        def pump():
            """let the peers read what mitmproxy wrote, and deliver what they have to say (settings, acks, window updates)"""
            for _ in range(6):
                moved = False
                for lab in ("client", "server0"):
                    raw = w.sent_to(lab)
                    new, off[lab] = raw[off[lab]:], len(raw)
                    peer = cl if lab == "client" else sv[0]
                    if lab == "server0" and sp == "h2" and sv[0] is None and "server0" in w.conns:
                        sv[0] = peer = H2Peer(False)
                    if peer is None: continue
                    if new:
                        try: peer.receive(new)
                        except Exception as e: seen.setdefault("h2err", []).append(type(e).__name__)
                    out = peer.c.data_to_send()
                    if out: moved = w.recv(lab, out) or moved
                if not moved: break
        if cl is not None:
            w.recv("client", cl.c.data_to_send()); pump()

        def peer_view(resp):
            """(head seen?, status, chunks, ended properly, stray bytes) as the peer of direction `resp` sees it"""
            lab, proto = ("client", cp) if resp else ("server0", sp)
            if proto == "h2":
                peer = cl if resp else sv[0]
                if peer is None or peer.head is None: return False, None, [], False, b""
                st = peer.head.get(b":status")
                return True, (int(st) if st else None), list(peer.chunks), peer.ended and not peer.reset, b""
            raw = w.sent_to(lab)
            phead, pbody = split_head(raw)
            if phead is None: return False, None, [], False, b""
            status = status_of(raw) if resp else None
            if head_says_chunked(phead):
                chunks, ok, left = read_chunked(pbody)
                return True, status, chunks, ok, left
            pieces, acc = [], b""
            for l2, data in w.sent_log:
                if l2 != lab: continue
                if len(acc) >= len(phead): pieces.append(data)
                acc += data
            return True, status, [p for p in pieces if p], True, b""

        sides = {False: {"samples": [], "head_at": None, "n": 0, "err0": 0}, True: {"samples": [], "head_at": None, "n": 0, "err0": 0}}

        def after_delivery(resp):
            pump()
            sd = sides[resp]
            if stream[0] is None and lay.streams: stream[0] = next(iter(lay.streams.values()))
            st = stream[0]
            sd["samples"].append(0 if st is None else len(st.response_body_buf if resp else st.request_body_buf))
            seen_head, status, _, _, _ = peer_view(resp)
            if sd["head_at"] is None and seen_head and not (resp and status != 200): sd["head_at"] = sd["n"]
            sd["n"] += 1

        def message(resp, sub):
            """the deliveries of one message: list of thunks"""
            chunks = [unhx(c) for c in sub["chunks"]]
            body = b"".join(chunks)
            proto = sp if resp else cp
            lab = "server0" if resp else "client"
            fr = sub["framing"]
            out = []
            if proto == "h1":
                fh = b"Content-Length: %d\r\n" % len(body) if fr == "cl" else te_header(sub) if fr == "chunked" else b""
                head = (b"HTTP/1.1 200 OK\r\n" if resp else b"POST http://a.example/p HTTP/1.1\r\nHost: a.example\r\n") + fh + b"\r\n"
                out.append(lambda: w.recv(lab, head))
                for c in chunks:
                    out.append(lambda c=c: w.recv(lab, (b"%x\r\n%s\r\n" % (len(c), c)) if fr == "chunked" else c))
                if fr == "chunked": out.append(lambda: w.recv(lab, b"0\r\n\r\n"))
                if fr == "eof": out.append(lambda: w.peer_close(lab))
            else:
                def hdrs():
                    peer = sv[0] if resp else cl
                    if resp: h = [(b":status", b"200")]
                    else: h = [(b":method", b"POST"), (b":scheme", b"http"), (b":authority", b"a.example"), (b":path", b"/p")]
                    if fr == "cl": h.append((b"content-length", str(len(body)).encode()))
                    sid = peer.sid if resp else 1
                    peer.c.send_headers(sid, h, end_stream=(fr == "cl" and not chunks))
                    w.recv(lab, peer.c.data_to_send())
                out.append(hdrs)
                for i, c in enumerate(chunks):
                    def data(c=c, last=(fr == "cl" and i == len(chunks) - 1)):
                        peer = sv[0] if resp else cl
                        peer.c.send_data(peer.sid if resp else 1, c, end_stream=last)
                        w.recv(lab, peer.c.data_to_send())
                    out.append(data)
                if fr != "cl":
                    def end():
                        peer = sv[0] if resp else cl
                        peer.c.send_data(peer.sid if resp else 1, b"", end_stream=True)
                        w.recv(lab, peer.c.data_to_send())
                    out.append(end)
            return out

        req_msgs = message(False, rq)
        n_req_data = len(rq["chunks"])
        resp_done = [False]
        resp_pos = [None]

        def upstream_has_request():
            if "server0" not in w.conns: return False
            if sp == "h2": return sv[0] is not None and sv[0].sid is not None
            return split_head(w.sent_to("server0"))[0] is not None

        def maybe_respond(k):
            """k = request data deliveries made so far (n+1: the request is complete)"""
            if resp_done[0] or k < min(case["resp_at"], n_req_data + 1) or not upstream_has_request(): return
            if any(LIMIT_MSG in e for e in seen["err"]): return
            resp_done[0] = True; resp_pos[0] = k
            sides[True]["err0"] = len(seen["err"])
            for th in message(True, rs):
                th(); after_delivery(True)
        # request head
        req_msgs[0](); after_delivery(False)
        k = 0
        for th in req_msgs[1:]:
            maybe_respond(min(k, n_req_data))
            th(); after_delivery(False)
            k += 1
        maybe_respond(n_req_data + 1)
        fl = seen["flow"]

        def side_obs(resp):
            sd = sides[resp]
            seen_head, status, chunks, ended, left = peer_view(resp)
            relayed = seen_head and not (resp and status != 200)
            msg = None if fl is None else (fl.response if resp else fl.request)
            content = None if msg is None else msg.raw_content
            # errors: the limit error is attributed to the direction it names
            word = "Response" if resp else "Request"
            errs = [e for e in seen["err"] if not (LIMIT_MSG in e and not e.startswith(word))]
            cst = peer_view(True)[1] if cp == "h2" else status_of(w.sent_to("client"))
            return {"rejected": False, "errors": errs, "client_status": cst, "client_closed": ctx.client.state.name == "CLOSED",
                    "relayed": relayed, "head_at": sd["head_at"], "out_framing": None,
                    "peer_chunks": [hx(c) for c in chunks] if relayed else [], "framing_ok": bool(ended) if relayed else True,
                    "leftover_hex": hx(left), "samples": sd["samples"],
                    "content_hex": None if content is None else hx(content),
                    "crash": [e[0] + ": " + e[1] for e in w.errors] + seen.get("h2err", []),
                    "n_deliveries": sd["n"], "proto_err": False, "trailer": False,
                    "n_headers_hook": seen.get("hooks", []).count("responseheaders" if resp else "requestheaders"),
                    "n_message_hook": seen.get("hooks", []).count("response" if resp else "request"),
                    "server_killed": (sv[0] is not None and sv[0].reset) if sp == "h2" else
                                     any(t[0] == "close" and t[1] == "server0" and t[2] is False for t in w.trace),
                    "end_seen": None}
        obs_req = side_obs(False)
        obs_resp = side_obs(True) if resp_done[0] else None
        return {"rejected": False, "pre": obs_req, "main": obs_resp, "at": resp_pos[0], "crash": obs_req["crash"]}


def trailer_seen(lay, ctx, resp, w, proto_err):
    """the chunked reader met a non-empty trailer section (mitmproxy: NotImplementedError once it is complete)"""
    if any(e[0] == "NotImplementedError" for e in w.errors): return True
    try:
        conn = w.conns["server0"] if resp else ctx.client
        h1 = lay.connections[conn]
        while not hasattr(h1, "body_reader") and hasattr(h1, "child_layer"): h1 = h1.child_layer
        rd = getattr(h1, "body_reader", None)
        return bool(getattr(rd, "_reading_trailer", False)) and h1.state.__name__ == "read_body" \
            and (proto_err or bytes(h1.buf) not in (b"", b"\r"))
    except Exception:
        return False


def wire_body(case):
    """independent decode of a wire case: (body, index of the delivery that completes the message) or (None, None)"""
    raw = b"".join(unhx(x) for x in case["segs"])
    segl = [len(unhx(x)) for x in case["segs"]]

    def delivery_of(nbytes):      # deliveries: 0 = head, i+1 = segment i
        acc = 0
        for i, n in enumerate(segl):
            acc += n
            if acc >= nbytes: return i + 1
        return None
    fr = case["framing"]
    if fr == "cl":
        n = case["cl"]
        if len(raw) < n: return None, None
        return raw[:n], (0 if n == 0 else delivery_of(n))
    if fr == "eof":
        if not case["close"]: return None, None
        return raw, len(segl) + 1
    # chunked, strict: HEXDIG+ CRLF data CRLF ... 0 CRLF CRLF, no extensions
    chunks, ok, left = read_chunked(raw)
    if not ok: return None, None
    return b"".join(chunks), delivery_of(len(raw) - len(left))


def chunkings(body: bytes, k: int):
    """every way to cut body into exactly k non-empty consecutive pieces"""
    n = len(body)
    for cuts in itertools.combinations(range(1, n), k - 1):
        idx = (0,) + cuts + (n,)
        yield [body[idx[i]:idx[i + 1]] for i in range(k)]


class Check(PropertyCheck):
    prop = "C07"
    design_ref = "§5 C07"
    level_text = ("Lean theorems about an executable model of HttpStream's body handling (check_body_size with its early/late "
                  "case and abort-before-stream order, the consume and stream states, the late switch to streaming, the stream "
                  "callable as an arbitrary function, store_streamed_bodies), of the HTTP/1 body readers that feed it "
                  "(ContentLengthReader, ChunkedReader incl. chunk extensions / OWS / footer check / last-chunk, Http10Reader, as "
                  "driven by Http1Connection.read_body) as an Incremental byte consumer, and of human.parse_size over the "
                  "regenerated SIZE_UNITS table — for ALL option values, expected sizes, wire bytes, segmentations, chunk lists "
                  "and callables (induction): over_limit_errors, buffer_bound_partial (+ buffer_bound_counterexample for the "
                  "recorded finding), stored_after_late_switch / stored_iff_option_late / content_none_until_done (what the flow keeps "
                  "after a LATE switch to streaming), response_side_independent / request_side_independent / request_verdict_never_reaches_response / upload_unaffected_by_response_timing, "
                  "response_over_limit_errors_in_exchange, stream_starts_when_due / late_switch_when_due (when streaming is due it "
                  "starts), writer_identity_exact / reader_inverts_writer / streamed_wire_exact (the HTTP/1 writers' body framing — "
                  "transcribed and tied by the `frame` op to the real Http1Client.send / Http1Server.send — read back by the chunked "
                  "reader is one complete message carrying exactly the transformed bytes), writer_agrees_with_reader (for every "
                  "Transfer-Encoding value the reader accepts the writers' chunk-framing test gives the reader's answer; over C01's parseTE) "
                  "(one exchange: the request-side verdict, flags and buffers never take part in the response side), streamed_exact, relayed_exact_any_chunking, relayed_exact_events, stored_iff_option, "
                  "unstored_stream_holds_nothing, reader_lawful / reader_segmentation_independent, wire_events_carry_body, "
                  "wire_body_segmentation_independent, wire_relay_segmentation_independent, wireRun_is_run_over_segEvents / "
                  "wireRun_segmentation_independent (the tied receive path itself: the same wire bytes in any two "
                  "segmentations deliver the same bytes to the peer), parseSize laws. The model is tied to the real "
                  "HttpLayer/HttpStream/Http1 stack run through world.py: error hook, the error response reaching the client (errClient) and the error sent upstream "
                  "(errServer), how often the headers hook and the message hook of the direction fired, the end of the message on a "
                  "chunked peer side, the exact chunk list the peer "
                  "receives, the buffer length after every delivery, the stored content and the readers' verdict are compared for "
                  "every Transfer-Encoding spelling the reader takes for chunked (case, coding lists with OWS/tabs, two header lines), "
                  "both directions, HTTP/1 and HTTP/2 peers on either side (all four pairs) with the response arriving before, during "
                  "or after the request body (also both in ONE exchange: request body and response body with independently drawn sizes), three framings, all option combinations, fourteen stream policies, chunk-aligned deliveries "
                  "AND raw wire bytes (well-formed and mutated chunked encoding) in arbitrary segmentations.")
    level_note = ("trusted: Lean kernel; the differential tie (grid + exhaustive small chunkings + random wires/segmentations). The "
                  "body readers are modelled as byte automata — a reformulation of h11's buffer-based readers (extract-at-most / "
                  "extract-next-line), validated against the real h11 0.16 readers under random segmentation, not derived from "
                  "their source; a non-empty HTTP/1 trailer section (NotImplementedError in mitmproxy) is outside the model and "
                  "excluded from comparison. HTTP/1 re-framing towards the peer is now proved against the reader model (pieces < 16^20 bytes) "
                  "and additionally checked by an independent strict chunked reader in the harness; HTTP/2 peers are real hyper-h2 state machines (plaintext, alpn set in the server_connected hook), their framing and "
                  "flow control are the library's, HTTP/3 is not driven; flows whose "
                  "response an addon sets before the body arrives are outside the model. wire_relay_segmentation_independent "
                  "is stated for runs that end `done` without a callable (with a late switch the outcome abort-vs-stream itself "
                  "depends on the segmentation in the code). partial: buffer_bound is proved under the guard 'not "
                  "(store_streamed_bodies and streaming)'; the unguarded statement is refuted by buffer_bound_counterexample "
                  "and recorded as finding F-C07a. Not rendered by the driver, hence not compared: the ORDER of HttpStream's outputs "
                  "among themselves (their framing order is tied by the `frame` op and asked by the oracle's well-framedness clause). "
                  "The oracle's 'known from the bytes buffered so far' and buffer-bound clauses read the implementation's own buffer "
                  "length (that is what the sentence is about): an implementation that under-reported len(request_body_buf) would "
                  "silence them; the model tie compares the same samples with predicted values. Lenient branches of the oracle, all structured: the NotImplementedError crash of a "
                  "non-empty HTTP/1 trailer section is waived; the 'client receives an error' clause is waived when the delivery that "
                  "shows the excess also carries malformed chunk framing (protocol error closes first); exact-bytes for wire cases is "
                  "demanded for byte-homomorphic policies only (dup/iter depend on event boundaries); length-changing callables are not "
                  "drawn under a declared content-length towards HTTP/2 peers; an empty Transfer-Encoding value is skipped in `te` cases.")
    technique = "Lean 4 proof (invariants over event lists, arbitrary stream callable) + translator table + end-to-end correspondence through the real HttpLayer"
    rule = ("grid: direction x framing (content-length, chunked, until-EOF for responses) x 2^3 option combinations "
            "(body_size_limit set?, stream_large_bodies set?, store_streamed_bodies) x 14 stream policies x body sizes in "
            "{0,1,limit-1,limit,limit+1,2*limit,threshold+-1}; every 1/2/3-way chunking of bodies of length <=5; then random "
            "bodies/chunkings/option values (incl. k/m suffixes); wire: a body framed by content-length / chunked (hex case, leading "
            "zeros, extensions, OWS; 20 % with one mutation) / until-close, cut into 1-6 segments that ignore the framing; size: parse_size on generated option strings. distinct = "
            "distinct case; non-trivial = body non-empty or option string non-trivial.")
    budget = {"quick": 3000, "thorough": 120000}
    time_budget = {"quick": 25, "thorough": 600}
    fingerprints = ["mitmproxy.proxy.layers.http:HttpStream.check_body_size",
                    "mitmproxy.proxy.layers.http:HttpStream.state_wait_for_request_headers",
                    "mitmproxy.proxy.layers.http:HttpStream.state_consume_request_body",
                    "mitmproxy.proxy.layers.http:HttpStream.state_stream_request_body",
                    "mitmproxy.proxy.layers.http:HttpStream.start_request_stream",
                    "mitmproxy.proxy.layers.http:HttpStream.state_wait_for_response_headers",
                    "mitmproxy.proxy.layers.http:HttpStream.state_consume_response_body",
                    "mitmproxy.proxy.layers.http:HttpStream.state_stream_response_body",
                    "mitmproxy.proxy.layers.http:HttpStream.start_response_stream",
                    "mitmproxy.proxy.layers.http:HttpStream.send_response",
                    "mitmproxy.proxy.layers.http._http1:Http1Client.send",
                    "mitmproxy.proxy.layers.http._http1:Http1Server.send",
                    "mitmproxy.proxy.layers.http._http1:Http1Connection.read_body",
                    "mitmproxy.proxy.layers.http._http1:make_body_reader",
                    "mitmproxy.proxy.layers.http._http2:Http2Client.handle_h2_event",
                    "mitmproxy.proxy.layers.http._http2:Http2Connection.handle_h2_event",
                    "mitmproxy.proxy.layers.http._http2:Http2Connection._handle_event",
                    "mitmproxy.net.http.validate:parse_transfer_encoding",
                    "mitmproxy.net.http.http1.read:expected_http_body_size",
                    "mitmproxy.utils.human:parse_size",
                    "mitmproxy.addons.proxyserver:Proxyserver.configure"]
    trusted_base = ["h11 body readers (ContentLengthReader/ChunkedReader/Http10Reader) as the source of data events",
                    "CPython int(str) for ASCII input as transcribed in the model (pyInt)"]
    parallel = True

    def setup(self, tier):
        # the quick tier is faster in one process than the start-up of 16 forked workers
        self.parallel = tier == "thorough"
        self.known_selftest()

    # ---- translator -------------------------------------------------------------------------------------------
    def translate(self):
        rows = list(human.SIZE_UNITS.items())
        for k, v in rows:
            if not (isinstance(k, str) and k.isascii() and isinstance(v, int) and v >= 0):
                raise RuntimeError("SIZE_UNITS has a shape the translator does not know")
        L = ["/- generated by harness/c07.py translate() from /repo — do not edit -/",
             "import MitmVerif.Basic.Bytes", "namespace MitmVerif.Gen.C07", "open MitmVerif", "",
             "/-- mitmproxy.utils.human.SIZE_UNITS in dict order: (suffix as ASCII bytes, multiplier) -/",
             "def sizeUnits : List (Bytes × Nat) := ["
             + ", ".join("([" + ", ".join(str(b) for b in k.encode()) + "], " + str(v) + ")" for k, v in rows) + "]",
             "", "end MitmVerif.Gen.C07", ""]
        return {"MitmVerif/Gen/C07.lean": "\n".join(L)}

    # ---- generator --------------------------------------------------------------------------------------------
    @staticmethod
    def _flow(d, framing, limit, thr, store, policy, chunks, glue=False):
        return {"op": "flow", "dir": d, "framing": framing, "limit": limit, "thr": thr, "store": int(store),
                "policy": policy, "chunks": [hx(c) for c in chunks], "glue": bool(glue)}

    def generate(self, rng, tier):
        """every message with chunked framing gets one of the Transfer-Encoding spellings the reader accepts"""
        for case in self._generate(rng, tier):
            for side in (case, case.get("pre")):
                if isinstance(side, dict) and side.get("framing") == "chunked" and "te" not in side:
                    side["te"] = rng.pick(TE_SPELLINGS)
            yield case

    @staticmethod
    def _te(rng):
        codings = ["chunked", "gzip", "deflate", "compress", "identity", "Chunked", "GZIP", "br", "x-chunked", "chunkedx", ""]
        n = rng.pick([1, 1, 2, 2, 3])
        v = ""
        for i in range(n):
            if i: v += rng.pick(["", " ", "\t", "  "]) + "," + rng.pick(["", " ", "\t", " \t"])
            v += rng.pick(codings)
        if rng.chance(0.05): v = rng.pick([" ", "\t"]) + v
        if rng.chance(0.05): v += rng.pick([" ", ";q=1", ","])
        return {"op": "te", "v_hex": hx(v.encode())}

    @staticmethod
    def _frame(rng):
        n = rng.randint(0, 5)
        chunks = []
        for _ in range(n):
            k = rng.pick([0, 1, 1, 2, 9, 10, 15, 16, 17, 255, 256, rng.randint(0, 40), 4096])
            chunks.append(hx(bytes(rng.getrandbits(8) for _ in range(k)) if k < 300 else bytes([rng.getrandbits(8)]) * k))
        return {"op": "frame", "dir": rng.pick(["req", "resp"]), "chunked": rng.randint(0, 1), "chunks": chunks}

    def _generate(self, rng, tier):
        for d in ("req", "resp"):
            for ch in ([], ["-"], ["61"], ["61", "-", "6263"], ["-", "-"], ["30"], ["0d0a300d0a0d0a"]):
                for c in (0, 1):
                    yield {"op": "frame", "dir": d, "chunked": c, "chunks": ch}
        for v in [x for x in TE_SPELLINGS if not x.startswith("2lines")] + ["gzip", "identity", "chunked, gzip", "chunked,chunked", "br, chunked",
                                                                            "chunkedx", "x-chunked", " chunked", "chunked ", ",chunked"]:
            yield {"op": "te", "v_hex": hx(v.encode())}
        for s in ["0", "1", "10", "1k", "1m", "2g", "1t", "3b", "k", "", "1K", "1kb", " 7 ", "1_0", "1__0", "_1", "+5", "-5",
                  "- 5", "5 k", " 5k", "5k ", "0x10", "1e3", "١٢", "1.5m", "00012", "\x1c3", "12\n"]:
            yield {"op": "size", "s_hex": hx(s.encode())}
        framings = {"req": ["cl", "chunked"], "resp": ["cl", "chunked", "eof"]}
        LIM, THR = 6, 3
        sizes = sorted({0, 1, LIM - 1, LIM, LIM + 1, 2 * LIM, THR - 1, THR, THR + 1})
        alpha = b"abcdefghijklmnopqrstuvwxyz"

        def body_of(n, off=0): return bytes(alpha[(off + i) % 26] for i in range(n))

        def cuts_of(body):
            yield [body] if body else []
            if len(body) >= 2: yield [body[:1], body[1:]]
            if len(body) >= 3: yield [body[:len(body) // 2], body[len(body) // 2:-1], body[-1:]]
        # the grid of the design: options x policy x framing x direction x sizes, and every 1/2/3-way chunking of
        # small bodies; enumerated completely, visited in a seed-dependent order (the quick tier sees a slice of it,
        # the thorough tier all of it)
        grid = []
        for d in ("req", "resp"):
            for fr in framings[d]:
                for lim, thr, store in itertools.product((None, str(LIM)), (None, str(THR)), (0, 1)):
                    for pol in POLICIES:
                        for n in sizes:
                            for ch in cuts_of(body_of(n)):
                                grid.append(self._flow(d, fr, lim, thr, store, pol, ch))
        for n in range(1, 6):
            body = body_of(n, 3)
            for k in (1, 2, 3):
                for ch in chunkings(body, k):
                    for d in ("req", "resp"):
                        for fr in framings[d]:
                            for lim, thr in (("3", None), (None, "2"), ("4", "2"), ("2", "4")):
                                grid.append(self._flow(d, fr, lim, thr, rng.randint(0, 1), rng.pick(POLICIES), ch, glue=rng.chance(0.3)))
        # exchanges: request body x response body, sizes {0, small, = threshold, > threshold, = limit, > limit} drawn
        # independently per direction, x framing x options (the request side must not influence the response side)
        xgrid = []
        for lim, thr in (("6", "-"), ("-", "3"), ("6", "3")):
            for nq in (1, 3, 4, 6, 7):
                for nr in (0, 1, 3, 4, 6, 7, 12):
                    for frq in ("cl", "chunked"):
                        for frr in ("cl", "chunked", "eof"):
                            xgrid.append(self._exch(rng, lim, thr, None, nq, nr, frq, frr, "none", "none"))
        rng.shuffle(grid); rng.shuffle(xgrid)
        if tier == "quick": grid, xgrid = grid[:1200], xgrid[:400]
        x2grid = [self._x2(rng, cp, sp, at) for cp in ("h1", "h2") for sp in ("h1", "h2") for at in (0, 1, 2, 9) for _ in range(12 if tier == "quick" else 60)]
        rng.shuffle(x2grid)
        yield from xgrid
        yield from x2grid
        yield from grid
        sz = lambda n: str(n)
        while True:
            r = rng.random()
            if r < 0.06:
                yield {"op": "size", "s_hex": hx(self._size_string(rng).encode("utf-8"))}
                continue
            if r < 0.1:
                yield self._te(rng)
                continue
            if r < 0.14:
                yield self._frame(rng)
                continue
            if r < 0.4:
                yield self._wire(rng)
                continue
            if r < 0.55:
                yield self._exch(rng)
                continue
            if r < 0.7:
                yield self._x2(rng)
                continue
            d = rng.pick(["req", "resp"])
            fr = rng.pick(framings[d])
            big = rng.chance(0.08)
            if big:   # around a suffixed threshold
                lim_n, thr_n = 1024, rng.pick([512, 1024, 2048])
                lim, thr = rng.pick([None, "1k", "1024"]), rng.pick([None, str(thr_n), "1k" if thr_n == 1024 else "2k" if thr_n == 2048 else "512"])
                n = rng.pick([lim_n - 1, lim_n, lim_n + 1, thr_n - 1, thr_n, thr_n + 1, 2 * lim_n])
                body = bytes(rng.getrandbits(8) for _ in range(n))
                ch = rng.split(body, rng.randint(1, 4))
            else:
                lim_n, thr_n = rng.randint(0, 12), rng.randint(0, 12)
                lim = rng.pick([None, sz(lim_n), sz(lim_n)]); thr = rng.pick([None, sz(thr_n), sz(thr_n)])
                if rng.chance(0.03): lim = rng.pick(["-1", "1_0", " 8", "+4"])
                n = rng.pick([0, 1, max(lim_n - 1, 0), lim_n, lim_n + 1, 2 * lim_n, max(thr_n - 1, 0), thr_n, thr_n + 1, rng.randint(0, 30)])
                body = bytes(rng.pick(alpha + b"AB0\r\n") for _ in range(n))
                ch = rng.split(body, rng.randint(1, 5)) if body else []
            if r > 0.97 and rng.chance(0.5): lim = self._size_string(rng)      # possibly rejected option value
            yield self._flow(d, fr, lim, thr, rng.randint(0, 1), rng.pick(POLICIES), ch, glue=rng.chance(0.25))

    @staticmethod
    def _exch(rng, lim=None, thr=None, store=None, nq=None, nr=None, frq=None, frr=None, pq=None, pr=None):
        """an exchange whose request AND response carry a body; sizes, framings and policies drawn independently"""
        alpha = b"abcdefghijklmnopqrstuvwxyz"
        L, T = 6, 3
        lim = rng.pick([None, str(L), str(L)]) if lim is None else (None if lim == "-" else lim)
        thr = rng.pick([None, str(T), str(T)]) if thr is None else (None if thr == "-" else thr)
        sizes = [0, 1, T, T + 1, L, L + 1, 2 * L]
        def side(n, fr, pol, frs):
            n = rng.pick(sizes) if n is None else n
            body = bytes(alpha[i % 26] for i in range(n))
            return {"framing": fr or rng.pick(frs), "chunks": [hx(c) for c in (rng.split(body, rng.randint(1, 3)) if body else [])],
                    "policy": pol or rng.pick(["none", "none", "none", "true", "false", "id", "upper", "gen", "drop", "mark"]),
                    "glue": rng.chance(0.2)}
        q = side(nq, frq, pq, ["cl", "chunked"]); r = side(nr, frr, pr, ["cl", "chunked", "eof"])
        c = {"op": "exch", "dir": "resp", "limit": lim, "thr": thr, "store": rng.randint(0, 1) if store is None else store, "pre": q}
        c.update(r)
        return c

    @staticmethod
    def _x2(rng, cp=None, sp=None, resp_at=None):
        """exchange over HTTP/1 or HTTP/2 peers (all four pairs), both bodies possibly streamed, the response arriving
        before / during / after the request body.  No body_size_limit here: the streamed-exactness clauses are the point."""
        alpha = b"abcdefghijklmnopqrstuvwxyz"
        cp = cp or rng.pick(["h1", "h2"]); sp = sp or rng.pick(["h1", "h2"])
        def side(proto, resp):
            n = rng.pick([0, 1, 2, 3, 4, 7, 12])
            body = bytes(alpha[(i + (7 if resp else 0)) % 26] for i in range(n))
            frs = ["cl", "nocl"] if proto == "h2" else (["cl", "chunked", "eof"] if resp else ["cl", "chunked"])
            fr = rng.pick(frs)
            # a callable that changes the length under a declared content-length makes an HTTP/2 peer reject the message
            pols = ["none", "none", "true", "true", "id", "upper", "gen"] + ([] if fr == "cl" else ["mark", "drop", "dup"])
            return {"framing": fr, "chunks": [hx(c) for c in (rng.split(body, rng.randint(1, 4)) if body else [])],
                    "policy": rng.pick(pols), "glue": False}
        q = side(cp, False); r = side(sp, True)
        n = len(q["chunks"])
        c = {"op": "x2", "dir": "resp", "cp": cp, "sp": sp, "limit": None, "thr": rng.pick([None, "2", "2", "5"]),
             "store": rng.randint(0, 1), "resp_at": rng.randint(0, n + 1) if resp_at is None else resp_at, "pre": q}
        c.update(r)
        return c

    @staticmethod
    def _wire(rng):
        """a body on the wire, cut into segments that ignore the framing; mostly well-formed"""
        d = rng.pick(["req", "resp"])
        fr = rng.pick(["cl", "chunked", "chunked"] if d == "req" else ["cl", "chunked", "chunked", "eof"])
        alpha = b"abcdefghijklmnopqrstuvwxyz0123456789;= "
        n = rng.pick([0, 1, 2, 3, 5, 6, 7, 12, rng.randint(0, 40)])
        body = bytes(rng.pick(alpha) for _ in range(n))
        close, cl = False, None
        if fr == "cl":
            cl = len(body)
            r = rng.random()
            if r < 0.08: cl += rng.randint(1, 3); close = d == "resp" and rng.chance(0.5)     # body shorter than declared
            elif r < 0.12 and cl: cl -= 1                                                        # trailing extra byte
            raw = body
        elif fr == "eof":
            raw, close = body, rng.chance(0.9)
        else:
            parts = rng.split(body, rng.randint(1, 4)) if body else []
            raw = b""
            for pc in parts:
                size = (b"%x" if rng.chance(0.7) else b"%X") % len(pc)
                if rng.chance(0.1): size = b"0" * rng.randint(1, 3) + size
                ext = rng.pick([b"", b"", b"", b";x=1", b" ", b"\t ", b";a\rb", b"; q"])
                raw += size + ext + b"\r\n" + pc + b"\r\n"
            raw += rng.pick([b"0", b"0", b"00", b"0;last"]) + b"\r\n\r\n"
            r = rng.random()
            if r < 0.2 and raw:      # one mutation
                i = rng.randint(0, len(raw) - 1)
                kind = rng.pick(["flip", "drop", "dup", "cut", "lf", "long"])
                if kind == "flip": raw = raw[:i] + bytes([rng.pick(b"gG xz\r\n;0")]) + raw[i + 1:]
                elif kind == "drop": raw = raw[:i] + raw[i + 1:]
                elif kind == "dup": raw = raw[:i] + raw[i:i + 1] + raw[i:]
                elif kind == "cut": raw = raw[:i]
                elif kind == "lf": raw = raw.replace(b"\r\n", b"\n", 1)
                else: raw = b"0" * 21 + raw
            # a non-empty trailer section is not supported by mitmproxy (NotImplementedError): keep it out
            if b"\r\n0" in raw or raw.startswith(b"0"):
                t = raw.rfind(b"\r\n\r\n")
                if t < 0 and not raw.endswith(b"\r"): pass
            close = d == "resp" and rng.chance(0.1)
        segs = rng.split(raw, rng.randint(1, 6)) if raw else []
        lim = rng.pick([None, None, "6", "3", "12"]); thr = rng.pick([None, None, "3", "5", "2"])
        return {"op": "wire", "dir": d, "framing": fr, "cl": cl, "segs": [hx(x) for x in segs], "close": bool(close),
                "limit": lim, "thr": thr, "store": rng.randint(0, 1), "policy": rng.pick(POLICIES)}

    @staticmethod
    def _size_string(rng):
        r = rng.random()
        digits = "".join(rng.pick("0123456789") for _ in range(rng.randint(1, 6)))
        if r < 0.35: return digits + rng.pick(["", "b", "k", "m", "g", "t"])
        if r < 0.6: return rng.pick(["", " ", "+", "-", "\t"]) + digits + rng.pick(["", " ", "_", "k", "K", "kb", " k", "k "])
        if r < 0.8:
            s = list(digits + rng.pick(["", "k", "m"]))
            s.insert(rng.randint(0, len(s)), rng.pick(list("_ +-kmbgtx.\n\x1c\x0b")))
            return "".join(s)
        return "".join(rng.pick("0123456789_ +-kmbgtKx.\t\n\x1f") for _ in range(rng.randint(0, 6)))

    # ---- implementation ---------------------------------------------------------------------------------------
    def impl(self, case):
        if case["op"] == "size":
            s = unhx(case["s_hex"]).decode("utf-8")
            if not s.isascii(): raise Skip()
            human.parse_size.cache_clear()
            try:
                return {"size": human.parse_size(s)}
            except ValueError:
                return {"size": "err"}
        if case["op"] == "frame":
            return frame_probe(case)
        if case["op"] == "te":
            if not unhx(case["v_hex"]): raise Skip()      # an empty value is "no Transfer-Encoding" to headers.get(): not a TE value
            return te_probe(unhx(case["v_hex"]))
        if case["op"] == "x2":
            obs = run_x2(case)
            self._stash = (json.dumps(case, sort_keys=True), obs)
            return obs
        return run_flow(case)      # (non-ASCII option strings: the implementation and the oracle still run; only the
                                   #  ASCII-only model abstains, see model_lines)

    # ---- oracle: the property statement over the implementation's observable ----------------------------------------
    @staticmethod
    def _sides(case, obs):
        """an exchange = a request-side flow case and a response-side flow case with their own observations"""
        shared = {k: case[k] for k in ("limit", "thr", "store")}
        req = dict(case["pre"], op="flow", dir="req", **shared)
        rsp = {k: v for k, v in case.items() if k != "pre"}; rsp["op"] = "flow"
        for sub, e in ((req, "cl:0"), (rsp, "eof")):
            if sub["framing"] == "nocl":        # HTTP/2 message without content-length: head, DATA frames, END_STREAM
                sub["framing"], sub["exp"] = "chunked", e
        if case["op"] == "x2":      # the end-of-message bit is only compared on HTTP/1 chunked peers of one-protocol cases
            req["h2peer"] = rsp["h2peer"] = True
        return [("req", req, obs["pre"]), ("resp", rsp, obs["main"])]

    def oracle(self, case, obs):
        if case["op"] == "size" or obs.get("rejected"): return []
        if case["op"] == "frame":
            # "the peer receives exactly the received bytes": read with the independent strict reader, what was written
            # for the data events is one well-framed body carrying exactly their bytes, piece by piece
            chunks = [unhx(c) for c in case["chunks"]]
            out = unhx(obs["wire_hex"])
            if not case["chunked"]:
                return [] if out == b"".join(chunks) else [f"frame: wrote {out[:60]!r} for {b''.join(chunks)[:60]!r}"]
            got, ok, left = read_chunked(out)
            if not ok or left: return [f"frame: not one well-framed chunked body: {out[:80]!r}"]
            return [] if got == [c for c in chunks if c] else [f"frame: chunks {got[:4]} written for {chunks[:4]}"]
        if case["op"] == "te":
            # a body the reader de-chunks must be chunk-framed again by the writer (and only such a body): for every
            # value the reader accepts, both must agree with the field's meaning (chunked is the final coding)
            if obs["reads"] == "err": return []
            ref = ref_final_chunked(unhx(case["v_hex"]))
            out = []
            if (obs["reads"] == "chunked") != ref: out.append(f"te: the reader takes {unhx(case['v_hex'])!r} for {obs['reads']}")
            if obs["writes"] != ref or obs["raw"] == ref:
                out.append(f"te: the writer {'does not chunk-frame' if ref else 'chunk-frames'} a body under Transfer-Encoding {unhx(case['v_hex'])!r}")
            return out
        if case["op"] in ("exch", "x2"):
            # the per-direction clauses, each on its own direction of the same exchange
            out = []
            for tag, sub, o in self._sides(case, obs):
                if o is not None: out += [f"{tag}: {f}" for f in self.oracle(sub, o)]
            return out
        fails = []
        # HTTP/1 trailers are not implemented in mitmproxy (NotImplementedError): only that crash is outside this property
        crash = [c for c in obs["crash"] if not (obs.get("trailer") and c.startswith("NotImplementedError"))]
        if crash: fails.append("layer raised: " + crash[0])
        wire = case["op"] == "wire"
        if wire:
            # independent strict decode of the wire; a segmentation-independent statement is only demanded for
            # complete well-formed messages, the body counts as one received chunk list [body]
            body, done_at = wire_body(case)
            chunks = [body] if body else []
            segl = [len(unhx(x)) for x in case["segs"]]
            dl = [0] + segl + ([0] if case["close"] else [])
            if body is None: body, chunks = b"", []
        else:
            chunks = [unhx(c) for c in case["chunks"]]
            body = b"".join(chunks)
            done_at = None
        limit = human.parse_size(case["limit"])
        errored = any(LIMIT_MSG in e for e in obs["errors"])
        peer = b"".join(unhx(c) for c in obs["peer_chunks"])
        # per delivery: the length of the body chunk that delivery carried
        if not wire: dl = self._delivery_chunk_lens(case, chunks)
        if limit is not None:
            lim0 = max(limit, 0)
            # sentence 1: "known to exceed it — from Content-Length or from the bytes buffered so far — the flow ends
            # with an error, the client receives an error, the oversized body is not forwarded"
            declared = case["cl"] if wire else len(body)
            known_cl = case["framing"] == "cl" and declared > limit and declared > 0
            # received so far per delivery; "known from the bytes buffered so far" = the buffer itself shows more than
            # the limit at a moment when that many body bytes have indeed been received
            got, recv_so_far = 0, []
            for n in dl: got += n; recv_so_far.append(got)
            known_buf = any(s > lim0 and r > lim0 for s, r in zip(obs["samples"], recv_so_far))
            if known_cl or known_buf:
                why = "Content-Length" if known_cl else "buffered bytes"
                if not errored: fails.append(f"over-limit ({why}): no error hook with the body_size_limit error")
                elif (obs["client_status"] is None or obs["client_status"] < 400) and not self._double_fault(case, obs, lim0):
                    # (a malformed chunked continuation in the same segment closes the connection as a protocol error
                    #  before the error response can be written: not demanded)
                    fails.append(f"over-limit ({why}): client did not receive an error response")
                if peer or (known_cl and obs["relayed"]): fails.append(f"over-limit ({why}): {len(peer)} body bytes were forwarded")
                # "mitmproxy never holds more than the limit plus one received chunk"
                for i, s in enumerate(obs["samples"]):
                    if s > lim0 + max(dl[: i + 1] or [0]):
                        fails.append(f"buffer-bound: holds {s} bytes after delivery {i} with limit {limit} and largest chunk {max(dl[: i + 1] or [0])}")
                        break
        # "When a body is streamed (stream_large_bodies threshold exceeded, or an addon enables streaming), it is relayed
        #  without buffering": whether streaming is due is decided from the INPUTS (policy, declared length, threshold),
        #  not from what the implementation did
        declared_len = (case["cl"] if wire else len(body)) if case["framing"] == "cl" else None
        thr = human.parse_size(case["thr"])
        due = (case["policy"] == "true" or case["policy"] in CALLABLES
               or (declared_len is not None and thr is not None and declared_len > thr and case["policy"] != "false"))
        over = limit is not None and declared_len is not None and declared_len > limit
        ends_with_head = declared_len == 0 or (not wire and case.get("glue") and len(chunks) <= 1 and case["framing"] == "cl") \
            or (wire and done_at == 0)
        if due and not over and not ends_with_head and not errored and not obs.get("proto_err") and not obs.get("trailer") \
                and obs["n_deliveries"] > 1 and not (obs["relayed"] and obs["head_at"] == 0):
            fails.append("not-streamed: streaming was due from the headers on, but the head was not relayed when the headers arrived")
        if wire and (done_at is None or case["policy"] in ("dup", "iter") or obs["proto_err"]):
            return fails        # incomplete / malformed wire, or a callable whose result depends on the event boundaries
        if not errored and obs["relayed"]:
            # sentence 2: "When a body is streamed ..., it is relayed without buffering and the peer receives exactly the
            # received bytes after any stream transformation, in order; the flow keeps those bytes only if
            # store_streamed_bodies is enabled."
            # streamed = the relayed head was written to the peer before the end of the message had been received
            last = done_at if wire else obs["n_deliveries"] - 1
            streamed = obs["head_at"] is not None and obs["head_at"] < last
            if streamed:
                # a callable set by the addon applies from the first byte on; otherwise the bytes pass unchanged
                want = transform(case["policy"], chunks)
                if not obs["framing_ok"] or obs["leftover_hex"] != "-":
                    fails.append(f"streamed: what the peer received is not one well-framed body (stray bytes {unhx(obs['leftover_hex'])[:40]!r})")
                elif peer != want:
                    fails.append(f"streamed: peer received {peer[:60]!r}, expected {want[:60]!r}")
                if not case["store"]:
                    if any(s != 0 for s in obs["samples"][obs["head_at"]:]):
                        fails.append("streamed without store_streamed_bodies: buffer not empty while streaming")
                    if obs["content_hex"] not in (None, "-"):
                        fails.append("streamed without store_streamed_bodies: the flow kept the body")
        return fails

    @staticmethod
    def _double_fault(case, obs, lim0):
        """wire case in which the delivery that shows the excess also carries bytes beyond the last well-formed chunk:
        the readers raise a protocol error in that same read_body call and the connection is closed first"""
        if case["op"] != "wire" or case["framing"] != "chunked": return False
        raw = b"".join(unhx(x) for x in case["segs"])
        chunks, ok, left = read_chunked(raw)
        if ok: return False
        fail_pos = len(raw) - len(left)
        i_detect = next((i for i, sm in enumerate(obs["samples"]) if sm > lim0), None)
        if i_detect is None or i_detect == 0: return False
        upto = sum(len(unhx(x)) for x in case["segs"][:i_detect])       # bytes delivered through delivery i_detect
        return upto > fail_pos

    @staticmethod
    def _delivery_chunk_lens(case, chunks):
        lens = [len(c) for c in chunks]
        if case.get("glue") and lens: out = lens[:]
        else: out = [0] + lens
        if case["framing"] in ("chunked", "eof"): out.append(0)
        return out

    def known(self, case, obs, failure):
        """F-C07a exactly: store_streamed_bodies on, body_size_limit set, the body was being STREAMED (head relayed before
        the message ended), the flow did not error, the first moment the buffer exceeds the limit lies at or after the
        start of streaming, and the failure is one of the three consequences of the missing check."""
        if case.get("op") in ("exch", "x2"):
            for tag, sub, o in self._sides(case, obs):
                if failure.startswith(tag + ": ") and o is not None:
                    return self.known(sub, o, failure[len(tag) + 2:])
            return None
        if case.get("op") not in ("flow", "wire") or not case["store"] or case["limit"] is None: return None
        if obs.get("rejected") or not obs.get("relayed") or obs.get("head_at") is None: return None
        if any(LIMIT_MSG in e for e in obs["errors"]): return None
        try: lim0 = max(human.parse_size(case["limit"]), 0)
        except ValueError: return None
        first_over = next((i for i, sm in enumerate(obs["samples"]) if sm > lim0), None)
        if first_over is None or first_over < obs["head_at"]: return None        # excess while still buffering: not this
        if failure == "over-limit (buffered bytes): no error hook with the body_size_limit error": return "F-C07a"
        if failure.startswith("over-limit (buffered bytes): ") and failure.endswith(" body bytes were forwarded"): return "F-C07a"
        if failure.startswith("buffer-bound: holds "):
            try: at = int(failure.split(" after delivery ")[1].split(" ")[0])
            except (IndexError, ValueError): return None
            return "F-C07a" if at >= obs["head_at"] else None
        return None

    def known_selftest(self):
        """frozen observations (independent of the tree under test): positive witness + near misses of F-C07a"""
        base = {"op": "flow", "dir": "req", "framing": "chunked", "limit": "6", "thr": "3", "store": 1, "policy": "none",
                "chunks": ["61626364", "65666768", "696a6b6c"], "glue": False}
        obs = {"rejected": False, "errors": [], "client_status": None, "relayed": True, "head_at": 1,
               "samples": [0, 4, 8, 12, 0], "peer_chunks": ["61626364", "65666768", "696a6b6c"], "n_deliveries": 5}
        nohook = "over-limit (buffered bytes): no error hook with the body_size_limit error"
        fwd = "over-limit (buffered bytes): 12 body bytes were forwarded"
        bb = "buffer-bound: holds 12 bytes after delivery 3 with limit 6 and largest chunk 4"
        buffered = dict(obs, head_at=4, samples=[0, 4, 8, 12, 0])       # excess while still buffering, relayed at the end
        T = [
            (base, obs, nohook, "F-C07a"), (base, obs, fwd, "F-C07a"), (base, obs, bb, "F-C07a"),
            # (a) same input class, other clause of the oracle
            (base, obs, "streamed: peer received b'', expected b'abcdefghijkl'", None),
            (base, obs, "streamed: what the peer received is not one well-framed body (stray bytes b'0')", None),
            (base, obs, "over-limit (buffered bytes): client did not receive an error response", None),
            (base, obs, "over-limit (Content-Length): no error hook with the body_size_limit error", None),
            (base, obs, "not-streamed: streaming was due from the headers on, but the head was not relayed when the headers arrived", None),
            (base, obs, "layer raised: AssertionError: x", None),
            # (b) neighbouring inputs with the same kind of failure
            (dict(base, store=0), obs, nohook, None), (dict(base, store=0), obs, bb, None),
            (dict(base, limit=None), obs, nohook, None),
            (base, buffered, nohook, None), (base, buffered, fwd, None),
            (base, dict(buffered), "buffer-bound: holds 12 bytes after delivery 3 with limit 6 and largest chunk 4", None),
            (base, dict(obs, relayed=False, head_at=None), nohook, None),
            (base, dict(obs, errors=["Request " + LIMIT_MSG]), fwd, None),
            (base, dict(obs), "buffer-bound: holds 8 bytes after delivery 0 with limit 6 and largest chunk 0", None),
            ({"op": "size", "s_hex": "31"}, {"size": 1}, nohook, None),
        ]
        # exchanges: the failure is classified on its own direction only
        xc = {"op": "exch", "dir": "resp", "limit": "6", "thr": "3", "store": 1, "framing": "chunked", "chunks": base["chunks"],
              "policy": "none", "glue": False, "pre": {"framing": "cl", "chunks": ["63"], "policy": "none", "glue": False}}
        small = dict(obs, head_at=None, relayed=True, samples=[0, 1, 0])
        xo = {"pre": small, "main": obs}
        T += [(xc, xo, "resp: " + nohook, "F-C07a"), (xc, xo, "req: " + nohook, None),
              (xc, xo, "resp: not-streamed: streaming was due from the headers on, but the head was not relayed when the headers arrived", None),
              (xc, {"pre": small, "main": buffered}, "resp: " + nohook, None), (xc, xo, nohook, None)]
        for case, o, failure, want in T:
            got = self.known(case, o, failure)
            if got != want:
                raise AssertionError(f"known_selftest: known() gave {got!r}, expected {want!r} for {failure!r} on {case}")
        # the oracle clauses behind the finding, on the frozen positive observation
        full = dict(obs, client_closed=False, out_framing="chunked", framing_ok=True, leftover_hex="-", content_hex="6162636465666768696a6b6c",
                    crash=[], proto_err=False, trailer=False)
        fs = self.oracle(base, full)
        if not any(self.known(base, full, f) == "F-C07a" for f in fs) or any(self.known(base, full, f) is None for f in fs):
            raise AssertionError(f"known_selftest: oracle on the frozen F-C07a witness gave {fs}")

    # ---- model tie --------------------------------------------------------------------------------------------
    def model_lines(self, case):
        if case["op"] == "size":
            return ["size " + case["s_hex"]]
        if case["op"] == "te":
            return ["te " + case["v_hex"]]
        if case["op"] == "frame":
            return [f"frame {case['chunked']} " + (",".join(case["chunks"]) if case["chunks"] else "-")]
        opt = lambda v: "none" if v is None else hx(v.encode())
        if any(case.get(k) is not None and not case[k].isascii() for k in ("limit", "thr")): raise Skip()
        if case["op"] in ("exch", "x2"):
            def side(c):
                tot = sum(len(unhx(x)) for x in c["chunks"])
                e = c.get("exp") or (f"cl:{tot}" if c["framing"] == "cl" else c["framing"])
                return f"{c['policy']} {e} {1 if (c['framing'] == 'cl' and tot == 0) else 0} " + (",".join(c["chunks"]) if c["chunks"] else "-")
            if case["op"] == "exch":
                return [f"exch {opt(case['limit'])} {opt(case['thr'])} {case['store']} {side(case['pre'])} {side(case)}"]
            # the position at which the response block was really delivered is the harness's own action (obs["at"])
            key = json.dumps(case, sort_keys=True)
            obs = self._stash[1] if getattr(self, "_stash", (None,))[0] == key else self.impl(case)
            subs = self._sides(case, obs)
            n = len(case["pre"]["chunks"])
            at = "-" if obs["at"] is None else ("end" if obs["at"] > n else str(obs["at"]))
            return [f"exchi {at} {opt(case['limit'])} {opt(case['thr'])} {case['store']} {side(subs[0][1])} {side(subs[1][1])}"]
        if case["op"] == "wire":
            fr = f"cl:{case['cl']}" if case["framing"] == "cl" else case["framing"]
            return [f"wire {case['dir']} {opt(case['limit'])} {opt(case['thr'])} {case['store']} {case['policy']} {fr} "
                    + (",".join(case["segs"]) if case["segs"] else "-") + f" {int(case['close'])}"]
        chunks = case["chunks"]
        total = sum(len(unhx(c)) for c in chunks)
        fr = case["framing"]
        exp = f"cl:{total}" if fr == "cl" else fr
        # the data events the h11 readers produce: one per non-empty chunk
        return [f"flow {case['dir']} {opt(case['limit'])} {opt(case['thr'])} {case['store']} {case['policy']} {exp} "
                f"{1 if (fr == 'cl' and total == 0) else 0} " + (",".join(chunks) if chunks else "-")]

    def model_obs(self, case, replies):
        r = replies[0]
        if case["op"] in ("size", "te", "frame") or r in ("rejected", "bad-op"): return r
        if case["op"] in ("exch", "x2"):
            a, b = r.split(" | ")
            subs = self._sides(case, {"pre": None, "main": None})
            mq = self.model_obs(subs[0][1], [a])
            if case["op"] == "x2" and b.split(" ")[2] == "": return {"req": mq, "resp": None}      # response never delivered
            mr = self.model_obs(subs[1][1], [b])
            # nothing of the response is handled after the request was refused
            return {"req": mq, "resp": None if (mq["err"] and case["op"] == "exch") else mr}
        f = r.split(" ")
        err, relayed, samples, peer, content = f[0] == "1", f[1] == "1", [int(x) for x in f[2].split(",")], f[3], f[4]
        def extras(x, chunked_out):
            # errClient (reached the client), errServer, headers-hook count, message-hook count, sendEnd (observable on a
            # chunked peer side only)
            return {"errc": x[0] == "1", "errs": x[1] == "1", "nh": int(x[2]), "nm": int(x[3]),
                    "end": (x[4] == "1") if (relayed and chunked_out) else None}
        if case["op"] == "wire":
            # here the model itself groups the bytes into data events: one sample per delivery, and the reader's verdict
            if f[5] == "2": return "unsupported-trailer"
            return {"err": err, "relayed": relayed, "samples": samples, "peer": [] if peer == "-" else peer.split(","),
                    "content": None if content == "none" else content, "proto_err": f[5] == "1",
                    **extras(f[6:11], case["framing"] == "chunked")}
        # model samples are per event (headers, data..., eom); deliveries group them
        chunks = case["chunks"]
        n = len(chunks)
        # event indices: 0 = headers, 1..n = data, n+1 = end of message; one sample per delivery = after its last event
        if case.get("glue") and n: groups = list(range(1, n + 1))
        else: groups = list(range(0, n + 1))
        if case["framing"] == "cl": groups[-1] = n + 1      # the delivery that completes the body also ends the message
        else: groups.append(n + 1)
        return {"err": err, "relayed": relayed, "samples": [samples[g] for g in groups],
                "peer": [] if peer == "-" else peer.split(","), "content": None if content == "none" else content,
                **extras(f[5:10], case["framing"] == "chunked" and not case.get("h2peer"))}

    def impl_view(self, case, obs):
        if case["op"] == "size":
            return "err" if obs["size"] == "err" else f"ok {obs['size']}"
        if case["op"] == "te":
            return f"{obs['reads']} {int(obs['writes'])}"
        if case["op"] == "frame":
            return obs["wire_hex"]
        if obs.get("rejected"): return "rejected"
        if case["op"] in ("exch", "x2"):
            subs = self._sides(case, obs)
            return {"req": self.impl_view(subs[0][1], obs["pre"]),
                    "resp": None if obs["main"] is None else self.impl_view(subs[1][1], obs["main"])}
        if obs.get("trailer"): return "unsupported-trailer"
        errored = any(LIMIT_MSG in e for e in obs["errors"])
        resp = case["dir"] == "resp"
        v = {"err": errored, "relayed": obs["relayed"], "samples": obs["samples"], "peer": obs["peer_chunks"],
             "content": obs["content_hex"],
             # "the client receives an error" / the error sent upstream, the hooks of this direction, the end of the message
             "errc": errored and obs["client_status"] is not None and obs["client_status"] >= 400,
             "errs": errored and resp and bool(obs["server_killed"]),
             "nh": obs["n_headers_hook"], "nm": obs["n_message_hook"], "end": obs["end_seen"]}
        if case["op"] == "wire": v["proto_err"] = obs["proto_err"]
        return v

    def classify(self, case, obs):
        if case["op"] == "size": return ("size", case["s_hex"]) if case["s_hex"] != "-" else None
        if case["op"] == "te": return ("te", case["v_hex"])
        if case["op"] == "frame": return ("frame", case["dir"], case["chunked"], tuple(case["chunks"]))
        if case["op"] in ("exch", "x2"):
            return json.dumps(case, sort_keys=True)
        if case["op"] == "wire":
            return ("wire", case["dir"], case["framing"], case.get("cl"), case["limit"], case["thr"], case["store"], case["policy"],
                    tuple(case["segs"]), case["close"])
        if not case["chunks"] and case["limit"] is None and case["thr"] is None: return None
        return ("flow", case["dir"], case["framing"], case["limit"], case["thr"], case["store"], case["policy"],
                tuple(case["chunks"]), case["glue"])

    def branches(self, case, obs):
        if case["op"] == "size": return ["size:" + ("err" if obs["size"] == "err" else "ok")]
        if case["op"] == "te": return ["te:" + obs["reads"]]
        if case["op"] == "frame": return [f"frame:{case['dir']}:{'chunked' if case['chunked'] else 'identity'}"]
        if obs.get("rejected"): return ["flow:option-rejected"]
        if case["op"] in ("exch", "x2"):
            def verdict(o):
                if o is None: return "not-reached"
                if any(LIMIT_MSG in e for e in o["errors"]): return "over-limit"
                if o["relayed"] and o["head_at"] is not None and o["head_at"] < o["n_deliveries"] - 1: return "streamed"
                return "buffered"
            out = [f"exch:req-{verdict(obs['pre'])}/resp-{verdict(obs['main'])}", "exch:req-" + case["pre"]["framing"],
                   "exch:resp-" + case["framing"]]
            if case["op"] == "x2":
                n = len(case["pre"]["chunks"])
                pos = "never" if obs["at"] is None else "after" if obs["at"] > n else "before-body" if obs["at"] == 0 else "during"
                out += [f"x2:{case['cp']}->{case['sp']}", "x2:response-" + pos]
            return out
        if case["op"] == "wire":
            return ["wire:" + case["framing"], "wire:" + ("protocol-error" if obs["proto_err"] else "ok"),
                    "wire:segments=%d" % min(len(case["segs"]), 6), f"dir:{case['dir']}", f"policy:{case['policy']}"]
        out = [f"dir:{case['dir']}", f"framing:{case['framing']}", f"policy:{case['policy']}",
               f"opts:{'L' if case['limit'] else '-'}{'T' if case['thr'] else '-'}{'S' if case['store'] else '-'}"]
        errored = any(LIMIT_MSG in e for e in obs["errors"])
        if errored: out.append("outcome:over-limit-error")
        elif obs["relayed"] and obs["head_at"] is not None and obs["head_at"] == 0 and case["chunks"]: out.append("outcome:streamed-from-head")
        elif obs["relayed"] and obs["head_at"] is not None and obs["head_at"] < obs["n_deliveries"] - 1: out.append("outcome:late-switch-to-stream")
        else: out.append("outcome:buffered")
        return out

    def neighbours(self, case, rng):
        if case["op"] != "flow": return
        for pol in POLICIES:
            for store in (0, 1):
                for fr in (["cl", "chunked"] if case["dir"] == "req" else ["cl", "chunked", "eof"]):
                    c = dict(case); c.update(policy=pol, store=store, framing=fr); yield c

    def exhaustive(self, tier):
        for n in range(0, 5):
            body = bytes(b"abcde"[:n])
            for k in (1, 2, 3):
                for ch in (chunkings(body, k) if n else [[]]):
                    for d, frs in (("req", ["cl", "chunked"]), ("resp", ["cl", "chunked", "eof"])):
                        for fr in frs:
                            for lim, thr in ((None, None), ("2", None), (None, "1"), ("3", "1")):
                                for store in (0, 1):
                                    for pol in POLICIES:
                                        yield self._flow(d, fr, lim, thr, store, pol, ch)
