"""C08 — upstream connection reuse never sends a request to the wrong destination.

Anchors: mitmproxy/proxy/layers/http/__init__.py (GetHttpConnection.connection_spec_matches, HttpLayer.get_connection,
HttpLayer.register_connection, HttpLayer.connections / waiting_for_establishment, HttpStream.make_server_connection,
HttpClient), mitmproxy/connection.py (Server.__setattr__ guard).

A real HttpLayer (regular / upstream / reverse mode; HTTP/1 or HTTP/2 client) is driven through harness/common/world.py
with a history of requests whose destinations come from a small universe, real addon hooks that rewrite the destination
in requestheaders/request, deferred connection attempts that are resolved (success, TCP failure, CONNECT refused by the
upstream proxy, TLS failure) at chosen moments, server responses and closes, and addon assignments to
server.address / server.via.  TLS towards the server runs through the real ServerTLSLayer with an identity "cipher"
(a duck-typed ssl_conn handed over in the tls_start_server hook), upstream proxies through the real HttpUpstreamProxy.
Observed: for every request head written upstream, the logical Server it was written for and that Server's
address/tls/via/transport/state/error at that moment; after every step the whole pool (attributes, state, error,
waiting lists).
"""
import json, re
from common.check import PropertyCheck, Skip, hx, unhx

from OpenSSL import SSL
from common.world import World, make_context
from mitmproxy import connection
from mitmproxy.connection import ConnectionState, Server
from mitmproxy.net import server_spec
from mitmproxy.proxy import commands, mode_specs, tunnel
from mitmproxy.proxy.layers import http
from mitmproxy.proxy.layers.http import HTTPMode
from mitmproxy.test import taddons
from mitmproxy.addons import proxyserver
import h2.connection, h2.config, h2.events

# destination universe: 3 hosts x 2 ports x tls x via; the third host/second port is the address of upstream proxy 0, so
# that "the proxy itself as an origin server" is a destination too.  Host index 3 only occurs as a proxy.
HOSTS = ["a.example", "b.example", "proxy0.example", "proxy1.example"]
PORTS = [8001, 3128]
PROXIES = [server_spec.ServerSpec(("http", ("proxy0.example", 3128))), server_spec.ServerSpec(("http", ("proxy1.example", 3128)))]
MODES = ["regular", "upstream", "reverse_lazy", "reverse_open", "reverse_err"]
FATES = ["ok", "tcp_fail", "tunnel_fail", "tls_fail"]


CLIENT_HELLO, SERVER_HELLO = b"<fake-client-hello>", b"<fake-server-hello>"


class FakeTLS:
    """identity 'cipher' with the pyOpenSSL Connection surface the real TLSLayer uses"""

    def __init__(self, fail):
        self.fail, self.inc, self.out, self.stage = fail, bytearray(), bytearray(), 0

    def bio_write(self, data): self.inc.extend(data)

    def do_handshake(self):
        # like a real client: the first call emits a hello and wants to read; the handshake completes (or fails)
        # when the peer's hello has arrived
        if self.stage == 0:
            self.out.extend(CLIENT_HELLO); self.stage = 1
            raise SSL.WantReadError()
        if self.stage == 1:
            if not self.inc: raise SSL.WantReadError()
            del self.inc[:]
            if self.fail: raise SSL.Error([("SSL routines", "", "handshake failure (scripted)")])
            self.stage = 2

    def bio_read(self, n):
        if not self.out: raise SSL.WantReadError()
        d = bytes(self.out[:n]); del self.out[:n]; return d

    def recv(self, n):
        if not self.inc: raise SSL.WantReadError()
        d = bytes(self.inc[:n]); del self.inc[:n]; return d

    def sendall(self, data): self.out.extend(data)
    def get_peer_cert_chain(self): return []
    def get_alpn_proto_negotiated(self): return b""
    def get_cipher_name(self): return "NULL"
    def get_protocol_version_name(self): return "TLSv1.3"
    def get_shutdown(self): return 0


def addr_idx(a):
    if a is None: return "-.-"
    try: return f"{HOSTS.index(a[0])}.{PORTS.index(a[1])}"
    except (ValueError, TypeError, IndexError): return "?.?"


def via_idx(v):
    """an upstream proxy is rendered as its address in the universe's numbering"""
    if v is None: return "-"
    try:
        if v[0] != "http": return "?"
        return f"{HOSTS.index(v[1][0])}:{PORTS.index(v[1][1])}"
    except (ValueError, TypeError, IndexError): return "?"


def phys_of(conn, top):
    return top.tunnel_connection if isinstance(top, tunnel.TunnelLayer) else conn


class Run:
    def __init__(self, case):
        self.case = case
        self.h2 = case["client"] == "h2"
        self.routed, self.dest, self.failed_rids, self.routed_rids = [], {}, [], set()
        self.step_out = []          # decisions of the current step
        self.model_lines, self.steps = [], []
        self.pokes, self.failed_conns = [], set()
        self.known_state = {}       # id(conn) -> "rw" the model currently believes
        self.known_err = set()      # id(conn) whose error flag the model knows about
        self.predicted = set()      # id(conn) whose state the model predicted in the current step
        self.opened_to = {}         # id(conn) -> (address, tls, via) the socket was really opened for (harness knowledge)
        self.n_sent, self.n_answered = {}, {}
        self.oracle_fail = []

    # ---- pool introspection -----------------------------------------------------------------------------------
    def servers(self):
        return [(c, l) for c, l in self.lay.connections.items() if isinstance(c, Server)]

    def cid_of(self, conn):
        for i, (c, _) in enumerate(self.servers()):
            if c is conn: return i
        return None

    def logical_of(self, phys):
        for i, (c, l) in enumerate(self.servers()):
            if phys_of(c, l) is phys: return i, c
        return None, None

    def rid_of_cmd(self, cmd):
        st = self.lay.command_sources.get(cmd)
        try: return int(st.flow.request.headers["x-id"])
        except Exception: return -1

    def render_conn(self, c):
        st = ("1" if c.state & ConnectionState.CAN_READ else "0") + ("1" if c.state & ConnectionState.CAN_WRITE else "0")
        if c in self.lay.waiting_for_establishment:
            w = "w" + "+".join(str(self.rid_of_cmd(cmd)) for cmd in self.lay.waiting_for_establishment[c])
        else:
            w = "n"
        h = self.lay.connections.get(c)
        tun = int(h is not None and h.context.server is not c)
        return (f"{addr_idx(c.address)}.{int(bool(c.tls))}.{via_idx(c.via)}.{int(c.transport_protocol == 'udp')}.{tun}.{st}."
                f"{int(bool(c.error))}.{int(c.alpn == b'h2')}.{w}")

    def render_pool(self):
        sv = self.servers()
        pool = ",".join(self.render_conn(c) for c, _ in sv) if sv else "-"
        ctxs = self.lay.context.server
        k = self.cid_of(ctxs)
        return pool, (f"in{k}" if k is not None else self.render_conn(ctxs))

    # ---- hooks ------------------------------------------------------------------------------------------------
    def on_hook(self, w, h):
        name = h.name
        if name == "tls_start_server":
            data = h.data
            cid, _ = self.logical_of_conn(data.conn)
            data.ssl_conn = FakeTLS(self.fate(cid) == "tls_fail")
            return
        f = getattr(h, "flow", None)
        if f is None or not hasattr(f, "request") or f.request is None: return
        try: rid = int(f.request.headers.get("x-id", "-1"))
        except ValueError: rid = -1
        if rid < 0: return
        if name in ("requestheaders", "request"):
            for rw in self.rewrites.get(rid, []):
                if rw["at"] != name: continue
                if "host" in rw: f.request.host = HOSTS[rw["host"]]
                if "port" in rw: f.request.port = PORTS[rw["port"]]
                if "tls" in rw: f.request.scheme = "https" if rw["tls"] else "http"
                if "via" in rw:
                    how, v = rw["via"]
                    spec = None if v is None else PROXIES[v]
                    if how == "replace":
                        f.server_conn = Server(address=f.server_conn.address)
                        f.server_conn.via = spec
                    else:
                        # assignment to the flow's current server_conn: the shared placeholder (context.server) or a
                        # connection of the pool — the model is told about it like about any other assignment
                        tgt = f.server_conn
                        tname = "ctx" if tgt is self.lay.context.server else self.cid_of(tgt)
                        if tname is not None and not (tname == "ctx" and self.cid_of(tgt) is not None and False):
                            self.model_lines.append(f"poke {tname} via {via_idx(spec)}")
                        old, was_open = tgt.via, tgt.state is ConnectionState.OPEN
                        try: tgt.via = spec; raised = False
                        except RuntimeError: raised = True
                        if tname is not None: self.step_out.append("raised" if raised else "set")
                        self.pokes.append({"open": was_open, "changed": spec != old, "raised": raised,
                                           "kept": tgt.via == old, "took": tgt.via == spec})
        if name == "request":
            d = (f.request.host, f.request.port, f.request.scheme, f.server_conn.via, f.server_conn.transport_protocol)
            self.dest[rid] = d
            hp = addr_idx((d[0], d[1])).split(".")
            self.model_lines.append(f"get {rid} {hp[0]} {hp[1]} {int(d[2] == 'https')} {via_idx(d[3])} {int(d[4] == 'udp')}")
        if name == "error" and rid not in self.routed_rids and rid not in self.failed_rids:
            self.failed_rids.append(rid); self.step_out.append(f"f{rid}")

    def logical_of_conn(self, conn):
        i = self.cid_of(conn)
        return i, conn

    def fate(self, cid):
        fs = self.case["fates"]
        return fs[cid % len(fs)] if (fs and cid is not None) else "ok"

    # ---- the run ----------------------------------------------------------------------------------------------
    def run(self):
        case = self.case
        self.rewrites = {s["id"]: s.get("rw", []) for s in case["steps"] if s["k"] == "req"}
        run = self

        class SnoopWorld(World):
            def _command(self, c):
                if isinstance(c, commands.SendData) and c.connection is not self.ctx.client:
                    for m in re.finditer(rb"x-id: (\d+)\r\n", c.data):
                        run.note_routed(int(m.group(1)), c.connection)
                super()._command(c)
        with taddons.context(proxyserver.Proxyserver()) as tctx:
            ctx = make_context(opts=tctx.options)
            mode = case["mode"]
            if mode == "upstream":
                ctx.client.proxy_mode = mode_specs.ProxyMode.parse("upstream:http://proxy0.example:3128")
                hmode = HTTPMode.upstream
            elif mode.startswith("reverse"):
                ctx.client.proxy_mode = mode_specs.ProxyMode.parse("reverse:http://a.example:8001")
                ctx.server = Server(address=(HOSTS[0], PORTS[0]))
                hmode = HTTPMode.transparent
            else:
                hmode = HTTPMode.regular
            if self.h2: ctx.client.alpn = b"h2"
            self.lay = lay = http.HttpLayer(ctx, hmode)
            self.w = w = SnoopWorld(lay, ctx, on_hook=self.on_hook, on_connect=lambda w_, c: "defer")
            if mode == "reverse_open":
                w.add_open_server(ctx.server)
                self.opened_to[id(ctx.server)] = (list(ctx.server.address), bool(ctx.server.tls), via_idx(ctx.server.via))
            if mode == "reverse_err": ctx.server.error = "eager connect failed (scripted)"
            w.start()
            cs = lay.context.server
            st = ("1" if cs.state & ConnectionState.CAN_READ else "0") + ("1" if cs.state & ConnectionState.CAN_WRITE else "0")
            a = addr_idx(cs.address).split(".")
            self.model_lines.append(f"reset {int(self.h2)} {a[0]} {a[1]} {int(bool(cs.tls))} {via_idx(cs.via)} {st[0]} {st[1]} {int(bool(cs.error))}")
            self.known_state[id(cs)] = st
            if cs.error: self.known_err.add(id(cs))
            self.mark()
            self.client_off = 0
            if self.h2:
                self.h2c = h2.connection.H2Connection(h2.config.H2Configuration(client_side=True, header_encoding=None))
                self.h2c.initiate_connection()
                w.recv("client", self.h2c.data_to_send())
                self.pump()
                self.next_sid = 1
            self.h1_sent = 0
            for s in case["steps"]:
                self.step_out = []
                self.predicted = set()
                getattr(self, "do_" + s["k"])(s)
                if self.h2: self.pump()
                self.sync_states()
                self.mark()
            crash = [e[0] + ": " + e[1][:200] for e in w.errors]
        return {"model_lines": self.model_lines, "steps": self.steps,
                "routed": self.routed, "pokes": self.pokes, "crash": crash,
                "dest": {str(k): [v[0], v[1], v[2], via_idx(v[3]), v[4]] for k, v in self.dest.items()},
                "oracle_fail": self.oracle_fail, "n_conns": len(self.servers())}

    def mark(self):
        """close a step: everything the model said since the previous mark is compared with this snapshot"""
        pool, ctxs = self.render_pool()
        self.steps.append({"at": len(self.model_lines), "outs": sorted(self.step_out), "pool": pool, "ctx": ctxs})

    def pump(self):
        raw = self.w.sent_to("client")
        new, self.client_off = raw[self.client_off:], len(raw)
        if new:
            try: self.h2c.receive_data(new)
            except Exception: return
        out = self.h2c.data_to_send()
        if out: self.w.recv("client", out)

    def note_routed(self, rid, phys):
        cid, c = self.logical_of(phys)
        self.routed_rids.add(rid)
        rec = {"rid": rid, "cid": cid}
        if c is not None:
            rec.update(addr=list(c.address) if c.address else None, tls=bool(c.tls), via=via_idx(c.via),
                       transport=c.transport_protocol, open=c.state is ConnectionState.OPEN, error=bool(c.error),
                       failed_before=id(c) in self.failed_conns, opened_to=self.opened_to.get(id(c)))
            self.n_sent[id(c)] = self.n_sent.get(id(c), 0) + 1
        self.routed.append(rec)
        self.step_out.append(f"r{rid}>{cid}")

    def sync_states(self):
        """tell the model about Connection.state changes it did not cause itself; note newly opened / waiting"""
        sv = self.servers()
        for i, (c, _) in enumerate(sv):
            if id(c) not in self.known_state:
                self.known_state[id(c)] = "00"
            st = ("1" if c.state & ConnectionState.CAN_READ else "0") + ("1" if c.state & ConnectionState.CAN_WRITE else "0")
            if st != self.known_state[id(c)] and id(c) not in self.predicted:
                # (a state the model predicted in this step is never corrected: a wrong prediction shows in the dump)
                self.model_lines.append(f"state {i} {st[0]} {st[1]}")
                self.known_state[id(c)] = st
            if bool(c.error) and id(c) not in self.known_err:
                self.known_err.add(id(c))
                self.model_lines.append(f"err {i}")
        cs = self.lay.context.server
        if self.cid_of(cs) is None:
            st = ("1" if cs.state & ConnectionState.CAN_READ else "0") + ("1" if cs.state & ConnectionState.CAN_WRITE else "0")
            if st != self.known_state.get(id(cs)):
                self.model_lines.append(f"state ctx {st[0]} {st[1]}")
                self.known_state[id(cs)] = st

    # ---- steps ------------------------------------------------------------------------------------------------
    def do_req(self, s):
        rid = s["id"]
        scheme = b"https" if s["tls"] else b"http"
        auth = b"%s:%d" % (HOSTS[s["host"]].encode(), PORTS[s["port"]])
        if self.h2:
            sid = self.next_sid; self.next_sid += 2
            try:
                self.h2c.send_headers(sid, [(b":method", b"GET"), (b":scheme", scheme), (b":authority", auth), (b":path", b"/"),
                                            (b"x-id", str(rid).encode())], end_stream=True)
            except Exception:
                return
            self.w.recv("client", self.h2c.data_to_send())
        else:
            raw = self.w.sent_to("client")
            if raw.count(b"HTTP/1.1 ") < self.h1_sent: return          # HTTP/1: one request at a time
            if self.case["mode"].startswith("reverse"):
                line = b"GET / HTTP/1.1\r\n"
            else:
                line = b"GET %s://%s/ HTTP/1.1\r\n" % (scheme, auth)
            if self.w.recv("client", line + b"Host: " + auth + b"\r\nx-id: %d\r\n\r\n" % rid):
                self.h1_sent += 1
        self.note_new_waiting()

    def note_new_waiting(self):
        pass

    def do_connect(self, s):
        w = self.w
        if not w.deferred_connects: return
        cmd = w.deferred_connects[s["i"] % len(w.deferred_connects)]
        phys = cmd.connection
        cid, logical = self.logical_of(phys)
        if cid is None: raise RuntimeError("OpenConnection for a connection that is in no stack")
        fate = self.fate(cid)
        tunnelled = phys is not logical
        uses_tls = bool(logical.tls)
        # HttpUpstreamProxy sends CONNECT except for plaintext requests in upstream mode
        sends_connect = tunnelled and (uses_tls or self.case["mode"] != "upstream")
        if fate == "tunnel_fail" and not sends_connect: fate = "ok"
        if fate == "tls_fail" and not uses_tls: fate = "ok"
        # what RegisterHttpConnection will report, and whether Server.error of the logical connection gets set
        if fate == "ok": line = f"res {cid} ok 0"
        elif fate == "tcp_fail": line = f"res {cid} fail {0 if tunnelled else 1}"
        elif fate == "tunnel_fail": line = f"res {cid} fail 0"
        else: line = f"res {cid} fail 1"
        self.model_lines.append(line)
        if fate != "ok": self.failed_conns.add(id(logical))
        else: self.known_state[id(logical)] = "11"
        if line.endswith("fail 1"): self.known_err.add(id(logical))
        # where this socket (and the tunnel / TLS session on it) really leads: what the connection was created for
        self.opened_to[id(logical)] = (list(logical.address) if logical.address else None, bool(logical.tls), via_idx(logical.via))
        lab = w.label(phys)
        seen = len(w.sent_to(lab))
        w.finish_connect(cmd, "connection refused (scripted)" if fate == "tcp_fail" else None)
        # the peers' part of the tunnel / TLS handshakes
        for _ in range(4):
            sent = w.sent_to(lab)[seen:]
            seen += len(sent)
            if sent.startswith(b"CONNECT "):
                if fate == "tunnel_fail":
                    w.recv(phys, b"HTTP/1.1 502 Bad Gateway\r\nContent-Length: 0\r\n\r\n")
                else:
                    w.recv(phys, b"HTTP/1.1 200 Connection established\r\n\r\n")
            elif sent.endswith(CLIENT_HELLO):
                w.recv(phys, SERVER_HELLO)
            else:
                break

    def do_respond(self, s):
        sv = self.servers()
        if not sv: return
        c, l = sv[s["c"] % len(sv)]
        if self.n_sent.get(id(c), 0) <= self.n_answered.get(id(c), 0): return
        phys = phys_of(c, l)
        msg = b"HTTP/1.1 200 OK\r\nContent-Length: 0\r\n" + (b"Connection: close\r\n" if s.get("close") else b"") + b"\r\n"
        if self.w.recv(phys, msg):
            self.n_answered[id(c)] = self.n_answered.get(id(c), 0) + 1
            # the model predicts what the HTTP/1 client layer does with the connection once the exchange is complete
            closes = bool(s.get("close"))
            self.model_lines.append(f"rdone {self.cid_of(c)} {int(closes)}")
            if closes or self.h2: self.known_state[id(c)] = "00"
            self.predicted.add(id(c))

    def do_close(self, s):
        sv = self.servers()
        if not sv: return
        c, l = sv[s["c"] % len(sv)]
        logical = l.context.server if isinstance(l.context.server, Server) and l.context.server in self.lay.connections else c
        if self.w.peer_close(phys_of(c, l)):
            # the model predicts the reaction to the peer's FIN (the state of the tunnel entry, if any, is synced)
            self.model_lines.append(f"pclose {self.cid_of(logical)}")
            if self.known_state.get(id(logical), "00")[0] == "1": self.known_state[id(logical)] = "00"
            self.predicted.add(id(logical))

    def do_poke(self, s):
        if s["c"] == "ctx":
            target, tname = self.lay.context.server, "ctx"
        else:
            sv = self.servers()
            if not sv: return
            i = s["c"] % len(sv)
            target, tname = sv[i][0], str(i)
        if target in self.lay.waiting_for_establishment or any(c.connection is target for c in self.w.deferred_connects):
            return      # an addon has no handle on a connection that is still being established (see level_note)
        was_open = target.state is ConnectionState.OPEN
        if s["f"] == "addr":
            new = None if s["v"] is None else (HOSTS[s["v"][0]], PORTS[s["v"][1]])
            if new is None and target is self.lay.context.server and self.case["mode"].startswith("reverse"):
                return      # transparent-mode streams assert that context.server has an address: not a pool matter
            old = target.address
            self.model_lines.append(f"poke {tname} addr " + ("- -" if new is None else f"{s['v'][0]} {s['v'][1]}"))
            try:
                if s.get("how") == "set_state":       # restoring a state into the live object (Flow.set_state / revert)
                    st = target.get_state(); st["address"] = Server(address=new).get_state()["address"]
                    target.set_state(st)
                else:
                    target.address = new
                raised = False
            except RuntimeError: raised = True
            now = target.address
        else:
            new = None if s["v"] is None else PROXIES[s["v"]]
            old = target.via
            self.model_lines.append(f"poke {tname} via " + via_idx(new))
            try:
                if s.get("how") == "set_state":
                    tmp = Server(address=None); tmp.via = new
                    st = target.get_state(); st["via"] = tmp.get_state()["via"]
                    target.set_state(st)
                else:
                    target.via = new
                raised = False
            except RuntimeError: raised = True
            now = target.via
        self.step_out.append("raised" if raised else "set")
        self.pokes.append({"open": was_open, "changed": new != old, "raised": raised, "kept": now == old, "took": now == new})


def run_case(case):
    return Run(case).run()


class Check(PropertyCheck):
    prop = "C08"
    design_ref = "§5 C08"
    level_text = ("Lean theorems about an executable model of HttpLayer's connection pool (ordered `connections` incl. the tunnel "
                  "entries, waiting_for_establishment, get_connection with its reuse rule — pending / error / connected / "
                  "half-closed / HTTP/2->HTTP/1 — and the context-connection branch, register_connection incl. the "
                  "one-flow-per-connection re-dispatch, connection_spec_matches, the Server.__setattr__ guard, and the closes the "
                  "HTTP/1 client layer makes itself: full close on the peer's FIN, close after an exchange with Connection: close "
                  "or for an HTTP/2 client) for ALL histories of requests, connection results, peer closes, completed exchanges, "
                  "raw state changes, error marks and attribute assignments (invariants by induction over the history): "
                  "routed_to_matching, failed_not_reused, errored_never_routed, dead_entry_never_routed, "
                  "failed_attempt_never_routed, pending_not_connected, the whole-history forms from an empty pool "
                  "errored_never_routed_reachable / dead_entry_never_routed_reachable / failed_attempt_never_routed_reachable, "
                  "open_conn_immutable, open_interval_immutable, setAttr_guard, waiting_matches "
                  "(+ pending_poke_misroutes: the admissibility hypothesis is necessary). "
                  "The model is tied to the real HttpLayer/HttpStream/HttpClient/ServerTLSLayer/HttpUpstreamProxy stack run "
                  "through world.py: after every step of a history the routing decisions and the whole pool (attributes, state, "
                  "error, tunnel entries, waiting lists) are compared; the state of a connection after a peer close or a completed "
                  "exchange is PREDICTED by the model, not fed to it.")
    level_note = ("trusted: Lean kernel; the differential tie (scenario grid + exhaustive <=4-step histories + random histories). "
                  "Still inputs of the model: Connection.state of tunnel entries and state changes by client teardown (made by the "
                  "server and the tunnel layer, run for real); OpenSSL is replaced by an identity cipher handed to the real "
                  "ServerTLSLayer through its tls_start_server hook; upstream HTTP/2 and HTTP/3 servers and CONNECT requests from "
                  "the client are not driven. routed_to_matching assumes that no addon re-assigns address/via of a connection "
                  "while its attempt is pending (the guard does not cover that: a server_connect hook doing so redirects "
                  "deliberately); the hypothesis is explicit (Admissible) and shown necessary by pending_poke_misroutes. "
                  "dead_entry_never_routed / failed_attempt_never_routed assume that raw state changes never re-open a socket "
                  "(NoReopen); that a pending connection is not connected before its result arrives is now derived "
                  "(pending_not_connected), so failed_attempt_never_routed_reachable has no hypothesis about the pool. Lenient branches (generator domain, no oracle "
                  "waiver): pokes of a connection whose attempt is pending or whose tunnel is still connecting are not made; in "
                  "reverse modes the context connection's address is never set to None (transparent-mode streams assert it); an "
                  "HTTP/1 client sends one request at a time; the oracle's socket clause uses the harness's own record of what each "
                  "connection was opened for; C08 has no recorded finding, known() excuses nothing (known_selftest).")
    technique = "Lean 4 proof (pool invariant over all histories) + end-to-end correspondence through the real HttpLayer with scripted connection outcomes"
    rule = ("scenario grid (mode x client protocol x two-request patterns over the 3x2x2x2(+1 proxy) destination universe x "
            "connection fates) then random histories of <= 12 steps: requests (with requestheaders/request rewrites of host, "
            "port, scheme, via by assignment or by replacing server_conn), connect results, responses (keep-alive / close), "
            "peer closes, pokes of address/via; distinct = distinct history; non-trivial = at least one connection was opened.")
    budget = {"quick": 2200, "thorough": 60000}
    time_budget = {"quick": 25, "thorough": 600}
    fingerprints = ["mitmproxy.proxy.layers.http:GetHttpConnection.connection_spec_matches",
                    "mitmproxy.proxy.layers.http:HttpLayer.get_connection",
                    "mitmproxy.proxy.layers.http:HttpLayer.register_connection",
                    "mitmproxy.proxy.layers.http:HttpLayer.event_to_child",
                    "mitmproxy.proxy.layers.http:HttpStream.make_server_connection",
                    "mitmproxy.proxy.layers.http:HttpClient._handle_event",
                    "mitmproxy.connection:Server.__setattr__",
                    "mitmproxy.proxy.layers.http._http1:Http1Connection.mark_done",
                    "mitmproxy.proxy.layers.http._http1:Http1Client.read_headers",
                    "mitmproxy.connection:Connection.connected",
                    "mitmproxy.proxy.layers.tls:TLSLayer.__init__",
                    "mitmproxy.proxy.tunnel:TunnelLayer._handle_event"]
    trusted_base = ["identity-cipher stand-in for pyOpenSSL inside the real ServerTLSLayer",
                    "h2 library as the HTTP/2 client peer"]
    parallel = True

    def setup(self, tier):
        self.parallel = tier == "thorough"
        self.known_selftest()

    def known_selftest(self):
        """C08 has no recorded finding: nothing may ever be excused; and the oracle's clauses, on frozen observations
        (independent of the tree under test), must fire where they should"""
        case = {"mode": "regular", "client": "h1", "fates": ["ok"], "steps": []}
        ok = {"rid": 2, "cid": 0, "addr": ["b.example", 8001], "tls": False, "via": "-", "transport": "tcp", "open": True,
              "error": False, "failed_before": False, "opened_to": [["b.example", 8001], False, "-"]}
        dest = {"2": ["b.example", 8001, "http", "-", "tcp"]}
        mk = lambda r, pokes=(): {"crash": [], "routed": [r], "dest": dest, "pokes": list(pokes)}
        T = [
            (mk(ok), []),
            (mk(dict(ok, addr=["a.example", 8001])), ["misrouted:"]),
            (mk(dict(ok, tls=True)), ["misrouted:"]),
            # the label matches, the socket does not (a re-labelled live connection)
            (mk(dict(ok, opened_to=[["a.example", 8001], False, "-"])), ["misrouted (socket):"]),
            (mk(dict(ok, opened_to=[["b.example", 8001], False, "2:1"])), ["misrouted (socket):"]),
            (mk(dict(ok, error=True)), ["failed connection"]),
            (mk(dict(ok, failed_before=True)), ["failed connection"]),
            (mk(ok, [{"open": True, "changed": True, "raised": False, "kept": False, "took": True}]), ["address/via of an open"]),
            (mk(ok, [{"open": True, "changed": True, "raised": True, "kept": True, "took": False}]), []),
            (mk(ok, [{"open": False, "changed": True, "raised": False, "kept": False, "took": True}]), []),
        ]
        for obs, want in T:
            fs = self.oracle(case, obs)
            if len(fs) != len(want) or any(not f.startswith(w) for f, w in zip(fs, want)):
                raise AssertionError(f"known_selftest: oracle gave {fs}, expected {want}")
            for f in fs:
                if self.known(case, obs, f) is not None:
                    raise AssertionError("known_selftest: C08 has no finding, yet known() excused " + f)

    # ---- generator --------------------------------------------------------------------------------------------
    @staticmethod
    def _req(i, host=0, port=0, tls=0, rw=None):
        d = {"k": "req", "id": i, "host": host, "port": port, "tls": tls}
        if rw: d["rw"] = rw
        return d

    def generate(self, rng, tier):
        R = self._req
        # scenario grid: two/three requests, same or different destination, resolved in different orders
        grid = []
        for mode in MODES:
            for client in ("h1", "h2"):
                for fate in FATES:
                    for second in ((0, 0, 0), (1, 0, 0), (0, 1, 0), (0, 0, 1)):
                        for via_rw in (None, ["set", 0], ["replace", 0], ["set", None], ["replace", 1]):
                            rw = [{"at": "request", "via": via_rw}] if via_rw else None
                            base = [R(1), {"k": "connect", "i": 0}, {"k": "respond", "c": 0}]
                            r2 = R(2, *second, rw=rw)
                            grid.append({"mode": mode, "client": client, "fates": [fate, "ok"],
                                         "steps": base + [r2, {"k": "connect", "i": 0}, {"k": "respond", "c": 1}, R(3), {"k": "connect", "i": 0}]})
                            grid.append({"mode": mode, "client": client, "fates": ["ok", fate],
                                         "steps": [R(1), r2, R(3, *second), {"k": "connect", "i": 0}, {"k": "connect", "i": 0},
                                                   {"k": "connect", "i": 0}, R(4), {"k": "connect", "i": 0}]})
        # re-label an established connection (assignment / restored state), then ask for the new label
        for mode in ("regular", "upstream", "reverse_open"):
            for client in ("h1", "h2"):
                for how in ("setattr", "set_state"):
                    for f, v, second in (("addr", [1, 0], (1, 0, 0)), ("via", 0, (0, 0, 0)), ("via", 1, (0, 0, 0)), ("via", None, (0, 0, 0))):
                        rw = [{"at": "request", "via": ["replace", v]}] if f == "via" else None
                        grid.append({"mode": mode, "client": client, "fates": ["ok"], "steps": [
                            R(1), {"k": "connect", "i": 0}, {"k": "respond", "c": 0},
                            {"k": "poke", "c": 0, "f": f, "v": v, "how": how},
                            R(2, *second, rw=rw), {"k": "connect", "i": 0}]})
        rng.shuffle(grid)
        if tier == "quick": grid = grid[:800]
        yield from grid
        if tier == "thorough":
            yield from self.exhaustive(tier)
        while True:
            yield self._random(rng)

    def exhaustive(self, tier):
        """every history of <= 4 steps over a small alphabet (two destinations that differ in one coordinate)"""
        import itertools
        for second in ((1, 0, 0), (0, 0, 1), (2, 1, 0)):
            alpha = [("A",), ("B",), ("Bv",), ("c", 0), ("c", 1), ("r", 0)]
            for mode in ("regular", "upstream"):
                for client in ("h2", "h1"):
                    for fates in (["ok"], ["tcp_fail", "ok"], ["ok", "tls_fail"]):
                        for n in (2, 3, 4):
                            for seq in itertools.product(alpha, repeat=n):
                                if seq[0][0] not in "AB": continue
                                steps, rid = [], 0
                                for a in seq:
                                    if a[0] == "A": rid += 1; steps.append(self._req(rid))
                                    elif a[0] == "B": rid += 1; steps.append(self._req(rid, *second))
                                    elif a[0] == "Bv":
                                        rid += 1
                                        steps.append(self._req(rid, *second, rw=[{"at": "request", "via": ["replace", None if mode == "upstream" else 0]}]))
                                    elif a[0] == "c": steps.append({"k": "connect", "i": a[1]})
                                    else: steps.append({"k": "respond", "c": a[1]})
                                yield {"mode": mode, "client": client, "fates": fates, "steps": steps}

    def _random(self, rng):
        mode = rng.weighted([(4, "regular"), (3, "upstream"), (1, "reverse_lazy"), (2, "reverse_open"), (1, "reverse_err")])
        client = "h2" if rng.chance(0.6) else "h1"
        nf = rng.randint(1, 4)
        fates = [rng.weighted([(6, "ok"), (2, "tcp_fail"), (1, "tunnel_fail"), (1, "tls_fail")]) for _ in range(nf)]
        steps, rid = [], 0
        few = rng.chance(0.5)      # concentrate on one or two destinations so that reuse happens
        dests = [(rng.randint(0, 2), rng.randint(0, 1), rng.randint(0, 1)) for _ in range(2)]

        def dest():
            if few: return rng.pick(dests)
            return (rng.randint(0, 2), rng.randint(0, 1), rng.randint(0, 1))
        for _ in range(rng.randint(2, 12)):
            r = rng.random()
            if r < 0.4:
                rid += 1
                h, p, t = dest()
                rws = []
                if rng.chance(0.3):
                    rw = {"at": rng.pick(["requestheaders", "request"])}
                    what = rng.pick(["host", "port", "tls", "via", "via", "all"])
                    h2_, p2_, t2_ = dest()
                    if what in ("host", "all"): rw["host"] = h2_
                    if what in ("port", "all"): rw["port"] = p2_
                    if what in ("tls", "all"): rw["tls"] = t2_
                    if what in ("via", "all"): rw["via"] = [rng.pick(["set", "replace"]), rng.pick([None, 0, 0, 1])]
                    rws.append(rw)
                steps.append(self._req(rid, h, p, t, rws or None))
            elif r < 0.65:
                steps.append({"k": "connect", "i": rng.randint(0, 3)})
            elif r < 0.82:
                steps.append({"k": "respond", "c": rng.randint(0, 5), "close": rng.chance(0.3)})
            elif r < 0.9:
                steps.append({"k": "close", "c": rng.randint(0, 5)})
            else:
                how = rng.pick(["setattr", "set_state"])
                if rng.chance(0.5):
                    steps.append({"k": "poke", "c": rng.pick(["ctx", 0, 1, 2]), "f": "addr", "how": how,
                                  "v": rng.pick([None, [rng.randint(0, 2), rng.randint(0, 1)], list(dest()[:2])])})
                else:
                    steps.append({"k": "poke", "c": rng.pick(["ctx", 0, 1, 2]), "f": "via", "how": how, "v": rng.pick([None, 0, 1])})
        return {"mode": mode, "client": client, "fates": fates, "steps": steps}

    # ---- implementation ---------------------------------------------------------------------------------------
    def impl(self, case):
        obs = run_case(case)
        self._stash = (json.dumps(case, sort_keys=True), obs)
        return obs

    # ---- oracle ---------------------------------------------------------------------------------------------------
    def oracle(self, case, obs):
        fails = []
        if obs["crash"]:
            fails.append("layer raised: " + obs["crash"][0])
        for r in obs["routed"]:
            d = obs["dest"].get(str(r["rid"]))
            if r["cid"] is None:
                fails.append(f"request {r['rid']} written to a connection that is not in the pool"); continue
            if d is None:
                fails.append(f"request {r['rid']} forwarded without a request hook"); continue
            # "each request is written only to an upstream connection whose address, TLS setting, upstream proxy and
            #  transport protocol equal the request's destination at the time it is forwarded"
            want = {"addr": [d[0], d[1]], "tls": d[2] == "https", "via": d[3], "transport": d[4]}
            got = {k: r[k] for k in want}
            if got != want:
                fails.append(f"misrouted: request {r['rid']} for {want} written to connection {r['cid']} with {got}")
            # the same statement against what the harness itself knows about the socket (not the connection object's
            # current label, which is the implementation's own bookkeeping)
            ot = r.get("opened_to")
            if ot is not None and ot != [want["addr"], want["tls"], want["via"]] and tuple(ot) != (want["addr"], want["tls"], want["via"]):
                fails.append(f"misrouted (socket): request {r['rid']} for {want} written to a connection that was opened for {ot}")
            # "a connection that failed is not reused for later requests"
            if r["error"] or r["failed_before"]:
                fails.append(f"failed connection {r['cid']} reused for request {r['rid']}")
        # "An upstream connection's address and upstream proxy cannot be changed while it is open"
        for p in obs["pokes"]:
            if p["open"] and p["changed"] and not (p["raised"] and p["kept"]):
                fails.append("address/via of an open connection was changed by assignment")
        return fails

    # ---- model tie --------------------------------------------------------------------------------------------
    def model_lines(self, case):
        key = json.dumps(case, sort_keys=True)
        obs = self._stash[1] if getattr(self, "_stash", (None,))[0] == key else self.impl(case)
        return obs["model_lines"]

    def model_obs(self, case, replies):
        key = json.dumps(case, sort_keys=True)
        obs = self._stash[1] if getattr(self, "_stash", (None,))[0] == key else self.impl(case)
        if any(r == "bad-op" for r in replies): return "bad-op"
        out, prev = [], 0
        for st in obs["steps"]:
            seg = replies[prev:st["at"]]
            prev = st["at"]
            outs = []
            for r in seg:
                o, note, pool, ctxs = r.split(" ")
                if o != "-": outs += [x for x in o.split(",") if x[0] in "rf"]
                if note != "-": outs.append(note)
            last = replies[st["at"] - 1].split(" ")
            out.append({"outs": sorted(outs), "pool": last[2], "ctx": last[3]})
        return out

    def impl_view(self, case, obs):
        return [{"outs": s["outs"], "pool": s["pool"], "ctx": s["ctx"]} for s in obs["steps"]]

    def classify(self, case, obs):
        return json.dumps(case, sort_keys=True) if obs["n_conns"] else None

    def branches(self, case, obs):
        out = [f"mode:{case['mode']}", f"client:{case['client']}", f"conns:{min(obs['n_conns'], 4)}"]
        lines = obs["model_lines"]
        routed = {}
        for r in obs["routed"]: routed.setdefault(r["cid"], []).append(r["rid"])
        if any(len(v) > 1 for v in routed.values()): out.append("reuse:established-connection")
        if any("+" in s["pool"] for s in obs["steps"]): out.append("reuse:joined-pending-connection")
        if any(l.startswith("res") and " fail " in l for l in lines): out.append("connect:failed")
        if any(o.startswith("f") for s in obs["steps"] for o in s["outs"]): out.append("request:failed")
        if any(p["raised"] for p in obs["pokes"]): out.append("poke:raised")
        if any(p["took"] and p["changed"] for p in obs["pokes"]): out.append("poke:took")
        if any(s["ctx"].startswith("in") for s in obs["steps"]): out.append("context-connection:used")
        return out

    def shrink_candidates(self, case):
        st = case["steps"]
        for i in range(len(st)):
            c = dict(case); c["steps"] = st[:i] + st[i + 1:]; yield c
        for i, s in enumerate(st):
            if s.get("rw"):
                c = dict(case); c["steps"] = st[:i] + [{k: v for k, v in s.items() if k != "rw"}] + st[i + 1:]; yield c

    def neighbours(self, case, rng):
        for mode in MODES:
            for client in ("h1", "h2"):
                c = dict(case); c.update(mode=mode, client=client); yield c
        for _ in range(200):
            yield self._random(rng)
