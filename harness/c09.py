"""C09 — connection lifecycle events pair up and per-destination concurrency is bounded
(proxy/server.py ConnectionHandler.handle_client / open_connection / handle_connection / server_event / release_transport)."""
import ast, inspect, json, os
from common.check import PropertyCheck
from common.paths import REPO
import c09_engine as E

ADDRID = {"a": "0", "b": "1", "c": "2", "d": "3", "e": "4", "f": "5", "g": "6", "h": "7", "-": "-"}


def _sem_size_from_source():
    """the N in `collections.defaultdict(lambda: asyncio.Semaphore(N))` of ConnectionHandler.__init__"""
    src = open(os.path.join(REPO, "mitmproxy/proxy/server.py")).read()
    found = []
    for cls in ast.walk(ast.parse(src)):
        if isinstance(cls, ast.ClassDef) and cls.name == "ConnectionHandler":
            for n in ast.walk(cls):
                if (isinstance(n, ast.Call) and isinstance(n.func, ast.Attribute) and n.func.attr == "Semaphore"
                        and n.args and isinstance(n.args[0], ast.Constant)):
                    found.append(int(n.args[0].value))
    if len(found) != 1:
        raise RuntimeError(f"C09 translator: expected exactly one Semaphore(N) in ConnectionHandler, found {found}")
    return found[0]


def project(trace):
    """real trace (records) -> driver lines.  One line per observable action; `q` at every quiescent point.
    Done-callbacks: every release_transport call made from a callback is observed (`rel` by "?") and becomes `f <task>`;
    asyncio.wait's completion callback is not observable from outside — it is registered right behind release_transport
    on every awaited task, so the loop runs it right after it: a second `f <task>` is emitted for awaited tasks."""
    lines, snaps = ["reset"], []
    owner, started, gidx, nextg = {}, set(), {}, 0        # key -> global attempt; started attempts; task label -> global
    cstarted = False
    queued = set()                                         # task labels currently queued on a semaphore
    requested, opened = {}, {}                             # task label -> requested address letter; attempt -> letter
    entries = set()                                        # server keys currently in the real transports
    awaited = set()                                        # attempts handle_client's final asyncio.wait waits for
    i, n = 0, len(trace)

    def tid(t):
        if t in ("H", "C"): return t
        if t.startswith("k"): return t
        return f"s{gidx[t]}"
    while i < n:
        r = trace[i]; k = r[0]
        if k == "start":
            t = r[1]
            if t == "H": pass
            elif t == "C": cstarted = True; lines.append("a C start")
            elif t.startswith("s"):
                g = owner[r[2]]; gidx[t] = g; started.add(g); lines.append(f"a s{g} start"); requested[t] = opened.get(g)
            else: lines.append(f"a {t} start")
        elif k == "hook": lines.append(f"a {tid(r[1])} hook {r[2]}")
        elif k == "dial":
            # the address as the server_connect hook left it; only a rewrite is an action of its own
            if r[2] in ADDRID and r[2] != "-" and r[2] != requested.get(r[1]): lines.append(f"a {tid(r[1])} dial {ADDRID[r[2]]}")
        elif k == "hookret":
            lines.append(f"a {tid(r[1])} hookret {r[3]} {r[4]}")
            if r[1] == "H" and r[2] == "cd":
                awaited = {owner[key] for key in entries}
        elif k == "ev":
            cmds = []; j = i + 1; crashed = False; creqs = []
            while j < n and trace[j][0] not in ("evend", "crash"):
                c = trace[j]
                if c[0] == "cmd": cmds.append(c)
                elif c[0] == "tset" and c[2] != "c": entries.add(c[2])
                elif c[0] == "creq" and c[1] in queued: creqs.append(c[1])   # close_connection's handler.cancel()
                j += 1
            if j < n and trace[j][0] == "crash": crashed = True
            if crashed and cmds: cmds = cmds[:-1]             # the command that raised had no effect
            out = []
            for c in cmds:
                if c[1] == "open":
                    owner[c[2]] = nextg; opened[nextg] = c[3]; nextg += 1
                    out.append(f"o{c[2]}:{ADDRID[c[3]]}")
                elif c[1] == "hook": out.append("k")
            lines.append(f"a {tid(r[1])} ev {r[2]} {','.join(out) or '-'}")
            for t in creqs: lines.append(f"a {tid(t)} creq")
            i = j
        elif k in ("semwait", "semacq", "semcancel", "semrel"):
            lines.append(f"a {tid(r[1])} {k}")
            if k == "semwait": queued.add(r[1])
            elif k in ("semacq", "semcancel"): queued.discard(r[1])
        elif k == "creq":
            if r[1] in queued: lines.append(f"a {tid(r[1])} creq")     # Task.cancel() on a task queued for a slot
        elif k == "connret": lines.append(f"a {tid(r[1])} connret {r[2]}")
        elif k == "readret": lines.append(f"a {tid(r[1])} readret {r[2]}")
        elif k == "wclose":
            if r[1] != "?": lines.append(f"a {tid(r[1])} wclose")
        elif k == "tset":
            if r[2] != "c": entries.add(r[2])
        elif k == "tdel":
            entries.discard(r[2])
        elif k == "rel":
            if r[1] == "?":                                   # a done-callback
                if r[2] == "c":
                    if not cstarted: lines.append("a C fin"); cstarted = True
                    lines.append("f C")                       # release_transport
                    lines.append("f C")                       # asyncio.wait([handler])'s completion callback
                else:
                    g = gidx[r[3]] if r[3] in gidx else owner[r[2]]
                    if g not in started: lines.append(f"a s{g} fin"); started.add(g)
                    lines.append(f"f s{g}")
                    if g in awaited: lines.append(f"f s{g}")
        elif k == "end": lines.append(f"a {tid(r[1])} fin")
        elif k == "snap":
            lines.append("q"); snaps.append(r[1:])
        i += 1
    lines.append("qc")
    return lines, snaps, gidx


class Check(PropertyCheck):
    prop = "C09"
    design_ref = "§5 C09"
    level_text = ("Lean theorems (client_hooks_paired, connect_outcome_exactly_one, connected_then_disconnected_once, "
                  "at_most_five_per_address, no_transports_after_return, wait_counts_callbacks, "
                  "final_wait_covers_transports, semaphore_accounts_balanced, at_most_n_per_address, "
                  "waiters_are_tasks_of_the_address, only_late_opens_remain, late_marks_imply_lateOpen, early_connections_settled_at_return, final_wait_covers_early_transports; plus two step-local, definitional lemmas that document the model: "
                  "cancelled_waiter_keeps_count, slot_keyed_on_dialled_address) about a program-counter model of ConnectionHandler's tasks (handle_client, one "
                  "task per open_connection, the client connection handler, hook tasks) TOGETHER WITH an explicit small-step "
                  "model of the asyncio machinery they rely on: per-task done-callback lists in registration order "
                  "(release_transport, asyncio.wait's completion callback) run only after the task finished, "
                  "asyncio.wait as a counter, and asyncio.Semaphore transcribed from CPython 3.12 (counter per address, FIFO "
                  "of waiters, acquire = take a slot when not locked else queue, release = increment and hand the slot to "
                  "the first pending waiter, a cancelled queued waiter leaves the queue without touching the counter, a "
                  "waiter cancelled after the hand-off gives the slot back); the semaphore key is the address that is DIALLED — "
                  "read after the server_connect hook, in which an addon may have rewritten it — and every per-address "
                  "theorem counts by that address. Proved for EVERY schedule: any choice of the next runnable task action or "
                  "callback, every await returning normally, failing or delivering a cancellation, any command list from "
                  "the layer (induction over the schedule, invariants). The model is tied to the real "
                  "ProxyConnectionHandler running on a virtual-time asyncio loop by trace inclusion: the schedule the real "
                  "loop chose — every hook fired/returned, semaphore event, Task.cancel() on a queued task, connect, read, "
                  "server_event with its commands, writer.close, task end and every release_transport done-callback — is "
                  "replayed in the compiled model, and model state = real state at every quiescent point, including, PER DIALLED ADDRESS, "
                  "the real semaphores' taken slots and queue lengths, which the model predicts.")
    level_note = ("trusted: Lean kernel; no scheduling fact about asyncio is assumed any more: the semaphore, the "
                  "done-callbacks and asyncio.wait are transcribed into the model and tied to the running interpreter's "
                  "asyncio (3.12.1) by the replay (a different asyncio.Semaphore implementation would show up as a broken "
                  "tie). What the done-callback/asyncio.wait part takes from asyncio is that a future's callbacks run after "
                  "completion in registration order — the completion callback of asyncio.wait is not observable from "
                  "outside and is placed in the replayed schedule right behind the observed release_transport callback. "
                  "handle_client itself is assumed not to be cancelled from outside; no_transports_after_return keeps its "
                  "hypothesis (no late open) and is accompanied by only_late_opens_remain / "
                  "early_connections_settled_at_return, which need NO hypothesis about the layer: at return only entries of "
                  "connections opened after handle_client had collected the transports may remain (ghost mark `late`, "
                  "whose count the model predicts and the tie compares). The clause 'no connection resources remain after "
                  "client_disconnected has fired' is read AT THE RETURN of handle_client (between the hook and the return the "
                  "entries exist by design: they are cancelled and waited for). The late-open branch of the oracle is lenient "
                  "for the SCRIPTED layer only. Why it is not recorded as a finding: a connection can be opened late only by a "
                  "layer reacting to an event that arrives after handle_client collected the transports (a hook completing, "
                  "the completion of a cancelled connect, a server close); mitmproxy's layers have by then processed the "
                  "client's ConnectionClosed — otherwise the client handler would still be waiting for CloseConnection and "
                  "handle_client could not have returned; a layer blocked in a hook keeps the event queued and keeps "
                  "handle_client from returning, and the idle timeout never fires while a hook is pending (C10) — and "
                  "HttpLayer marks its streams errored, so a resumed stream fires the error hook instead of connecting. "
                  "This is an argument, not a proof about the layers; it is CHECKED on the real NextLayer->HttpLayer stack "
                  "(130 cases: each of 10 hooks held across a client disconnect at every stage of a two-request exchange, "
                  "connect ok/refused, hooks released after the return): no asyncio.open_connection after the return, "
                  "nothing remaining at the return or later, with NO excuse in the oracle for these cases. TLS / TCP / "
                  "WebSocket / QUIC layers are not driven in that case kind; GC of "
                  "writers, real sockets and the event loop's selector are out of scope; the tie is differential "
                  "(systematic cancellation/disconnect injection at every step of base scenarios + random scripts).")
    technique = "Lean 4 proof (invariants over all schedules of a task system) + trace-inclusion correspondence on a virtual-time loop"
    rule = ("environment scripts over {layer commands carried by client/server data (8 destination addresses), "
            "server_connect hook policies that rewrite the address (many->one, swap, one->many), connect ok/refuse, hook release, "
            "peer data/EOF/reset, drain failure, write_eof failure, clock advance, cancellation of a handler task, client "
            "EOF/reset}; base scenarios with a cancellation / client disconnect injected after every step, then random "
            "scripts; plus the REAL layer stack (NextLayer -> HttpLayer, regular mode): each of 10 hooks held while the client goes away at "
            "every stage of a two-request exchange, connect ok/refused, hooks released after handle_client returned (no model "
            "counterpart, judged by the oracle without the late-open excuse). distinct = distinct script; non-trivial = at least "
            "one upstream connection attempt.")
    budget = {"quick": 500, "thorough": 20000}
    time_budget = {"quick": 25, "thorough": 500}
    fingerprints = ["mitmproxy.proxy.server:ConnectionHandler.handle_client",
                    "mitmproxy.proxy.server:ConnectionHandler.open_connection",
                    "mitmproxy.proxy.server:ConnectionHandler.handle_connection",
                    "mitmproxy.proxy.server:ConnectionHandler.release_transport",
                    "mitmproxy.proxy.server:ConnectionHandler.server_event",
                    "mitmproxy.proxy.server:ConnectionHandler.close_connection",
                    "mitmproxy.proxy.server:ConnectionHandler.drain_writers",
                    "mitmproxy.proxy.server:ConnectionHandler.hook_task",
                    "mitmproxy.proxy.server:ConnectionHandler.on_timeout",
                    "mitmproxy.proxy.server:ConnectionHandler.__init__",
                    "mitmproxy.proxy.server:LiveConnectionHandler.__init__",
                    "mitmproxy.proxy.mode_servers:ProxyConnectionHandler.handle_hook"]
    trusted_base = ["asyncio Task/Semaphore/wait/done-callback semantics (exercised on a virtual clock; three facts assumed, see level_note)"]
    parallel = False

    # ---- translator ---------------------------------------------------------------------------
    def translate(self):
        n = _sem_size_from_source()
        return {"MitmVerif/Gen/C09.lean":
                "/- GENERATED by harness/c09.py translate() from mitmproxy/proxy/server.py — do not edit -/\n"
                "namespace MitmVerif.Gen.C09\n\n"
                "/-- `collections.defaultdict(lambda: asyncio.Semaphore(N))` in ConnectionHandler.__init__ -/\n"
                f"def semSize : Nat := {n}\n\nend MitmVerif.Gen.C09\n"}

    # ---- generation ---------------------------------------------------------------------------
    REACT = [{"closed_c": "Cc", "closed_s": "C$"}, {"closed_c": "Cc"}, {"closed_c": "Cc", "completed_err": "O$a"},
             {"closed_c": "Cc", "closed_s": "C$", "completed_ok": "S$", "start": "X"},
             {"closed_c": "", "closed_s": "C$"}, {"closed_c": "Cc", "hookdone": "O7b", "start": "X"},
             {"closed_c": "Cc;C0;C1", "closed_s": "H$"}]
    BASES = [
        # eight connections whose requested addresses all differ; an addon may redirect them (case["rewrite"]) — the bound of
        # five is per DIALLED address
        [["cli", "O0a;O1b;O2c;O3d;O4e;O5f;O6g;O7h"], ["conn", 0, "ok"], ["conn", 1, "ok"], ["conn", 2, "ok"], ["conn", 3, "ok"],
         ["conn", 4, "ok"], ["conn", 5, "ok"], ["conn", 6, "ok"], ["conn", 7, "ok"], ["seof", 2], ["conn", 5, "ok"], ["cli", "C6"],
         ["conn", 7, "ok"]],
        # N+2 concurrent opens to ONE address: five get a slot, two queue for one; a cancellation of a queued one
        # (injected at every position) must not free a slot
        [["cli", "O0a;O1a;O2a;O3a;O4a;O5a;O6a"], ["conn", 0, "ok"], ["conn", 1, "ok"], ["conn", 2, "ok"], ["conn", 3, "ok"],
         ["conn", 4, "ok"], ["cli", "C5"], ["conn", 6, "ok"], ["conn", 5, "ok"], ["seof", 0], ["conn", 6, "ok"], ["conn", 5, "ok"]],
        # five open, one is closed while nobody is queued, then four more are requested: still at most five
        [["cli", "O0a;O1a;O2a;O3a;O4a"], ["conn", 0, "ok"], ["conn", 1, "ok"], ["conn", 2, "ok"], ["conn", 3, "ok"], ["conn", 4, "ok"],
         ["cli", "C0"], ["cli", "O5a;O6a;O7a;O0a"], ["conn", 5, "ok"], ["conn", 6, "ok"], ["conn", 7, "ok"], ["conn", 0, "ok"], ["seof", 1], ["conn", 6, "ok"]],
        [["cli", "O0a"], ["conn", 0, "ok"], ["sdata", 0, "Sc"], ["seof", 0]],
        [["cli", "O0a"], ["conn", 0, "refuse"], ["cli", "O0a"], ["conn", 0, "ok"], ["cli", "S0"], ["serr", 0]],
        [["cli", "O0a;O1a;O2a;O3a;O4a;O5a;O6a"], ["conn", 0, "ok"], ["conn", 1, "ok"], ["conn", 2, "refuse"], ["conn", 5, "ok"],
         ["seof", 0], ["conn", 6, "ok"], ["cli", "C1"], ["conn", 3, "ok"], ["conn", 4, "ok"]],
        [["cli", "O0a;O1b"], ["hook", 0], ["hook", 0], ["conn", 0, "ok"], ["conn", 1, "ok"], ["hook", 0], ["hook", 0],
         ["sdata", 0, "S1"], ["sdata", 1, "Sc"], ["cli", "C0"], ["hook", 0], ["seof", 1], ["hook", 0]],
        [["cli", "O0-"], ["cli", "O0a"], ["conn", 0, "ok"], ["cli", "H0"], ["seof", 0], ["cli", "C0"]],
        [["cli", "O0a;C0"], ["cli", "O0a"], ["conn", 0, "ok"], ["drainfail", 0], ["sdata", 0, "Sc"], ["cli", "Sc"]],
        [["cli", "X;O0a"], ["hook", 0], ["conn", 0, "ok"], ["hook", 1], ["drainfail", "c"], ["sdata", 0, "Sc"]],
        [["cli", "O0a"], ["conn", 0, "ok"], ["tick", 30], ["sdata", 0, "Sc"], ["tick", 30], ["tick", 30]],
        [["cli", "O0a;O1a"], ["conn", 1, "ok"], ["cerr"]],
        [["cli", "O0a;O0a;O1b"], ["cli", "S0;S1"], ["conn", 0, "ok"], ["eoffail", 0], ["cli", "H0"], ["cli", "H0"], ["seof", 0]],
    ]
    SLOW = [[], ["sc"], ["sd"], ["se"], ["sx"], ["sc", "sd", "se", "sx"], ["cc"], ["cd"], ["hk"], ["*"], ["sc:0", "sd:1"]]

    def _inject(self, steps):
        tasks = ["C"] + [f"s{i}.0" for i in range(7)] + ["s0.1"]
        for pos in range(len(steps) + 1):
            for inj in (["ceof"], ["cerr"]):
                yield steps[:pos] + [inj] + steps[pos:]
            for t in tasks:
                yield steps[:pos] + [["cancel", t]] + steps[pos:]

    REWRITES = [{"*": "a"}, {"0": "b", "1": "a", "2": "b", "3": "a"}, {"0": "b", "1": "c", "2": "d", "3": "e", "4": "f", "5": "g"},
                {"*": "b", "0": "a"}]

    def _systematic(self, tier):
        # address rewriting in the server_connect hook: many -> one, swap, one -> many
        for rw in self.REWRITES:
            for bi in (0, 1, 2):
                for slow in ([], ["sc"], ["sc", "sd", "se", "sx"]):
                    yield {"steps": self.BASES[bi], "slow": slow, "react": self.REACT[0], "rewrite": rw}
        for bi, base in enumerate(self.BASES):
            for slow in (self.SLOW if tier == "thorough" else self.SLOW[:6]):
                for react in (self.REACT if tier == "thorough" else self.REACT[:2]):
                    yield {"steps": base, "slow": slow, "react": react}
        for bi, base in enumerate(self.BASES):
            for slow in (self.SLOW if tier == "thorough" else [[], ["sc", "sd", "se", "sx"]]):
                for steps in self._inject(base):
                    yield {"steps": steps, "slow": slow, "react": self.REACT[0]}
                    if tier == "thorough":
                        yield {"steps": steps, "slow": slow, "react": self.REACT[1]}

    def _random(self, rng):
        n = rng.randint(2, 14)
        steps = []
        for _ in range(n):
            r = rng.random()
            if r < 0.25:
                ops = []
                for _ in range(rng.randint(1, 7)):
                    q = rng.random(); i = rng.randint(0, 7)
                    if q < 0.55: ops.append(f"O{i}{rng.choice('aaaab-')}")
                    elif q < 0.7: ops.append(f"C{rng.choice([str(i), 'c'])}" if rng.random() < 0.9 else "Cc")
                    elif q < 0.8: ops.append(f"H{rng.choice([str(i), 'c'])}")
                    elif q < 0.92: ops.append(f"S{rng.choice([str(i), 'c'])}")
                    else: ops.append(rng.choice(["X", "Xn"]))
                steps.append(["cli", ";".join(ops)])
            elif r < 0.45: steps.append(["conn", rng.randint(0, 7), "ok" if rng.random() < 0.7 else "refuse"])
            elif r < 0.6: steps.append(["hook", rng.randint(0, 3)])
            elif r < 0.7: steps.append(["sdata", rng.randint(0, 7), rng.choice(["Sc", "S0", "C$", "O3a", "X", ""])])
            elif r < 0.78: steps.append([rng.choice(["seof", "serr"]), rng.randint(0, 7)])
            elif r < 0.83: steps.append(["drainfail", rng.choice(["c", rng.randint(0, 7)])])
            elif r < 0.86: steps.append(["eoffail", rng.randint(0, 7)])
            elif r < 0.9: steps.append(["tick", rng.choice([1, 20, 60])])
            elif r < 0.96: steps.append(["cancel", rng.choice(["C", f"s{rng.randint(0, 7)}.{rng.randint(0, 1)}"])])
            else: steps.append([rng.choice(["ceof", "cerr"])])
        case = {"steps": steps, "slow": rng.choice(self.SLOW), "react": rng.choice(self.REACT)}
        if rng.random() < 0.05: case["kill_client"] = True
        if rng.random() < 0.2: case["kill_server"] = [rng.randint(0, 7)]
        if rng.random() < 0.25:
            case["rewrite"] = rng.choice(self.REWRITES + [{str(rng.randint(0, 7)): rng.choice("abc") for _ in range(rng.randint(1, 5))}])
        return case

    def generate(self, rng, tier):
        sysgen = self._systematic(tier)
        realgen = self._real_cases()
        # interleave: systematic injection cases, random scripts, and (taking every second random slot until they are used up)
        # the real-layer cases
        n = 0
        while True:
            for _ in range(3):
                c = next(sysgen, None)
                if c is not None: yield c
            n += 1
            c = next(realgen, None) if n % 2 == 0 else None
            yield c if c is not None else self._random(rng)

    # ---- implementation -----------------------------------------------------------------------
    REAL_HOLD = ["requestheaders", "request", "responseheaders", "response", "error", "server_connect", "server_connected",
                 "server_connect_error", "server_disconnected", "client_disconnected"]
    REQ = "GET http://example.com/ HTTP/1.1\r\nHost: example.com\r\n\r\n"
    RESP = "HTTP/1.1 200 OK\r\nContent-Length: 2\r\n\r\nok"

    def _real_cases(self):
        """the REAL layer stack (NextLayer -> HttpLayer) with each hook held while the client goes away at each stage"""
        for hold in self.REAL_HOLD:
            for conn in ("ok", "refuse"):
                full = [["cli", self.REQ], ["conn", conn], ["srv", self.RESP], ["cli", self.REQ], ["conn", conn]]
                for cut in range(len(full) + 1):
                    yield {"real": {"hold": [hold], "steps": full[:cut] + [["ceof"], ["tick", 1]] + full[cut:]}}
            yield {"real": {"hold": [hold, "request"], "steps": [["cli", self.REQ + self.REQ], ["ceof"], ["release", "request"], ["conn", "ok"]]}}

    def impl(self, case):
        if "real" in case:
            obs = E.run_real_layers(case)
            self._last = {"lines": None}
            return obs
        obs = E.run(case)
        lines, snaps, gidx = project(obs["trace"])
        obs["lines"] = lines
        # real state at the quiescent points: [entries, open upstream writers, client entry, client writer open, semaphore
        # holders, #client_connected, #client_disconnected]
        view, ncc, ncd = [], 0, 0
        collected, nlate, pend = False, 0, 0      # OpenConnections processed after handle_client collected the transports
        for r in obs["trace"]:
            if r[0] == "hook" and r[2] == "cc": ncc += 1
            elif r[0] == "hook" and r[2] == "cd": ncd += 1
            elif r[0] == "hookret" and r[1] == "H" and r[2] == "cd": collected = True
            elif r[0] == "ev": pend = 0
            elif r[0] == "cmd" and r[1] == "open" and collected: pend += 1
            elif r[0] == "tset" and pend and r[3] == 0: nlate += 1; pend -= 1      # the open went through (no crash)
            elif r[0] == "snap": view.append(list(r[1:6]) + [ncc, ncd, nlate, r[8], r[7]])
        obs["snaps"] = view
        nattempts = sum(1 for l in lines for w in l.split()[-1:] if l.startswith("a ") and " ev " in l for c in w.split(",") if c.startswith("o"))
        per = [[0, 0, 0, 0] for _ in range(nattempts)]
        for r in obs["trace"]:
            if r[0] == "hook" and r[2] in ("sc", "sd", "se", "sx"):
                per[gidx[r[1]]][("sc", "sd", "se", "sx").index(r[2])] += 1
        obs["attempts"] = per
        self._last = obs
        return obs

    # ---- oracle: the property sentences on the real trace -------------------------------------
    def oracle(self, case, obs):
        if "real" in case:
            # the real layer stack: no excuse for late opens — mitmproxy's own layers must not ask for a connection once
            # handle_client has returned, and nothing may remain then or later
            fails = []
            if not obs["returned"]: return ["handle_client (real HttpLayer) did not return after the client went away"]
            late = [r for r in obs["trace"] if r[0] == "open_connection" and r[2] == 1]
            if late: fails.append(f"the real layer stack opened a connection after handle_client had returned: {late}")
            if obs["at_return"].get("transports") or obs["at_return"].get("open"):
                fails.append(f"resources remain when handle_client returned (real layers): {obs['at_return']}")
            if obs["at_end"]["transports"] or obs["at_end"]["open"]:
                fails.append(f"resources remain after the held hooks were released (real layers): {obs['at_end']}")
            return fails
        fails = []
        tr = obs["trace"]
        if obs.get("exc"): fails.append(f"handle_client raised {obs['exc']}")
        hooks = [(i, r[1], r[2]) for i, r in enumerate(tr) if r[0] == "hook"]
        cc = [i for i, t, h in hooks if h == "cc"]; cd = [i for i, t, h in hooks if h == "cd"]
        # "each accepted client fires client_connected once and client_disconnected once afterwards"
        if len(cc) != 1: fails.append(f"client_connected fired {len(cc)} times")
        if len(cd) > 1: fails.append(f"client_disconnected fired {len(cd)} times")
        if cd and cc and cd[0] < cc[0]: fails.append("client_disconnected before client_connected")
        if not obs["returned"]:
            fails.append("handle_client did not return after client EOF, completion of everything pending and the idle timeout")
            return fails
        if len(cd) != 1: fails.append(f"handle_client returned with client_disconnected fired {len(cd)} times")
        # "each upstream connection attempt that fires server_connect then fires exactly one of server_connected or
        #  server_connect_error, and every server_connected is followed by exactly one server_disconnected"
        per = {}
        for i, t, h in hooks:
            if h in ("sc", "sd", "se", "sx"): per.setdefault(t, []).append(h)
        for t, hs in sorted(per.items()):
            n = {h: hs.count(h) for h in ("sc", "sd", "se", "sx")}
            if n["sc"] != 1 or hs[0] != "sc": fails.append(f"attempt {t}: hooks {hs} do not start with exactly one server_connect")
            if n["sd"] + n["se"] != 1: fails.append(f"attempt {t}: server_connect followed by {n['sd']} server_connected and {n['se']} server_connect_error: {hs}")
            if n["sx"] != n["sd"]: fails.append(f"attempt {t}: {n['sd']} server_connected but {n['sx']} server_disconnected: {hs}")
            if "sx" in hs and "sd" in hs and hs.index("sx") < hs.index("sd"): fails.append(f"attempt {t}: server_disconnected before server_connected")
        # "at most five upstream connections to the same address are open at the same time"
        for a, m in obs["max_open"].items():
            if m > 5: fails.append(f"{m} connections to {a} open at the same time")
        # "no connection resources remain after client_disconnected has fired" — read at the moment handle_client RETURNS
        # (between the hook and the return, entries exist by design: they are being cancelled and waited for).
        # SCRIPTED LAYER ONLY: the scripted layer may, on purpose, ask for a connection after handle_client has collected the
        # transports to wait for (the lateOpen hypothesis of no_transports_after_return); only what such a late
        # OpenConnection created may remain, everything else must be gone.  mitmproxy's own layers get no such excuse: the
        # real-layer cases (case["real"]) fail on ANY open_connection after the return and on anything remaining.
        ar = obs["at_return"]
        late = self._late_keys(tr)
        left_t = [k for k in ar["transports"] if k not in {str(x) for x in late}]
        left_w = [w for w in ar["open_writers"] if not (w.startswith("s") and w[1:].split(".")[0] in {str(x) for x in late})]
        if left_t: fails.append(f"transports not empty when handle_client returned: {left_t}")
        if left_w: fails.append(f"writers never closed when handle_client returned: {left_w}")
        # a crash of server_event ("mitmproxy has crashed!") is tolerated only for the two asserts the scripted layer can trip
        # on purpose: OpenConnection for a connection still in transports, SendData to an entry that has no writer yet
        ent, last_cmd = {}, None
        for r in tr:
            if r[0] == "ev": last_cmd = None
            elif r[0] == "cmd": last_cmd = r
            elif r[0] == "tset" and r[2] != "c": ent[r[2]] = bool(r[3])
            elif r[0] == "tdel" and r[2] != "c": ent.pop(r[2], None)
            elif r[0] == "crash":
                ok = last_cmd is not None and ((last_cmd[1] == "open" and last_cmd[2] in ent) or
                                               (last_cmd[1] == "send" and last_cmd[2] in ent and not ent[last_cmd[2]]))
                if not ok: fails.append(f"server_event crashed ('mitmproxy has crashed!') while processing {last_cmd}")
        return fails

    @staticmethod
    def _late_keys(tr):
        """server keys of OpenConnection commands issued after handle_client's client_disconnected hook returned"""
        seen, keys = False, set()
        for r in tr:
            if r[0] == "hookret" and r[1] == "H" and r[2] == "cd": seen = True
            elif seen and r[0] == "cmd" and r[1] == "open": keys.add(r[2])
        return keys

    def setup(self, tier):
        self.known_selftest()

    def known_selftest(self):
        """C09 has no recorded finding: known() must excuse nothing; and every clause of the oracle must fire on a doctored,
        hand-written observation (independent of the tree under test) — a silent or over-abstaining oracle cannot pass."""
        T = [["start", "H", "c"], ["hook", "H", "cc", "c"], ["hookret", "H", "cc", "ok", 0], ["ev", "H", "start", "-"],
             ["evend", "H"], ["start", "C", "c"], ["readret", "C", "data"], ["ev", "C", "data", "c"],
             ["cmd", "open", 0, "a"], ["tset", "C", 0, 0], ["evend", "C"], ["start", "s0.0", 0],
             ["hook", "s0.0", "sc", 0], ["hookret", "s0.0", "sc", "ok", 0], ["semacq", "s0.0"], ["connret", "s0.0", "ok"],
             ["tset", "s0.0", 0, 1], ["hook", "s0.0", "sd", 0], ["hookret", "s0.0", "sd", "ok", 0],
             ["readret", "s0.0", "eof"], ["wclose", "s0.0", "s0.0"], ["tdel", "s0.0", 0], ["hook", "s0.0", "sx", 0],
             ["hookret", "s0.0", "sx", "ok", 0], ["semrel", "s0.0"], ["end", "s0.0", "ok"],
             ["readret", "C", "eof"], ["wclose", "C", "c"], ["tdel", "C", "c"], ["end", "C", "ok"],
             ["hook", "H", "cd", "c"], ["hookret", "H", "cd", "ok", 0], ["end", "H", "ok"]]
        def obs(tr=T, **kw):
            o = {"trace": [list(x) for x in tr], "returned": True, "exc": None, "max_open": {"a.test:80": 1},
                 "at_return": {"transports": [], "open_writers": [], "pending_tasks": []}}
            o.update(kw); return o
        case = {"steps": []}
        assert self.oracle(case, obs()) == [], self.oracle(case, obs())
        cut = lambda pred: [x for x in T if not pred(x)]
        doctored = {
            "client_connected missing": obs(cut(lambda x: x[0] == "hook" and x[2] == "cc")),
            "client_disconnected missing": obs(cut(lambda x: x[0] == "hook" and x[2] == "cd")),
            "client_disconnected twice": obs(T + [["hook", "H", "cd", "c"]]),
            "server_connect without outcome": obs(cut(lambda x: x[0] == "hook" and x[2] in ("sd", "sx"))),
            "two outcomes": obs(T + [["hook", "s0.0", "se", 0]]),
            "server_connected without server_disconnected": obs(cut(lambda x: x[0] == "hook" and x[2] == "sx")),
            "six open": obs(max_open={"a.test:80": 6}),
            "entry left": obs(at_return={"transports": ["0"], "open_writers": [], "pending_tasks": []}),
            "writer left": obs(at_return={"transports": [], "open_writers": ["s0.0"], "pending_tasks": []}),
            "client writer left": obs(at_return={"transports": ["c"], "open_writers": ["c"], "pending_tasks": []}),
            "did not return": obs(returned=False),
            "raised": obs(exc="KeyError"),
            "unexplained crash": obs(T[:8] + [["cmd", "close", 0], ["crash", "C"]] + T[11:]),
            "crash without command": obs(T[:8] + [["crash", "C"]] + T[11:]),
        }
        for name, o in doctored.items():
            fs = self.oracle(case, o)
            assert fs, f"C09 known_selftest: the oracle is silent on '{name}'"
            for f in fs: assert self.known(case, o, f) is None, f"C09 known_selftest: known() excuses {f!r}"
        # the two tolerated asserts are tolerated, and only they
        ok1 = obs(T[:17] + [["ev", "C", "data", "c"], ["cmd", "open", 0, "a"], ["crash", "C"]] + T[17:])
        assert self.oracle(case, ok1) == [], self.oracle(case, ok1)
        ok2 = obs(T[:11] + [["ev", "C", "data", "c"], ["cmd", "send", 0], ["crash", "C"]] + T[11:])
        assert self.oracle(case, ok2) == [], self.oracle(case, ok2)
        # the real layer stack gets no excuse: a connect after the return, or anything remaining, is a failure
        rc = {"real": {"hold": ["request"], "steps": []}}
        good = {"real": True, "returned": True, "trace": [["hook", "request", 0], ["open_connection", "example.com", 0]],
                "at_return": {"transports": 0, "open": 0}, "at_end": {"transports": 0, "open": 0}}
        assert self.oracle(rc, good) == []
        assert self.oracle(rc, dict(good, trace=[["open_connection", "example.com", 1]])), "late open by real layers not flagged"
        assert self.oracle(rc, dict(good, at_return={"transports": 1, "open": 0})), "real layers: entry at return not flagged"
        assert self.oracle(rc, dict(good, at_end={"transports": 0, "open": 1})), "real layers: socket at the end not flagged"
        assert self.oracle(rc, dict(good, returned=False)), "real layers: no return not flagged"
        # a late open excuses exactly what it created
        lt = T + [["ev", "k0", "hookdone", "-"], ["cmd", "open", 7, "b"], ["tset", "k0", 7, 0], ["evend", "k0"]]
        assert self.oracle(case, obs(lt, at_return={"transports": ["7"], "open_writers": [], "pending_tasks": []})) == []
        assert self.oracle(case, obs(lt, at_return={"transports": ["7", "0"], "open_writers": [], "pending_tasks": []}))
        assert self.oracle(case, obs(lt, at_return={"transports": ["7"], "open_writers": ["s0.0"], "pending_tasks": []}))

    @staticmethod
    def _late_open(tr):
        seen = False
        for r in tr:
            if r[0] == "hookret" and r[1] == "H" and r[2] == "cd": seen = True
            elif seen and r[0] == "cmd" and r[1] == "open": return True
        return False

    # ---- model tie ----------------------------------------------------------------------------
    def model_lines(self, case):
        # the lines replay the REAL trace of this case (trace inclusion); _eval_case calls impl() right before
        if "real" in case: return None        # real-layer cases have no model counterpart (the layer is arbitrary in the model)
        return self._last["lines"]

    def model_obs(self, case, replies):
        stuck = next((i for i, r in enumerate(replies[:-1]) if r not in ("ok",) and len(r.split()) != 13), None)
        # entries, open writers, client entry, client writer, holders, #cc, #cd, late opens, then PER ADDRESS: queued waiters, slots taken
        qs = [[int(x) for x in (r.split()[:5] + r.split()[6:8] + r.split()[12:13])] +
              [[int(x) for x in r.split()[10].split(",")], [int(x) for x in r.split()[11].split(",")]]
              for r in replies[:-1] if len(r.split()) == 13]
        qc = replies[-1]
        per = [] if qc in ("-",) else [[int(x) for x in c.split(",")[:4]] for c in qc.split(";")] if "," in qc else qc
        return {"stuck_at": stuck, "snaps": qs, "attempts": per}

    def impl_view(self, case, obs):
        return {"stuck_at": None, "snaps": obs["snaps"], "attempts": obs["attempts"]}

    def describe(self, case, obs):
        if "real" in case: return {"case": case, "impl": {k: v for k, v in obs.items() if k != "trace"}}
        return {"case": case, "impl": {k: v for k, v in obs.items() if k not in ("trace", "lines", "snaps")}, "trace_len": len(obs["trace"])}

    def classify(self, case, obs):
        if "real" in case: return json.dumps(case, sort_keys=True)
        if any(r[0] == "hook" and r[2] == "sc" for r in obs["trace"]):
            return json.dumps(case, sort_keys=True)
        return None

    def branches(self, case, obs):
        if "real" in case:
            out = ["real-layers", "real-hold-" + case["real"]["hold"][0]]
            if any(r[0] == "hook" and r[2] == 1 for r in obs["trace"]): out.append("real-hook-after-return")
            if any(r[0] == "open_connection" for r in obs["trace"]): out.append("real-upstream-connect")
            return out
        tr = obs["trace"]; out = []
        kinds = {(r[0], r[2]) if r[0] in ("hook",) else (r[0],) for r in tr}
        for name, key in (("connected", ("hook", "sd")), ("connect-error", ("hook", "se")), ("sem-wait", ("semwait",)),
                          ("sem-cancel", ("semcancel",)), ("crash", ("crash",))):
            if key in kinds: out.append(name)
        for r in tr:
            if r[0] == "hookret" and r[3] == "cancel": out.append("cancel-in-hook-" + r[2])
            if r[0] == "connret" and r[2] == "cancel": out.append("cancel-in-connect")
            if r[0] == "readret" and r[2] == "cancel": out.append("cancel-in-read")
            if r[0] == "tdel" and r[1] == "?": out.append("released-by-callback")
        if self._late_open(tr): out.append("late-open")
        if any(r[0] == "env" and r[1] == "timeout" for r in tr): out.append("idle-timeout")
        if obs["max_open"] and max(obs["max_open"].values()) >= 5: out.append("five-open")
        return sorted(set(out))
