"""C09 engine: runs the REAL ConnectionHandler (proxy/server.py) on the virtual-time loop with recording in-memory
readers/writers, a recording semaphore/transports map, gated hooks and a patched asyncio.open_connection.
Produces a trace of records (lists) attributed to tasks.  Used by harness/c09.py (helper of property C09 only)."""
import asyncio, collections, logging
from dataclasses import dataclass
from common.vloop import installed
from mitmproxy import options as moptions
from mitmproxy.connection import Server, ConnectionState
from mitmproxy.proxy import server, mode_specs, layer, commands, events, server_hooks

ADDR = {"a": ("a.test", 80), "b": ("b.test", 81), "c": ("c.test", 82), "d": ("d.test", 83), "e": ("e.test", 84),
        "f": ("f.test", 85), "g": ("g.test", 86), "h": ("h.test", 87), "-": None}
HOOKN = {"client_connected": "cc", "client_disconnected": "cd", "server_connect": "sc", "server_connected": "sd",
         "server_connect_error": "se", "server_disconnected": "sx", "c09_custom": "hk"}


@dataclass
class C09CustomHook(commands.StartHook):
    data: object


class Env:
    """everything one run shares"""
    def __init__(self, case):
        self.case = case
        self.trace = []
        self.tasks = {}            # asyncio task -> label
        self.servers = {}          # index -> Server
        self.conn_label = {}       # Connection -> "c" | index
        self.attempt = collections.Counter()
        self.gates = []            # [label, hookname, future]
        self.pending_connect = {}  # task label -> future
        self.readers = {}          # conn label -> MemReader
        self.writers = {}          # conn label(attempt label for servers) -> MemWriter
        self.open_by_addr = collections.Counter()
        self.max_open = collections.Counter()
        self.crashes = 0
        self.hooknum = 0

    def me(self):
        t = asyncio.current_task()
        return self.tasks.get(t, "?")

    def rec(self, *r):
        self.trace.append(list(r))


class MemReader:
    def __init__(self, env, label):
        self.env, self.label, self.q, self.waiter = env, label, collections.deque(), None

    def feed(self, item):          # bytes | "eof" | "err"
        self.q.append(item)
        if self.waiter and not self.waiter.done(): self.waiter.set_result(None)

    async def read(self, n):
        env = self.env; me = env.me()
        env.rec("read", me)
        while not self.q:
            self.waiter = asyncio.get_running_loop().create_future()
            try:
                await self.waiter
            except asyncio.CancelledError:
                env.rec("readret", me, "cancel"); raise
            finally:
                self.waiter = None
        item = self.q[0]
        if item == "eof":
            env.rec("readret", me, "eof"); return b""
        self.q.popleft()
        if item == "err":
            env.rec("readret", me, "err"); raise OSError("reset")
        env.rec("readret", me, "data"); return item


class MemWriter:
    def __init__(self, env, label, addr, peer, sock):
        self.env, self.label, self.addr, self.peer, self.sock = env, label, addr, peer, sock
        self.closing = False
        self.drain_fail = 0
        self.drain_gate = None     # future: drain blocks until released
        self.eof_fail = False
        if addr is not None:
            env.open_by_addr[addr] += 1
            env.max_open[addr] = max(env.max_open[addr], env.open_by_addr[addr])

    def get_extra_info(self, name, default=None):
        return {"peername": self.peer, "sockname": self.sock}.get(name, default)

    def write(self, data): self.env.rec("send", self.label)
    def is_closing(self): return self.closing

    def close(self):
        if not self.closing:
            self.env.rec("wclose", self.env.me(), self.label)
            if self.addr is not None: self.env.open_by_addr[self.addr] -= 1
        self.closing = True

    def write_eof(self):
        if self.eof_fail:
            self.env.rec("weof", self.label, "err"); raise OSError("broken pipe")
        self.env.rec("weof", self.label, "ok")

    async def drain(self):
        env = self.env; me = env.me()
        if self.drain_gate is not None:
            env.rec("drainblock", me, self.label)
            try:
                await self.drain_gate
            except asyncio.CancelledError:
                env.rec("drainret", me, self.label, "cancel"); raise
        if self.drain_fail:
            self.drain_fail -= 1
            env.rec("drainret", me, self.label, "err"); raise OSError("broken pipe")

    async def wait_closed(self): pass


class RecTask(asyncio.Task):
    """records cancellation requests (Task.cancel) — nothing else is changed"""
    env = None

    def cancel(self, msg=None):
        env = RecTask.env
        if env is not None and not self.done():
            env.rec("creq", env.tasks.get(self, "?"))
        return super().cancel(msg)


class RecSemaphore(asyncio.Semaphore):
    def __init__(self, env, addr, value):
        super().__init__(value); self.env, self.addr = env, addr

    async def acquire(self):
        env = self.env; me = env.me()
        if self.locked(): env.rec("semwait", me)
        try:
            r = await super().acquire()
        except asyncio.CancelledError:
            env.rec("semcancel", me); raise
        env.rec("semacq", me)
        return r

    def release(self):
        self.env.rec("semrel", self.env.me())
        super().release()


class RecDict(dict):
    def __init__(self, env, d):
        super().__init__(d); self.env = env
    def _l(self, k): return self.env.conn_label.get(k, "?")
    def __setitem__(self, k, v):
        self.env.rec("tset", self.env.me(), self._l(k), 1 if v.writer is not None else 0)
        super().__setitem__(k, v)
    def __delitem__(self, k):
        super().__delitem__(k)
        self.env.rec("tdel", self.env.me(), self._l(k))
    def pop(self, k, *d):
        had = k in self
        r = super().pop(k, *d)
        if had: self.env.rec("tdel", self.env.me(), self._l(k))
        return r


class ScriptLayer(layer.Layer):
    """A layer whose commands are dictated by the case: client/server data carries an op string; other events are
    answered from case['react'].  handle_event is overridden: several OpenConnections may be outstanding (as with HTTP/2
    streams in the real stack)."""
    def __init__(self, context, env):
        super().__init__(context); self.env = env

    def _handle_event(self, event):
        yield from ()

    def _server(self, i, addr):
        env = self.env
        if i not in env.servers:
            s = Server(address=ADDR[addr])
            env.servers[i] = s; env.conn_label[s] = i
        if env.servers[i] not in env.handler.transports:
            env.servers[i].address = ADDR[addr]  # a layer may re-target a closed Server object before reopening it
        return env.servers[i]

    def _conn(self, c):
        return self.context.client if c == "c" else self.env.servers.get(int(c))

    def handle_event(self, event):
        env = self.env; react = env.case.get("react", {})
        me = env.me()
        if isinstance(event, events.Start): kind, cl, ops = "start", "-", react.get("start", "")
        elif isinstance(event, events.DataReceived):
            kind, cl = "data", env.conn_label.get(event.connection, "?")
            try: ops = event.data.decode().replace("$", str(cl))
            except Exception: ops = ""
        elif isinstance(event, events.ConnectionClosed):
            cl = env.conn_label.get(event.connection, "?"); kind = "closed"
            ops = react.get("closed_c" if cl == "c" else "closed_s", "").replace("$", str(cl))
        elif isinstance(event, events.OpenConnectionCompleted):
            cl = env.conn_label.get(event.command.connection, "?")
            kind = "completed_err" if event.reply else "completed_ok"
            ops = react.get(kind, "").replace("$", str(cl))
        elif isinstance(event, events.HookCompleted):
            kind, cl, ops = "hookdone", "-", react.get("hookdone", "")
        else:
            kind, cl, ops = "other", "-", ""
        env.rec("ev", me, kind, cl)
        for op in [o for o in ops.split(";") if o]:
            k, arg = op[0], op[1:]
            if k == "O":
                s = self._server(int(arg[:-1]), arg[-1])
                cmd = commands.OpenConnection(s); cmd.blocking = self
                actual = next(k for k, v in ADDR.items() if v == s.address)
                env.rec("cmd", "open", int(arg[:-1]), actual); yield cmd
            elif k in "CHS":
                c = self._conn(arg)
                if c is None: continue
                lab = "c" if arg == "c" else int(arg)
                if k == "C": env.rec("cmd", "close", lab); yield commands.CloseConnection(c)
                elif k == "H": env.rec("cmd", "half", lab); yield commands.CloseTcpConnection(c, half_close=True)
                else: env.rec("cmd", "send", lab); yield commands.SendData(c, b"x")
            elif k == "X":
                h = C09CustomHook(object()); h.name = "c09_custom"
                h.blocking = self if arg != "n" else False
                env.rec("cmd", "hook", 1 if h.blocking else 0); yield h
        env.rec("evend", me)


class Addons:
    """stands in for master.addons: a hook handler that takes as long as the script says and kills what it says"""
    def __init__(self, env): self.env = env

    async def handle_lifecycle(self, hook):
        env = self.env; me = env.me()
        name = HOOKN.get(hook.name, hook.name)
        (data,) = hook.args()
        if name in ("cc", "cd"): cl = "c"
        elif name == "hk": cl = "-"
        else: cl = env.conn_label.get(data.server, "?")
        slow = env.case.get("slow", [])
        if name in slow or f"{name}:{cl}" in slow or "*" in slow:
            fut = asyncio.get_running_loop().create_future()
            env.gates.append([me, name, fut])
            await fut
        if name == "cc" and env.case.get("kill_client"):
            data.error = "killed"
        if name == "sc" and cl in env.case.get("kill_server", []):
            data.server.error = "killed"
        if name == "sc":
            # an addon redirects the connection: data.server.address is rewritten in the server_connect hook
            rw = env.case.get("rewrite", {})
            to = rw.get(str(cl), rw.get("*"))
            if to is not None and ADDR.get(to) is not None:
                data.server.address = ADDR[to]


class Master:
    def __init__(self, env): self.addons = Addons(env)


def make_handler_class(base):
    class RecHandler(base):
        env: Env

        async def handle_hook(self, hook):
            # the production handle_hook (ProxyConnectionHandler: disarm the idle watchdog, run the addons) with the
            # addon manager replaced by Addons below; recorded: the hook fires / returns / is cancelled
            env = self.env; me = env.me()
            name = HOOKN.get(hook.name, hook.name)
            (data,) = hook.args()
            if name in ("cc", "cd"): cl = "c"
            elif name == "hk": cl = "-"
            else: cl = env.conn_label.get(data.server, "?")
            env.rec("hook", me, name, cl)
            try:
                await super().handle_hook(hook)
            except asyncio.CancelledError:
                env.rec("hookret", me, name, "cancel", 0); raise
            kill = 0
            if name == "sc":
                # the address the connection will be dialled at, as the hook left it
                now = next((k for k, v in ADDR.items() if v == data.server.address), "?")
                env.rec("dial", me, now)
            if name == "cc" and self.client.error: kill = 1
            if name == "sc" and data.server.error:     # open_connection's test: also an error left by an earlier attempt
                kill = 1
            env.rec("hookret", me, name, "ok", kill)

        async def open_connection(self, command):
            env = self.env
            cl = env.conn_label.get(command.connection, "?")
            me = env.tasks[asyncio.current_task()] = f"s{cl}.{env.attempt[cl]}"
            env.attempt[cl] += 1
            env.rec("start", me, cl)
            try:
                await super().open_connection(command)
            except asyncio.CancelledError:
                env.rec("end", me, "cancel"); raise
            except BaseException as e:
                env.rec("end", me, "exc:" + type(e).__name__); raise
            else:
                env.rec("end", me, "ok")

        async def handle_connection(self, connection):
            env = self.env
            if connection is self.client:
                me = env.tasks[asyncio.current_task()] = "C"
                env.rec("start", me, "c")
                try:
                    await super().handle_connection(connection)
                except asyncio.CancelledError:
                    env.rec("end", me, "cancel"); raise
                except BaseException as e:
                    env.rec("end", me, "exc:" + type(e).__name__); raise
                else:
                    env.rec("end", me, "ok")
            else:
                await super().handle_connection(connection)

        def release_transport(self, connection, handler):
            # observed, not altered: which done-callback (or finally block) runs, for which task
            env = self.env
            env.rec("rel", env.me(), env.conn_label.get(connection, "?"), env.tasks.get(handler, ""))
            return super().release_transport(connection, handler)

        async def hook_task(self, hook):
            env = self.env
            me = env.tasks[asyncio.current_task()] = f"k{env.attempt['k']}"
            env.attempt["k"] += 1
            env.rec("start", me, "-")
            try:
                await super().hook_task(hook)
            finally:
                env.rec("end", me, "ok")

        def log(self, message, level=logging.INFO, exc_info=None):
            if "crashed" in message:
                self.env.crashes += 1
                self.env.rec("crash", self.env.me())
    return RecHandler


_OPTS = None


def make_opts(timeout):
    from mitmproxy.addons.proxyserver import Proxyserver
    o = moptions.Options(); Proxyserver().load(o)
    o.tcp_timeout = timeout
    return o


def sem_size():
    """the real per-address semaphore size, read off a real handler object"""
    with installed():
        w = MemWriter(Env({}), "c", None, ("192.0.2.1", 5), ("127.0.0.1", 8080))
        h = server.SimpleConnectionHandler(None, w, make_opts(60), mode_specs.ProxyMode.parse("regular"), {})
        return h.max_conns[("probe", 1)]._value


def run(case):
    """returns {"trace": [...], "returned": bool, "final": {...}}"""
    env = Env(case)
    timeout = case.get("timeout", 50)
    with installed() as loop:
        RecTask.env = env
        loop.set_task_factory(lambda lp, coro, **kw: RecTask(coro, loop=lp, **kw))
        creader = MemReader(env, "c")
        cwriter = MemWriter(env, "c", None, ("192.0.2.1", 51234), ("127.0.0.1", 8080))
        env.readers["c"] = creader; env.writers["c"] = cwriter
        from mitmproxy.proxy import mode_servers
        H = make_handler_class(mode_servers.ProxyConnectionHandler)
        h = H(Master(env), creader, cwriter, make_opts(timeout), mode_specs.ProxyMode.parse("regular"))
        h.env = env; env.handler = h
        env.conn_label[h.client] = "c"
        size = h.max_conns[("probe", 1)]._value
        h.max_conns = collections.defaultdict()
        class _DD(collections.defaultdict):
            def __missing__(s, addr):
                s[addr] = RecSemaphore(env, addr, size); return s[addr]
        h.max_conns = _DD()
        h.transports = RecDict(env, h.transports)
        h.layer = ScriptLayer(h.layer.context, env)

        async def fake_open(host, port, local_addr=None, **kw):
            me = env.me()
            env.rec("conn", me)
            fut = loop.create_future(); env.pending_connect[me] = fut
            try:
                ok = await fut
            except asyncio.CancelledError:
                env.rec("connret", me, "cancel"); raise
            finally:
                env.pending_connect.pop(me, None)
            if not ok:
                env.rec("connret", me, "err"); raise OSError("refused")
            cl = me[1:].split(".")[0]
            r = MemReader(env, me)
            w = MemWriter(env, me, (host, port), (host, port), ("127.0.0.1", 50000))
            env.readers[me] = r; env.writers[me] = w
            env.rec("connret", me, "ok")
            return r, w

        async def main():
            env.tasks[asyncio.current_task()] = "H"
            env.rec("start", "H", "c")
            await h.handle_client()
            env.rec("end", "H", "ok")
            env.at_return = {
                "transports": sorted(str(env.conn_label.get(k, "?")) for k in h.transports),
                "open_writers": sorted(l for l, w in env.writers.items() if not w.closing),
                "pending_tasks": sorted(l for t, l in env.tasks.items() if not t.done() and l[0] in "sC"),
            }

        orig = asyncio.open_connection
        asyncio.open_connection = fake_open
        try:
            task = loop.create_task(main()); loop.pump()

            def cur(i):     # label of the latest attempt for server index i
                n = env.attempt[i]
                return f"s{i}.{n - 1}" if n else None

            def do(step):
                k = step[0]
                if k == "cli": creader.feed(step[1].encode())
                elif k == "ceof": creader.feed("eof")
                elif k == "cerr": creader.feed("err")
                elif k == "conn":
                    lab = step[1] if isinstance(step[1], str) else cur(step[1])
                    f = env.pending_connect.get(lab)
                    if f and not f.done(): f.set_result(step[2] == "ok")
                elif k == "hook":       # release the n-th pending gate
                    pend = [g for g in env.gates if not g[2].done()]
                    if pend: pend[step[1] % len(pend)][2].set_result(None)
                elif k in ("sdata", "seof", "serr"):
                    lab = step[1] if isinstance(step[1], str) else cur(step[1])
                    r = env.readers.get(lab)
                    if r: r.feed(step[2].encode() if (k == "sdata" and step[2]) else ("eof" if k == "sdata" else k[1:]))
                elif k == "drainfail":
                    lab = step[1] if isinstance(step[1], str) else cur(step[1])
                    w = env.writers.get(lab)
                    if w: w.drain_fail += 1
                elif k == "eoffail":
                    lab = step[1] if isinstance(step[1], str) else cur(step[1])
                    w = env.writers.get(lab)
                    if w: w.eof_fail = True
                elif k == "tick": loop.advance(step[1])
                elif k == "cancel":     # cancellation injected at the await the task is currently suspended in
                    for t, lab in list(env.tasks.items()):
                        if lab == step[1] and not t.done(): t.cancel("injected")
                loop.pump()

            def snap():
                env.rec("snap", sum(1 for k in h.transports if k is not h.client),
                        sum(1 for l, w in env.writers.items() if l != "c" and not w.closing),
                        1 if h.client in h.transports else 0, 0 if cwriter.closing else 1,
                        sum(size - sem._value for sem in h.max_conns.values()),
                        sum(len(sem._waiters or ()) for sem in h.max_conns.values()),
                        # per DIALLED address (the defaultdict's key), in the order of ADDR: slots taken, tasks queued
                        [size - h.max_conns[a]._value if a in h.max_conns else 0 for k, a in ADDR.items() if a is not None],
                        [len(h.max_conns[a]._waiters or ()) if a in h.max_conns else 0 for k, a in ADDR.items() if a is not None])

            for step in case["steps"]:
                if task.done(): break
                snap()
                env.rec("env", *step)
                do(step)
            # wind down: client goes away, everything pending completes, then the idle timeout
            if not task.done():
                env.rec("env", "winddown")
                if not (creader.q and creader.q[-1] == "eof"): creader.feed("eof"); loop.pump()
                for _ in range(200):
                    if task.done(): break
                    pend = [g for g in env.gates if not g[2].done()]
                    pc = [f for f in env.pending_connect.values() if not f.done()]
                    if pend: pend[0][2].set_result(None)
                    elif pc: pc[0].set_result(False)
                    else: break
                    loop.pump()
            if not task.done():
                env.rec("env", "timeout")
                loop.advance(timeout + 1); loop.pump()
                for _ in range(200):
                    if task.done(): break
                    pend = [g for g in env.gates if not g[2].done()]
                    pc = [f for f in env.pending_connect.values() if not f.done()]
                    if pend: pend[0][2].set_result(None)
                    elif pc: pc[0].set_result(False)
                    else: break
                    loop.pump()
            snap()
            returned = task.done()
            exc = None
            if returned and not task.cancelled() and task.exception():
                exc = type(task.exception()).__name__
            at_return = getattr(env, "at_return", None)
            return {"trace": env.trace, "returned": returned, "exc": exc, "at_return": at_return,
                    "max_open": {f"{a[0]}:{a[1]}": n for a, n in env.max_open.items()}, "size": size,
                    "crashes": env.crashes}
        finally:
            asyncio.open_connection = orig


# ---- the REAL layer stack (NextLayer -> HttpLayer, regular mode) with hooks held across a client disconnect ---------------
def run_real_layers(case):
    """case["real"] = {"hold": [hook names held until released], "steps": [...]}.  Steps: ["cli", text] client bytes, ["ceof"],
    ["conn", "ok"|"refuse"] complete the oldest pending upstream connect, ["srv", text] upstream bytes, ["seof"], ["release", name],
    ["tick", seconds].  After the script: every held hook is released, 100 s pass.  Observed: hooks, every asyncio.open_connection
    call with whether handle_client had already returned, transports / open sockets at return and at the end."""
    from mitmproxy.proxy import layers
    from mitmproxy.proxy.layers.http import HTTPMode
    spec = case["real"]
    with installed() as loop:
        tr, gates, opened, pending = [], {}, [], collections.deque()
        returned = [False]

        class W:
            def __init__(s, lab): s.lab, s.closing = lab, False
            def get_extra_info(s, n, d=None): return {"peername": ("192.0.2.1", 5), "sockname": ("127.0.0.1", 8080)}.get(n, d)
            def write(s, d): tr.append(["send", s.lab, len(d)])
            def is_closing(s): return s.closing
            def close(s):
                if not s.closing: tr.append(["wclose", s.lab])
                s.closing = True
            def write_eof(s): pass
            async def drain(s): pass

        class H(server.LiveConnectionHandler):
            async def handle_hook(self, hook):
                tr.append(["hook", hook.name, 1 if returned[0] else 0])
                if hook.name == "next_layer":
                    (nl,) = hook.args(); nl.layer = layers.HttpLayer(nl.context, HTTPMode.regular)
                if hook.name in spec.get("hold", []):
                    f = loop.create_future(); gates.setdefault(hook.name, []).append(f); await f

        async def fake_open(host, port, **kw):
            tr.append(["open_connection", host, 1 if returned[0] else 0])
            fut = loop.create_future(); pending.append(fut)
            ok = await fut
            if not ok: raise OSError("refused")
            r = asyncio.StreamReader(); w = W(f"srv{len(opened)}"); opened.append((r, w)); return r, w

        def next_connect(ok):
            while pending:
                f = pending.popleft()
                if not f.done(): f.set_result(ok); return True
            return False

        orig = asyncio.open_connection; asyncio.open_connection = fake_open
        try:
            cr = asyncio.StreamReader(); cw = W("client")
            h = H(cr, cw, make_opts(50), mode_specs.ProxyMode.parse("regular"))
            at_return = {}

            async def main():
                await h.handle_client()
                returned[0] = True
                at_return.update(transports=len(h.transports), open=sum(1 for r, w in opened if not w.closing) + (0 if cw.closing else 1))
            t = loop.create_task(main()); loop.pump()
            for st in spec["steps"]:
                k = st[0]
                if k == "cli" and not cr.at_eof(): cr.feed_data(st[1].encode())
                elif k == "ceof" and not cr.at_eof(): cr.feed_eof()
                elif k == "conn": next_connect(st[1] == "ok")
                elif k == "srv" and opened and not opened[-1][0].at_eof(): opened[-1][0].feed_data(st[1].encode())
                elif k == "seof" and opened and not opened[-1][0].at_eof(): opened[-1][0].feed_eof()
                elif k == "release":
                    for f in gates.get(st[1], []):
                        if not f.done(): f.set_result(None)
                elif k == "tick": loop.advance(st[1])
                loop.pump()
            if not cr.at_eof(): cr.feed_eof(); loop.pump()
            for _ in range(20):      # let everything pending fail / finish, then release what is still held
                if not next_connect(False):
                    fs = [f for l in gates.values() for f in l if not f.done()]
                    if not fs: break
                    fs[0].set_result(None)
                loop.pump()
            loop.advance(100); loop.pump()
            for _ in range(20):
                fs = [f for l in gates.values() for f in l if not f.done()]
                if next_connect(False): pass
                elif fs: fs[0].set_result(None)
                else: break
                loop.pump()
            return {"real": True, "trace": tr, "returned": returned[0], "at_return": at_return,
                    "at_end": {"transports": len(h.transports), "open": sum(1 for r, w in opened if not w.closing) + (0 if cw.closing else 1)}}
        finally:
            asyncio.open_connection = orig
