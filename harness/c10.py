"""C10 — idle connections time out, but never while a hook is pending (proxy/server.py TimeoutWatchdog,
proxy/mode_servers.py ProxyConnectionHandler.handle_hook)."""
import asyncio, itertools
from common.check import PropertyCheck
from common.vloop import installed
from mitmproxy import options as moptions
from mitmproxy.proxy import server, mode_servers, mode_specs, events, commands, layer


class _Writer:
    def get_extra_info(self, name, default=None):
        return {"peername": ("192.0.2.1", 5555), "sockname": ("127.0.0.1", 8080)}.get(name, default)
    def is_closing(self): return False
    def close(self): pass


class _QuietLayer(layer.Layer):
    def _handle_event(self, event):
        return
        yield


from dataclasses import dataclass


@dataclass
class _Hook(commands.StartHook):
    data: object


class _Addons:
    """stands in for master.addons: a hook handler that takes as long as the schedule says"""
    def __init__(self): self.gates = []
    async def handle_lifecycle(self, hook):
        ev = asyncio.Event(); self.gates.append(ev)
        await ev.wait()


class _Master:
    def __init__(self): self.addons = _Addons()


class Check(PropertyCheck):
    prop = "C10"
    design_ref = "§5 C10"
    level_text = ("Lean theorems (never_fires_while_blocked[_reach], active_not_closed, idle_closes, "
                  "restart_after_last_hook, reachable_good; the history-level specification exec_hist + closed_iff_idle_prefix: the "
                  "connection is closed exactly when some prefix of the history has no hook pending and >= timeout ticks since the "
                  "last activity or last-hook completion; not_closed_while_never_idle) about a program-counter model of TimeoutWatchdog for EVERY "
                  "schedule of activity, nested/overlapping hooks and clock advances (induction over the schedule, "
                  "unbounded clock); the model is tied to the real TimeoutWatchdog and to the real "
                  "ProxyConnectionHandler.handle_hook/server_event running on a virtual-time asyncio loop, step by step.")
    level_note = ("trusted: Lean kernel; discretisation of the clock to integer ticks (timer wake-ups are strictly after "
                  "their deadline, as on a real loop); asyncio's Event/sleep semantics are exercised, not modelled; the "
                  "tie is differential (exhaustive short schedules + random long ones); what is compared step by step is the closed / not-closed bit "
                  "(the pending-hook count on the implementation side is the harness's own count of open hooks, not TimeoutWatchdog.blocker, so a wrong "
                  "count shows as firing while a hook is pending / not firing after the last exit); every theorem assumes a positive timeout (the "
                  "generator uses 1..6; tcp_timeout = 0 is outside theorems and tie); the handler-level run uses a non-Flow hook argument, so "
                  "`await data.wait_for_resume()` inside disarm() is executed by C11's runs, not here.")
    technique = "Lean 4 proof (invariant over schedules) + virtual-time correspondence with the real watchdog/handler"
    rule = ("schedules over {activity, hook-enter, hook-exit (normal or by cancellation/exception), tick d}: all well-nested schedules up to length L on a "
            "small clock, then random schedules of length <= 40, each run at two levels (bare TimeoutWatchdog; "
            "ProxyConnectionHandler with real handle_hook tasks). distinct = distinct (level, timeout, ops); "
            "non-trivial = contains at least one hook and one tick.")
    budget = {"quick": 6000, "thorough": 150000}
    time_budget = {"quick": 40, "thorough": 600}
    fingerprints = ["mitmproxy.proxy.server:TimeoutWatchdog.watch", "mitmproxy.proxy.server:TimeoutWatchdog.disarm",
                    "mitmproxy.proxy.server:TimeoutWatchdog.register_activity",
                    "mitmproxy.proxy.mode_servers:ProxyConnectionHandler.handle_hook",
                    "mitmproxy.proxy.server:ConnectionHandler.server_event",
                    "mitmproxy.proxy.server:ConnectionHandler.on_timeout"]
    trusted_base = ["asyncio Event/sleep/Task semantics (exercised on a virtual clock, not modelled)"]
    parallel = True

    # ---- generation ---------------------------------------------------------------------------
    @staticmethod
    def _wellformed(ops):
        depth = 0
        for o in ops:
            if o == "e": depth += 1
            elif o in ("x", "y", "xc", "yc"):
                if depth == 0: return False
                depth -= 1
        return True

    def _small(self, L, timeout):
        # "x" completes the most recently started pending hook, "y" the oldest one (overlapping, not nested)
        # "xc"/"yc": the same hook ends by an exception (its task is cancelled / CancelledError leaves the with-block)
        alphabet = ["a", "e", "x", "y", "xc", ["t", 1], ["t", 2], ["t", timeout]]
        for n in range(1, L + 1):
            for ops in itertools.product(alphabet, repeat=n):
                if self._wellformed(ops):
                    yield list(ops)

    def generate(self, rng, tier):
        L = 5 if tier == "quick" else 6
        for ops in self._small(L, 3):
            yield {"level": "watchdog", "timeout": 3, "ops": ops}
        for ops in self._small(4 if tier == "quick" else 5, 2):
            yield {"level": "handler", "timeout": 2, "ops": ops}
        while True:
            timeout = rng.randint(1, 6)
            n = rng.randint(3, 40); ops, depth = [], 0
            for _ in range(n):
                r = rng.random()
                if r < 0.2: ops.append("a")
                elif r < 0.4: ops.append("e"); depth += 1
                elif r < 0.6 and depth: ops.append(rng.choice(["x", "y", "x", "y", "xc", "yc"])); depth -= 1
                else: ops.append(["t", rng.choice([1, 1, 2, timeout - 1 or 1, timeout, timeout + 1])])
            yield {"level": rng.choice(["watchdog", "handler"]), "timeout": timeout, "ops": ops}

    # ---- implementation -----------------------------------------------------------------------
    def impl(self, case):
        return self._run_watchdog(case) if case["level"] == "watchdog" else self._run_handler(case)

    def _run_watchdog(self, case):
        with installed() as loop:
            fired = []
            pend = [0]          # hooks pending, counted by the harness itself (no reliance on watchdog internals)
            async def cb():
                fired.append((loop.ticks(), pend[0]))
            w = server.TimeoutWatchdog(case["timeout"], cb)
            task = loop.create_task(w.watch()); loop.pump()
            cms, out = [], []
            for op in case["ops"]:
                if op == "a": w.register_activity()
                elif op == "e":
                    cm = w.disarm(); cm.__enter__(); cms.append(cm); pend[0] += 1
                elif op == "x": cms.pop().__exit__(None, None, None); pend[0] -= 1
                elif op == "y": cms.pop(0).__exit__(None, None, None); pend[0] -= 1
                elif op in ("xc", "yc"):
                    # the hook's task is cancelled: CancelledError travels through the with-block
                    e = asyncio.CancelledError()
                    try: (cms.pop() if op == "xc" else cms.pop(0)).__exit__(asyncio.CancelledError, e, None)
                    except asyncio.CancelledError: pass
                    pend[0] -= 1
                else: loop.advance(op[1])
                loop.pump()
                out.append([1 if fired else 0, pend[0], loop.ticks()])
            task.cancel(); loop.pump()
            return {"steps": out, "fired": fired[:1]}

    def _run_handler(self, case):
        """same schedule through ProxyConnectionHandler: 'a' = server_event, 'e'/'x' = a real handle_hook task
        starting / its addon handler returning; the timeout callback is the real on_timeout (cancels the client handler)"""
        with installed() as loop:
            opts = moptions.Options()
            from mitmproxy.addons.proxyserver import Proxyserver
            Proxyserver().load(opts)
            opts.tcp_timeout = case["timeout"]
            master = _Master()
            h = mode_servers.ProxyConnectionHandler(master, None, _Writer(), opts, mode_specs.ProxyMode.parse("regular"))
            h.layer = _QuietLayer(h.layer.context)
            fired = []
            pend = [0]
            closing = []        # set while the harness itself tears the scenario down

            async def client_handler():
                try:
                    await asyncio.Event().wait()
                except asyncio.CancelledError:
                    if not closing: fired.append((loop.ticks(), pend[0]))
                    raise
            ch = loop.create_task(client_handler())
            h.transports[h.client].handler = ch
            h.timeout_watchdog.register_activity()
            wt = loop.create_task(h.timeout_watchdog.watch()); loop.pump()
            tasks, out, live = [], [], []
            for op in case["ops"]:
                if op == "a":
                    loop.create_task(h.server_event(events.Start()))
                elif op == "e":
                    tasks.append(loop.create_task(h.handle_hook(_Hook(object())))); pend[0] += 1
                    loop.pump()
                    live.append((tasks[-1], master.addons.gates[-1]))
                elif op in ("x", "y"):
                    # complete the most recently started ("x") or the oldest ("y") still pending hook
                    t_, gate = live.pop(-1 if op == "x" else 0)
                    gate.set(); pend[0] -= 1
                elif op in ("xc", "yc"):
                    # the hook task is cancelled while its addon handler is running
                    t_, gate = live.pop(-1 if op == "xc" else 0)
                    t_.cancel(); pend[0] -= 1
                else: loop.advance(op[1])
                loop.pump()
                out.append([1 if fired else 0, pend[0], loop.ticks()])
            closing.append(1)
            for t in tasks + [wt, ch]: t.cancel()
            loop.pump()
            return {"steps": out, "fired": fired[:1]}

    # ---- oracle: the property sentences on the implementation ---------------------------------
    def oracle(self, case, obs):
        fails = []
        T = case["timeout"]
        now, last, depth, was_fired = 0, 0, 0, False
        # "While any hook for the connection is being handled … the connection is never closed for inactivity"
        if obs["fired"] and obs["fired"][0][1] != 0:
            fails.append(f"closed for inactivity at tick {obs['fired'][0][0]} while {obs['fired'][0][1]} hook(s) pending")
        for op, (f, blocker, ticks) in zip(case["ops"], obs["steps"]):
            if op == "a": last = now
            elif op == "e": depth += 1
            elif op in ("x", "y", "xc", "yc"):
                # a hook whose handling ended by an exception is no longer "being handled" either
                depth -= 1
                if depth == 0: last = now   # "the idle period restarts when the last pending hook completes"
            else: now += op[1]
            if f and not was_fired:
                # "a connection with activity within the timeout is not [closed]"
                if now - last < T:
                    fails.append(f"closed at tick {now} although last activity/hook completion was at {last} (timeout {T})")
                if depth != 0:
                    fails.append(f"closed at tick {now} with {depth} hook(s) pending")
            # "A client connection with no activity for the configured timeout is closed"
            if not f and depth == 0 and now - last >= T:
                fails.append(f"not closed at tick {now}: idle since {last}, timeout {T}, no hook pending")
            was_fired = was_fired or bool(f)
            if was_fired: break
        return fails

    # ---- model tie ----------------------------------------------------------------------------
    def model_lines(self, case):
        lines = [f"reset {case['timeout']}"]
        for op in case["ops"]:
            lines.append(("x" if op in ("y", "xc", "yc") else op) if isinstance(op, str) else f"t {op[1]}")   # the model counts hooks: which one ends is immaterial
        return lines

    def model_obs(self, case, replies):
        out = []
        for r in replies[1:]:
            f, b = r.split()
            out.append([int(f), int(b)])
            if int(f): break          # after the connection is closed nothing is compared
        return out

    def impl_view(self, case, obs):
        out = []
        for f, b, _ in obs["steps"]:
            out.append([f, b])
            if f: break
        return out

    def classify(self, case, obs):
        flat = [o if isinstance(o, str) else "t" for o in case["ops"]]
        if "e" in flat and "t" in flat:
            return (case["level"], case["timeout"], str(case["ops"]))
        return None

    def branches(self, case, obs):
        out = [case["level"], "fired" if obs["fired"] else "not-fired"]
        if any(s[1] >= 2 for s in obs["steps"]): out.append("nested-hooks")
        return out

    def neighbours(self, case, rng):
        ops = case["ops"]
        for i in range(len(ops) + 1):
            for ins in ("a", "e", ["t", 1], ["t", case["timeout"]]):
                new = ops[:i] + [ins] + ops[i:]
                if self._wellformed(new):
                    for lvl in ("watchdog", "handler"):
                        yield {"level": lvl, "timeout": case["timeout"], "ops": new}

    def exhaustive(self, tier):
        for lvl in ("watchdog", "handler"):
            for ops in self._small(6, 3):
                yield {"level": lvl, "timeout": 3, "ops": ops}
