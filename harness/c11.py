"""C11 — intercepted flows are held until resumed, killed flows are never forwarded
(mitmproxy/flow.py intercept/resume/kill/wait_for_resume, addons/intercept.py, proxy/mode_servers.py handle_hook,
the "send after hook" step of the http / tcp / udp / websocket / dns layers).

Two levels:
* `world`: a message of one of six kinds (HTTP/1 request or response, HTTP/2 request or response with a sibling
  stream, WebSocket, TCP, UDP, DNS query or answer) is intercepted in its hook (the hook completion is withheld,
  exactly what handle_hook does while wait_for_resume blocks); while it is held the peers keep talking (later
  messages of the same flow, the reverse direction, a sibling HTTP/2 stream, a close); then the user resumes,
  edits and resumes, or kills.  Observed: what reached the destination while held / afterwards (payload markers),
  flow.error / flow.live, sibling progress.
* `async`: the real ProxyConnectionHandler.handle_hook + Flow.intercept/resume/kill/wait_for_resume on the
  virtual-time loop, with the real Intercept addon deciding; observed: which hook tasks have completed after
  every step, and whether the idle watchdog is armed.
"""
import asyncio, itertools, json
from dataclasses import dataclass
from common.check import PropertyCheck, Skip
from common.world import World, make_context
from common.vloop import installed
from mitmproxy import flow as mflow, http as mhttp, options as moptions
from mitmproxy.connection import Server, ConnectionState
from mitmproxy.proxy import commands, events, layer as mlayer, mode_servers, mode_specs
from mitmproxy.proxy.layers import http as lhttp, tcp as ltcp, udp as ludp, dns as ldns
from mitmproxy.proxy.layers.http import HTTPMode
from mitmproxy.test import tflow

PROTOS = ("http1_req", "http1_resp", "http2_req", "http2_resp", "ws_c2s", "ws_s2c", "tcp_c2s", "tcp_s2c",
          "udp_c2s", "udp_s2c", "dns_req", "dns_resp")
ACTIONS = ("resume", "edit", "kill")
EDIT_MODES = ("inplace", "replace", "copy_assign", "set_state", "revert")
BETWEEN = ("next", "reverse", "sibling", "close")
# which layers consult flow.error/kill in their "send after hook" step (everything else forwards regardless)
HONOURS_KILL = {"http1_req", "http1_resp", "http2_req", "http2_resp", "dns_req"}

A, B, C, D, R = b"MSGAAAA", b"MSGBBBB", b"MSGCCCC", b"MSGDDDD", b"MSGRRRR"   # first, edited, next, after-kill, reverse


class Scn:
    """one protocol scenario on the world; `target(hook)` recognises the hook of the message carrying marker A"""
    dest = "server0"           # label of the destination of the intercepted message
    hookname = ""
    kind = ""

    def __init__(self, case):
        self.case = case
        self.deferred_target = None
        self.hook_log = []      # (hook name, marker or None) in execution order

    def on_hook(self, w, h):
        m = self.marker_of(h)
        if h.name == self.hookname: self.hook_log.append(m)
        if h.name == self.hookname and m == A and self.deferred_target is None:
            self.deferred_target = h
            return "defer"
        return None

    def on_connect(self, w, cmd):
        return None

    def sent(self, label):
        return bytes(self.w.sent.get(label, b""))

    def dest_count(self, marker):
        return self.decoded(self.dest).count(marker)

    def decoded(self, label):
        return self.sent(label)

    # to implement: setup, send(marker), reverse(), marker_of(hook), flow(), and the message primitives
    #   _get() / _set(obj): the held message object of the flow;  _put(obj, marker): in-place content edit;
    #   _fresh(obj, marker): a NEW message object with that content;  _state_put(state, marker): edit a flow state
    def sibling(self):
        return None

    def edit(self, marker, how="inplace"):
        """the user edits the held message so that the flow holds `marker` — except `revert`, which edits and then
        takes the edit back (the flow then holds the original again, in a fresh object)"""
        f = self.flow()
        if how == "inplace":
            self._put(self._get(), marker)
        elif how == "replace":                       # flow.request = Request(...) / messages[-1] = Message(...)
            self._set(self._fresh(self._get(), marker))
        elif how == "copy_assign":                   # copy, assign, then edit the object the flow now holds
            self._set(self._fresh(self._get(), None))
            self._put(self._get(), marker)
        elif how == "set_state":                     # load an edited state into the held flow
            st = f.get_state(); self._state_put(st, marker); f.set_state(st)
        elif how == "revert":                        # backup, edit, revert
            f.backup(); self._put(self._get(), marker); f.revert()
        else:
            raise Skip(how)

    def held_marker(self):
        """the payload marker of the message the flow holds right now"""
        for m in (A, B):
            if m in self._content(self._get()).upper(): return m
        return None

    def close_source(self):
        self.w.peer_close(self.src)


class TcpScn(Scn):
    layer_cls, transport, hookname = ltcp.TCPLayer, "tcp", "tcp_message"

    def __init__(self, case, c2s):
        super().__init__(case)
        self.c2s = c2s
        self.src, self.dest = ("client", "server0") if c2s else ("server0", "client")

    def setup(self):
        ctx = make_context(transport=self.transport)
        ctx.server = Server(address=("example.com", 1234), transport_protocol=self.transport)
        self.w = World(self.layer_cls(ctx), ctx, on_hook=self.on_hook, on_connect=self.on_connect)
        self.w.start()

    def send(self, marker): self.w.recv(self.src, marker)
    def reverse(self): self.w.recv(self.dest, R)
    def reverse_count(self): return self.sent(self.src).count(R)

    def marker_of(self, h):
        f = getattr(h, "flow", None)
        msgs = getattr(f, "messages", None)
        return bytes(msgs[-1].content) if msgs else None

    def flow(self): return self.deferred_target.flow
    def _get(self): return self.flow().messages[-1]
    def _set(self, obj): self.flow().messages[-1] = obj
    def _put(self, obj, marker): obj.content = marker
    def _content(self, obj): return bytes(obj.content)
    def _fresh(self, obj, marker):
        return type(obj)(obj.from_client, obj.content if marker is None else marker)
    def _state_put(self, st, marker):
        m = st["messages"][-1]; st["messages"][-1] = (m[0], marker) + tuple(m[2:])


class UdpScn(TcpScn):
    layer_cls, transport, hookname = ludp.UDPLayer, "udp", "udp_message"


def _dns_query(name, id_):
    q = tflow.tdnsreq()
    q.id = id_
    q.questions[0].name = name
    return q


def _dns_answer(query):
    r = tflow.tdnsresp()
    r.id = query.id
    r.questions = query.questions
    for a in r.answers: a.name = query.questions[0].name
    return r


class DnsScn(Scn):
    def __init__(self, case, req):
        super().__init__(case)
        self.req = req
        self.hookname = "dns_request" if req else "dns_response"
        self.src, self.dest = ("client", "server0") if req else ("server0", "client")
        self.ids = {A: 11, C: 12, D: 13, R: 14}
        self.queries = {}

    @staticmethod
    def name(marker): return marker.decode().lower() + ".example"

    def setup(self):
        ctx = make_context(transport="udp")
        ctx.server = Server(address=("192.0.2.53", 53), transport_protocol="udp")
        self.w = World(ldns.DNSLayer(ctx), ctx, on_hook=self.on_hook)
        self.w.start()

    def _query(self, marker):
        q = _dns_query(self.name(marker), self.ids[marker]); self.queries[marker] = q
        self.w.recv("client", q.packed)

    def send(self, marker):
        if self.req:
            self._query(marker)
        else:
            # the answer is the message: the query goes through first (its hook is not intercepted)
            self._query(marker)
            self.w.recv("server0", _dns_answer(self.queries[marker]).packed)

    def reverse(self):
        if self.req:
            return   # an answer needs a forwarded query; while the layer is paused there is none
        self._query(R)

    def reverse_count(self):
        return self.sent("server0").count(self.name(R).split(".")[0].encode()) if not self.req else 0

    def marker_of(self, h):
        f = getattr(h, "flow", None)
        if f is None or not getattr(f, "request", None) or not f.request.questions: return None
        return f.request.questions[0].name.split(".")[0].upper().encode()

    def dest_count(self, marker):
        """datagrams to the destination that carry the name (a name occurs several times inside one answer)"""
        return sum(1 for lab, data in self.w.sent_log if lab == self.dest and marker in data.upper())

    def flow(self): return self.deferred_target.flow

    def _get(self): return self.flow().request if self.req else self.flow().response
    def _set(self, obj): setattr(self.flow(), "request" if self.req else "response", obj)
    def _put(self, obj, marker):
        obj.questions[0].name = self.name(marker)
        for a in obj.answers: a.name = self.name(marker)
    def _content(self, obj): return obj.questions[0].name.encode()
    def _fresh(self, obj, marker):
        new = obj.copy()
        if marker is not None: self._put(new, marker)
        return new
    def _state_put(self, st, marker):
        m = st["request" if self.req else "response"]
        m["questions"][0]["name"] = self.name(marker)
        for a in m["answers"]: a["name"] = self.name(marker)


class Http1Scn(Scn):
    def __init__(self, case, req):
        super().__init__(case)
        self.req = req
        self.hookname = "request" if req else "response"
        self.src, self.dest = ("client", "server0") if req else ("server0", "client")

    def setup(self):
        ctx = make_context()
        self.w = World(lhttp.HttpLayer(ctx, HTTPMode.regular), ctx, on_hook=self.on_hook)
        self.w.start()

    @staticmethod
    def _req(marker):
        return (b"POST http://example.com/p HTTP/1.1\r\nHost: example.com\r\nContent-Length: %d\r\n\r\n" % len(marker)) + marker

    @staticmethod
    def _resp(marker):
        return (b"HTTP/1.1 200 OK\r\nContent-Length: %d\r\n\r\n" % len(marker)) + marker

    def send(self, marker):
        if self.req:
            self.w.recv("client", self._req(marker))
        else:
            self.w.recv("client", self._req(b"Q" + marker[1:]))
            if "server0" in self.w.conns: self.w.recv("server0", self._resp(marker))

    def reverse(self):
        pass   # HTTP/1 has no reverse traffic inside one exchange

    def reverse_count(self): return 0

    def marker_of(self, h):
        f = getattr(h, "flow", None)
        if not isinstance(f, mhttp.HTTPFlow): return None
        msg = f.request if self.req else f.response
        return bytes(msg.raw_content or b"") if msg is not None else None

    def flow(self): return self.deferred_target.flow

    def _get(self): return self.flow().request if self.req else self.flow().response
    def _set(self, obj): setattr(self.flow(), "request" if self.req else "response", obj)
    def _put(self, obj, marker): obj.content = marker
    def _content(self, obj): return bytes(obj.raw_content or b"")
    def _fresh(self, obj, marker):
        new = obj.copy()
        if marker is not None: new.content = marker
        return new
    def _state_put(self, st, marker):
        m = st["request" if self.req else "response"]
        m["content"] = marker
        m["headers"] = tuple((k, (str(len(marker)).encode() if k.lower() == b"content-length" else v)) for k, v in m["headers"])


class Http2Scn(Http1Scn):
    def setup(self):
        import h2.connection, h2.config
        ctx = make_context(); ctx.client.alpn = b"h2"
        self.w = World(lhttp.HttpLayer(ctx, HTTPMode.regular), ctx, on_hook=self.on_hook, on_connect=self.on_connect)
        self.w.start()
        self.cli = h2.connection.H2Connection(h2.config.H2Configuration(client_side=True))
        self.srv = h2.connection.H2Connection(h2.config.H2Configuration(client_side=False))
        self.cli.initiate_connection()
        self.srv_started = False
        self.next_sid, self.spos, self.cpos = 1, 0, 0
        self.srv_streams = {}        # proxy→server stream id -> request body
        self.cli_events = []
        self.srv_bodies, self.cli_bodies = [], []

    def on_connect(self, w, cmd):
        cmd.connection.alpn = b"h2"
        return None

    def _hdr(self, path):
        return [(":method", "POST"), (":scheme", "http"), (":authority", "example.com"), (":path", path)]

    def _pump(self):
        """let both peers read what the proxy sent them; the server answers SETTINGS"""
        import h2.events
        for _ in range(4):
            moved = False
            if "server0" in self.w.conns:
                data = self.sent("server0")[self.spos:]; self.spos += len(data)
                if data:
                    moved = True
                    if not self.srv_started:
                        self.srv.initiate_connection(); self.srv_started = True
                    for e in self.srv.receive_data(data):
                        if isinstance(e, h2.events.RequestReceived): self.srv_streams.setdefault(e.stream_id, bytearray())
                        elif isinstance(e, h2.events.DataReceived):
                            self.srv_streams.setdefault(e.stream_id, bytearray()).extend(e.data)
                            self.srv.acknowledge_received_data(e.flow_controlled_length, e.stream_id)
                    out = self.srv.data_to_send()
                    if out: self.w.recv("server0", out)
            data = self.sent("client")[self.cpos:]; self.cpos += len(data)
            if data:
                moved = True
                for e in self.cli.receive_data(data):
                    if isinstance(e, h2.events.DataReceived):
                        self.cli_bodies.append(bytes(e.data))
                        self.cli.acknowledge_received_data(e.flow_controlled_length, e.stream_id)
                out = self.cli.data_to_send()
                if out: self.w.recv("client", out)
            if not moved: break

    def _client_request(self, body, path):
        sid = self.next_sid; self.next_sid += 2
        self.cli.send_headers(sid, self._hdr(path)); self.cli.send_data(sid, body, end_stream=True)
        self.w.recv("client", self.cli.data_to_send())
        self._pump()
        return sid

    def _server_answer(self, want_body, body):
        """the server answers the (first unanswered) upstream stream whose request body is `want_body`"""
        self._pump()
        for sid, b in list(self.srv_streams.items()):
            if bytes(b) == want_body:
                del self.srv_streams[sid]
                self.srv.send_headers(sid, [(":status", "200")]); self.srv.send_data(sid, body, end_stream=True)
                self.w.recv("server0", self.srv.data_to_send())
                self._pump()
                return True
        return False

    def send(self, marker):
        if self.req:
            self._client_request(marker, "/m")
        else:
            q = b"Q" + marker[1:]
            self._client_request(q, "/m")
            self._server_answer(q, marker)

    def sibling(self):
        """a second stream on the same client connection does a full exchange while the first is held"""
        self._client_request(b"SIBLINGQ", "/sib")
        ok_up = any(bytes(b) == b"SIBLINGQ" for b in self.srv_streams.values())
        self._server_answer(b"SIBLINGQ", b"SIBLINGR")
        return {"request_reached_server": ok_up, "response_reached_client": b"SIBLINGR" in b"".join(self.cli_bodies)}

    def decoded(self, label):
        self._pump()
        if label == "client": return b"|".join(self.cli_bodies)
        # everything the server has seen as request bodies, answered or not
        seen = getattr(self, "_srv_seen", [])
        return self.sent("server0")

    def close_source(self):
        self.w.peer_close(self.src)


class WsScn(Scn):
    hookname = "websocket_message"

    def __init__(self, case, c2s):
        super().__init__(case)
        self.c2s = c2s
        self.src, self.dest = ("client", "server0") if c2s else ("server0", "client")

    def setup(self):
        import wsproto.connection as wc
        ctx = make_context()
        self.w = World(lhttp.HttpLayer(ctx, HTTPMode.regular), ctx, on_hook=self.on_hook)
        self.w.start()
        self.w.recv("client", b"GET http://example.com/ws HTTP/1.1\r\nHost: example.com\r\nConnection: Upgrade\r\nUpgrade: websocket\r\n"
                              b"Sec-WebSocket-Key: dGhlIHNhbXBsZSBub25jZQ==\r\nSec-WebSocket-Version: 13\r\n\r\n")
        self.w.recv("server0", b"HTTP/1.1 101 Switching Protocols\r\nUpgrade: websocket\r\nConnection: Upgrade\r\n"
                               b"Sec-WebSocket-Accept: s3pPLMBiTxaQ9kYGzzhZRbK+xOo=\r\n\r\n")
        self.enc = {"client": wc.Connection(wc.ConnectionType.CLIENT), "server0": wc.Connection(wc.ConnectionType.SERVER)}
        # decoders for what the proxy sends to each side (it talks to the server as a client, and vice versa)
        self.dec = {"server0": wc.Connection(wc.ConnectionType.SERVER), "client": wc.Connection(wc.ConnectionType.CLIENT)}
        self.pos = {"server0": len(self.sent("server0")), "client": len(self.sent("client"))}
        self.seen = {"server0": [], "client": []}

    def _frame(self, side, marker):
        import wsproto.events as wev
        return self.enc[side].send(wev.BytesMessage(data=marker))

    def send(self, marker): self.w.recv(self.src, self._frame(self.src, marker))
    def reverse(self): self.w.recv(self.dest, self._frame(self.dest, R))
    def reverse_count(self): return self.decoded(self.src).count(R)

    def decoded(self, label):
        import wsproto.events as wev
        data = self.sent(label)[self.pos[label]:]; self.pos[label] += len(data)
        if data:
            self.dec[label].receive_data(data)
            for e in self.dec[label].events():
                if isinstance(e, (wev.BytesMessage, wev.TextMessage)):
                    self.seen[label].append(e.data if isinstance(e.data, (bytes, bytearray)) else e.data.encode())
        return b"|".join(bytes(x) for x in self.seen[label])

    def marker_of(self, h):
        f = getattr(h, "flow", None)
        ws = getattr(f, "websocket", None)
        return bytes(ws.messages[-1].content) if ws and ws.messages else None

    def flow(self): return self.deferred_target.flow
    def _get(self): return self.flow().websocket.messages[-1]
    def _set(self, obj): self.flow().websocket.messages[-1] = obj
    def _put(self, obj, marker): obj.content = marker
    def _content(self, obj): return bytes(obj.content)
    def _fresh(self, obj, marker):
        from mitmproxy.websocket import WebSocketMessage
        return WebSocketMessage(obj.type, obj.from_client, obj.content if marker is None else marker)
    def _state_put(self, st, marker):
        m = st["websocket"]["messages"][-1]; st["websocket"]["messages"][-1] = (m[0], m[1], marker) + tuple(m[3:])


def make_scn(case):
    p = case["proto"]
    if p.startswith("tcp"): return TcpScn(case, p.endswith("c2s"))
    if p.startswith("udp"): return UdpScn(case, p.endswith("c2s"))
    if p.startswith("dns"): return DnsScn(case, p == "dns_req")
    if p.startswith("http1"): return Http1Scn(case, p.endswith("req"))
    if p.startswith("http2"): return Http2Scn(case, p.endswith("req"))
    if p.startswith("ws"): return WsScn(case, p.endswith("c2s"))
    raise Skip(p)


def run_world(case):
    s = make_scn(case)
    s.setup()
    obs = {"level": "world", "proto": case["proto"]}
    s.send(A)
    obs["intercepted"] = s.deferred_target is not None
    if not obs["intercepted"]:
        return obs
    f = s.flow()
    f.intercept()                                   # what the Intercept addon does inside the hook
    obs["during0"] = s.dest_count(A)
    between = {}
    for b in case.get("between", []):
        if b == "next": s.send(C)
        elif b == "reverse":
            s.reverse()
        elif b == "sibling":
            r = s.sibling()
            if r is not None: between["sibling"] = r
        elif b == "close":
            s.close_source()
    obs["between"] = between
    obs["during1"] = s.dest_count(A)
    obs["next_overtook"] = s.dest_count(C)          # a later message of the same flow reached the destination first
    act = case["action"]
    final = A
    if act == "edit":
        s.edit(B, case.get("how", "inplace"))
        final = s.held_marker()                     # what the flow holds when it is resumed
        obs["held_at_resume"] = None if final is None else final.decode()
    if act == "kill":
        killable = bool(f.killable)
        if killable: f.kill()
        obs["killable"] = killable
    else:
        f.resume()
    obs["still_intercepted"] = bool(f.intercepted)
    # the hook completes (handle_hook returns once wait_for_resume does)
    s.w.resume(s.deferred_target)
    # everything else the environment owes: later hooks complete immediately (on_hook), nothing is deferred any more
    obs["after_final"] = s.dest_count(final) if final else 0
    # the other version of the message (the unedited original, or the edit that was taken back) must not be sent
    obs["after_orig"] = (s.dest_count(A if final != A else B) if act == "edit" else None)
    obs["next_after"] = s.dest_count(C)
    obs["reverse_after"] = s.reverse_count() if "reverse" in case.get("between", []) else 0
    obs["error"] = None if f.error is None else str(f.error.msg)
    obs["live"] = bool(f.live)
    if act == "kill":
        # "sends nothing further for it": one more message on the same flow / connection
        try:
            s.send(D)
        except Exception as e:      # the connection may be gone: nothing can be sent, which is fine
            obs["later_exc"] = type(e).__name__
        obs["later"] = s.dest_count(D)
    obs["crashes"] = [e[0] for e in s.w.errors]
    obs["hook_log"] = [m.decode("latin-1") if m else None for m in s.hook_log]
    return obs


# ------------------------------------------------------------------------------------------------
# async level: the real handle_hook / wait_for_resume pair
class _Writer:
    def get_extra_info(self, name, default=None):
        return {"peername": ("192.0.2.1", 5555), "sockname": ("127.0.0.1", 8080)}.get(name, default)
    def is_closing(self): return False
    def close(self): pass


class _QuietLayer(mlayer.Layer):
    def _handle_event(self, event):
        return
        yield


@dataclass
class C11ProbeHook(commands.StartHook):
    flow: mflow.Flow


class _Addons:
    """stands in for master.addons: runs the real Intercept.process_flow decision (intercept iff the flow is marked)"""
    def __init__(self, marked): self.marked = marked
    async def handle_lifecycle(self, hook):
        (f,) = hook.args()
        if id(f) in self.marked:
            f.intercept()


class _Master:
    def __init__(self, marked): self.addons = _Addons(marked)


def _op_flow(op):
    """ops are [name] / [name, flow] / ["hook", intercepts] / ["hook", intercepts, flow]; flow defaults to 0"""
    if op[0] == "hook": return op[2] if len(op) > 2 else 0
    return op[1] if len(op) > 1 else 0


def run_async(case):
    with installed() as loop:
        opts = moptions.Options()
        from mitmproxy.addons.proxyserver import Proxyserver
        Proxyserver().load(opts)
        nflows = 1 + max([_op_flow(op) for op in case["ops"]] + [0])
        flows = [tflow.tflow() for _ in range(nflows)]
        for f in flows: f.live = True
        marked = set()
        h = mode_servers.ProxyConnectionHandler(_Master(marked), None, _Writer(), opts, mode_specs.ProxyMode.parse("regular"))
        h.layer = _QuietLayer(h.layer.context)
        completed = []
        orig = h.server_event

        async def server_event(ev):
            if isinstance(ev, events.HookCompleted): completed.append(ev.command._v_index)
            await orig(ev)
        h.server_event = server_event
        tasks, steps = [], []
        for op in case["ops"]:
            k, f = op[0], flows[_op_flow(op)]
            killed = False
            if k == "hook":
                # the Intercept addon intercepts this hook's flow or not
                if op[1]: marked.add(id(f))
                else: marked.discard(id(f))
                hook = C11ProbeHook(f); hook._v_index = len(tasks)
                tasks.append(loop.create_task(h.hook_task(hook)))
            elif k == "resume": f.resume()
            elif k == "kill":
                if f.killable:
                    f.kill(); killed = True
            elif k == "intercept": f.intercept()
            loop.pump()
            # the idle watchdog must stay disarmed exactly while a hook (incl. a held flow's) is pending
            steps.append({"done": sorted(completed), "killed": killed,
                          "armed": bool(h.timeout_watchdog.can_timeout.is_set())})
        for t in tasks: t.cancel()
        loop.pump()
        return {"level": "async", "steps": steps}


# ------------------------------------------------------------------------------------------------
KIND = {"http1_req": "http", "http1_resp": "http", "http2_req": "http", "http2_resp": "http", "ws_c2s": "ws", "ws_s2c": "ws",
        "tcp_c2s": "tcp", "tcp_s2c": "tcp", "udp_c2s": "udp", "udp_s2c": "udp", "dns_req": "dnsReq", "dns_resp": "dnsResp"}
FINDING = {"tcp": "F-C11a", "udp": "F-C11b", "ws": "F-C11c", "dnsResp": "F-C11d"}
# applicability of the "between" steps: a second message that the same layer instance sees, in which direction
NEXT_OK = {"http2_req", "http2_resp", "ws_c2s", "ws_s2c", "tcp_c2s", "tcp_s2c", "udp_c2s", "udp_s2c", "dns_req", "dns_resp"}
REVERSE_OK = {"ws_c2s", "ws_s2c", "tcp_c2s", "tcp_s2c", "udp_c2s", "udp_s2c"}


class Check(PropertyCheck):
    prop = "C11"
    design_ref = "§5 C11"
    level_text = ("Lean theorems held_while_intercepted / held_never_sent, resume_forwards_edited / resume_forwards_once, "
                  "remote_close_marks_held / remote_close_kills_held (a source close that the layer treats as a kill), "
                  "kill_forwards_nothing_and_errors_history_partial (whole-history form from the initial state, ONLY for the "
                  "layers that consult the kill, with well-formedness/distinctness of the held messages derived; named "
                  "kill_forwards_nothing_and_errors before round 6) / kill_forwards_nothing_and_errors_partial (the same from "
                  "any state) / _iff (a layer kind satisfies the kill clause exactly when its send-after-hook step consults "
                  "the kill) / _counterexample (TCP, UDP, WebSocket, DNS answers), siblings_progress / "
                  "sibling_exchange_while_held, and waiting_only_while_intercepted / intercepted_hook_waits / "
                  "resume_or_kill_releases about (i) a layer under Layer.handle_event's pause-and-queue semantics with the "
                  "per-protocol send-after-hook step, for ALL schedules of arrivals and hook completions with any verdict, "
                  "(ii) a parent routing to child layers, (iii) Flow.intercept/resume/kill/wait_for_resume with any number "
                  "of hook tasks, for ALL operation sequences; and (iv) their PRODUCT (Model/C11 S/pstep/prun: one flow's "
                  "layer x flow object x hook tasks, in which the hook completion is not a free input: `deliver` reaches the "
                  "layer only when the pending message's hook task has returned from wait_for_resume, with the verdict read "
                  "off the flow and the message at that moment), for ALL histories of arrivals, delivery attempts, closes, "
                  "intercept/resume/kill and edits: intercepted_message_held (the clause 'while a flow is intercepted nothing "
                  "of the message is sent': once a message's hook is pending with its task blocked, whatever follows short "
                  "of resume/kill leaves it pending, the flow intercepted, the message unsent in the whole history, and "
                  "produces no output at all), intercepted_at_end_not_sent, intercepted_hook_is_held / "
                  "intercepted_arrival_is_held (a hook that fires while the addon intercepts or the flow is intercepted IS "
                  "such a blocked hook), send_requires_released_hook (step form: a send only by an enabled delivery, with the "
                  "content the flow holds then), resume_or_kill_enables_delivery (after resume / kill the delivery is enabled "
                  "and carries exactly the flow's error flag, the held content and the drop flag), product_forwards_once, and "
                  "the refinement lemmas prun_refines_run / prun_refines_runA / prun_J / prun_tasks / pstep_layer / pstep_flow / "
                  "intercepting_hook_blocks / blocked_step (every product run projects to a layer run and a Flow-operation "
                  "run, so (i) and (iii) hold of it).  Tied to the code by running the real layers (HTTP/1, HTTP/2 with a "
                  "sibling stream, WebSocket, TCP, UDP, DNS) on the queue-based world with the hook completion withheld, and "
                  "the real ProxyConnectionHandler.handle_hook/hook_task + Flow on the virtual-time loop; every tied world "
                  "case is run through BOTH the layer model (completions written by the harness) and the product (driver op "
                  "`p`: the harness only attempts deliveries; one attempt is made while the flow is intercepted and must do "
                  "nothing and leave delivery disabled).")
    level_note = ("trusted: Lean kernel; the layer model abstracts each protocol layer to 'one hook per message, then the "
                  "send-after-hook step' (HTTP's full stream machine is C03's model); at the world level a hook completion "
                  "withheld by the world stands for handle_hook blocked in wait_for_resume (the product model makes exactly "
                  "that link and the async level exercises the real handle_hook/wait_for_resume; there is no single run in "
                  "which a real layer AND the real handle_hook task are driven together); a product instance is one flow: "
                  "world cases in which the flow is killed while messages of OTHER flows are queued in the same layer "
                  "(pipelined HTTP/1 request, second DNS query) are tied through the layer model only; "
                  "messages are identified by payload markers at the destination (the count of every marker is compared, no "
                  "clamping); a source close while the message is held is "
                  "tied to the model when it is the last thing delivered before the verdict (what can still be delivered "
                  "after a close depends on the transport; those orders are judged by the direct oracle only).  Lenient oracle "
                  "branch: 'resume: the message was not forwarded' is not raised when the flow carries an error (a close "
                  "raced the resume); the model tie still compares the sends in the tied orders.  PARTIAL: "
                  "kill_forwards_nothing_and_errors_history_partial / _partial "
                  "hold only for HTTP and DNS queries; TCP/UDP/WebSocket/DNS-answer layers forward a killed flow's "
                  "message (findings F-C11a–d, counterexample theorem).")
    technique = "Lean 4 proof (induction over schedules, invariants) + world / virtual-time correspondence with the real layers and handle_hook"
    rule = ("world cases: 12 message kinds × {resume, edit+resume, kill} × every ordered selection of ≤3 of {next message, "
            "reverse-direction message, HTTP/2 sibling exchange, source close} delivered while the message is held; "
            "async cases: all operation sequences over {hook(intercepting), hook(plain), intercept, resume, kill} up to "
            "length L plus random longer ones on 1–3 flows.  distinct = distinct case; non-trivial = the target hook "
            "fired and was held (world) / at least one hook task started (async).")
    budget = {"quick": 3000, "thorough": 60000}
    time_budget = {"quick": 20, "thorough": 500}
    fingerprints = ["mitmproxy.flow:Flow.intercept", "mitmproxy.flow:Flow.resume", "mitmproxy.flow:Flow.kill",
                    "mitmproxy.flow:Flow.wait_for_resume", "mitmproxy.flow:Flow.killable",
                    "mitmproxy.addons.intercept:Intercept.process_flow", "mitmproxy.addons.intercept:Intercept.should_intercept",
                    "mitmproxy.proxy.mode_servers:ProxyConnectionHandler.handle_hook",
                    "mitmproxy.proxy.server:ConnectionHandler.hook_task",
                    "mitmproxy.proxy.layer:Layer.handle_event",
                    "mitmproxy.proxy.layers.http:HttpStream.check_killed",
                    "mitmproxy.proxy.layers.http:HttpLayer.event_to_child",
                    "mitmproxy.proxy.layers.tcp:TCPLayer.relay_messages", "mitmproxy.proxy.layers.udp:UDPLayer.relay_messages",
                    "mitmproxy.proxy.layers.websocket:WebsocketLayer.relay_messages",
                    "mitmproxy.proxy.layers.dns:DNSLayer.handle_request", "mitmproxy.proxy.layers.dns:DNSLayer.handle_response"]
    trusted_base = ["h2, wsproto and mitmproxy.dns as peers/decoders of the scenarios (independent instances of the same libraries)",
                    "harness/common/world.py and vloop.py"]
    parallel = True
    has_model = True

    # ---- generation ---------------------------------------------------------------------------
    def _world_cases(self, maxn):
        for p in PROTOS:
            for a in ACTIONS:
                for n in range(0, maxn + 1):
                    for bt in itertools.permutations(BETWEEN, n):
                        if "next" in bt and p not in NEXT_OK: continue
                        if "reverse" in bt and p not in REVERSE_OK: continue
                        if "sibling" in bt and not p.startswith("http2"): continue
                        if a == "edit":
                            # in-place edits and edits that replace the held message OBJECT (assignment, copy+assign,
                            # set_state, backup+edit+revert): what is forwarded must be what the flow holds at resume
                            for how in EDIT_MODES:
                                yield {"level": "world", "proto": p, "action": a, "how": how, "between": list(bt)}
                        else:
                            yield {"level": "world", "proto": p, "action": a, "between": list(bt)}

    def _async_small(self, L, L2=0):
        alphabet = [["hook", 1], ["hook", 0], ["intercept"], ["resume"], ["kill"]]
        for n in range(1, L + 1):
            for ops in itertools.product(alphabet, repeat=n):
                if not any(o[0] == "hook" for o in ops): continue
                yield {"level": "async", "ops": [list(o) for o in ops]}
        # two flows on one connection: a hook of one flow completes while the other flow is held
        two = [["hook", 1, 0], ["hook", 0, 0], ["resume", 0], ["kill", 0], ["hook", 1, 1], ["hook", 0, 1], ["resume", 1], ["kill", 1]]
        for n in range(2, L2 + 1):
            for ops in itertools.product(two, repeat=n):
                if not (any(_op_flow(o) == 0 for o in ops) and any(_op_flow(o) == 1 for o in ops)): continue
                if not any(o[0] == "hook" for o in ops): continue
                yield {"level": "async", "ops": [list(o) for o in ops]}

    def generate(self, rng, tier):
        yield from self._async_small(3, 3)                       # the cheap async schedules first
        yield from self._world_cases(3 if tier == "thorough" else 2)
        yield from self._async_small(6 if tier == "thorough" else 4, 5 if tier == "thorough" else 4)
        while True:
            n = rng.randint(3, 14)
            nf = rng.randint(1, 3)
            ops = []
            for _ in range(n):
                fi = rng.randrange(nf)
                o = rng.weighted([(3, ["hook", 1]), (2, ["hook", 0]), (1, ["intercept"]), (2, ["resume"]), (1, ["kill"])])
                ops.append(o + [fi])
            yield {"level": "async", "ops": ops}

    def impl(self, case):
        import warnings
        with warnings.catch_warnings():
            warnings.simplefilter("ignore")
            return run_world(case) if case["level"] == "world" else run_async(case)

    # ---- the property on the implementation ---------------------------------------------------
    def oracle(self, case, obs):
        fails = []
        if case["level"] == "world":
            if not obs["intercepted"]:
                return ["harness: the target hook did not fire / was not held"]
            closed = "close" in case["between"]
            # "While a flow is intercepted, nothing of the intercepted message is sent to its destination"
            if obs["during0"] or obs["during1"]:
                fails.append(f"held: the intercepted message reached its destination while intercepted ({obs['during0']}/{obs['during1']}×)")
            # "and other flows on the same connection (for multiplexed protocols) keep making progress"
            sib = obs["between"].get("sibling")
            bt = case["between"]
            if "close" in bt and "sibling" in bt and bt.index("close") < bt.index("sibling"): sib = None   # the client is gone
            if sib is not None and not (sib["request_reached_server"] and sib["response_reached_client"]):
                fails.append(f"siblings: the HTTP/2 sibling stream did not progress while the flow was held: {sib}")
            if case["action"] in ("resume", "edit"):
                # "Resuming forwards the (possibly edited) message exactly once"
                if obs["after_final"] > 1: fails.append(f"resume: the message was forwarded {obs['after_final']} times")
                if obs["after_final"] == 0 and not closed and not obs["error"]:
                    fails.append("resume: the message was not forwarded")
                if obs["after_orig"]:
                    fails.append("resume: a version of the message that the flow no longer holds was forwarded "
                                 f"(the flow held {obs.get('held_at_resume')} when it was resumed)")
                if case["action"] == "edit" and obs.get("held_at_resume") is None:
                    fails.append("harness: the edited flow holds neither marker")
                if obs["still_intercepted"]: fails.append("resume: flow still intercepted")
            else:
                # "killing the flow sends nothing further for it and ends it with an error"
                if obs.get("killable"):
                    if obs["after_final"]:
                        fails.append(f"kill: the message of the killed flow was forwarded ({KIND[case['proto']]})")
                    elif obs.get("later") and KIND[case["proto"]] in ("tcp", "udp", "ws"):
                        fails.append(f"kill: a later message of the killed flow was forwarded ({KIND[case['proto']]})")
                    if not obs["error"]: fails.append("kill: the flow has no error")
                    if obs["live"]: fails.append("kill: the flow is still live")
        else:
            # a hook for a flow completes at once unless the flow is intercepted; it then completes exactly when the
            # flow is resumed or killed; hooks of other flows are not affected; the idle watchdog is disarmed exactly
            # while some hook is pending
            intercepted, waiting, done = {}, {}, []
            nh = 0
            for op, st in zip(case["ops"], obs["steps"]):
                k, fi = op[0], _op_flow(op)
                if k == "hook":
                    if op[1]: intercepted[fi] = True
                    if intercepted.get(fi): waiting.setdefault(fi, []).append(nh)
                    else: done.append(nh)
                    nh += 1
                elif k == "intercept": intercepted[fi] = True
                elif k == "resume" or (k == "kill" and st.get("killed")):
                    intercepted[fi] = False; done += waiting.pop(fi, [])
                if sorted(st["done"]) != sorted(done):
                    fails.append(f"after {op}: completed hooks {st['done']}, expected {sorted(done)}")
                    break
                pending = sum(len(v) for v in waiting.values())
                if st["armed"] != (pending == 0):
                    fails.append(f"after {op}: idle watchdog {'armed' if st['armed'] else 'disarmed'} with {pending} hook(s) pending "
                                 "(a held flow's connection would time out / an idle one never)"); break
        return fails

    KILL_FORWARDED = "kill: the message of the killed flow was forwarded"

    def known(self, case, obs, failure):
        """F-C11a–d: exactly 'the message whose hook was pending when the flow was killed is forwarded (once) when the
        hook completes' in the TCP / UDP / WebSocket / DNS-answer layers.  Input class: world level, action kill on a
        killable flow of that layer; failure: the oracle's kill-forwarded clause; observation: the flow IS killed
        (error set, not live), nothing was sent while held, the message went out exactly once.  Anything else — another
        clause, a duplicate, a later message forwarded although the killed one was not, another layer — is reported."""
        if case.get("level") != "world" or case.get("action") != "kill": return None
        kind = KIND.get(case.get("proto"))
        fid = FINDING.get(kind)
        if fid is None: return None
        if failure != f"{self.KILL_FORWARDED} ({kind})": return None
        if not (obs.get("intercepted") and obs.get("killable")): return None
        if obs.get("during0") or obs.get("during1"): return None
        if obs.get("after_final") != 1: return None
        if not obs.get("error") or obs.get("live"): return None
        return fid

    def setup(self, tier):
        self.known_selftest()
        self.parallel = tier == "thorough"      # under load the fork pool is slower than the serial loop for the quick tier

    def known_selftest(self):
        """positive witness and near misses for every finding (notes/known_audit.txt): raises → the run ends as INFRA"""
        def obs(**kw):
            o = {"intercepted": True, "killable": True, "during0": 0, "during1": 0, "after_final": 1, "error": "Connection killed.",
                 "live": False, "later": 1, "between": {}}
            o.update(kw); return o
        def case(proto, action="kill", **kw):
            c = {"level": "world", "proto": proto, "action": action, "between": []}; c.update(kw); return c
        fwd = lambda kind: f"{self.KILL_FORWARDED} ({kind})"
        later = lambda kind: f"kill: a later message of the killed flow was forwarded ({kind})"
        T = []
        for proto, kind, fid in (("tcp_c2s", "tcp", "F-C11a"), ("udp_s2c", "udp", "F-C11b"), ("ws_s2c", "ws", "F-C11c"),
                                 ("dns_resp", "dnsResp", "F-C11d")):
            T += [
                (case(proto), obs(), fwd(kind), fid),                                      # the recorded witness
                (case(proto, between=["next"]), obs(), fwd(kind), fid),
                # (a) same input class, a different failure
                (case(proto), obs(), "kill: the flow has no error", None),
                (case(proto), obs(), "kill: the flow is still live", None),
                (case(proto), obs(during1=1), "held: the intercepted message reached its destination while intercepted (0/1×)", None),
                (case(proto), obs(after_final=0), later(kind), None),                      # later message, killed one held back
                (case(proto), obs(after_final=2), fwd(kind), None),                        # forwarded twice
                (case(proto), obs(during1=1), fwd(kind), None),                            # also leaked while held
                (case(proto), obs(error=None), fwd(kind), None),                           # the flow was not really killed
                (case(proto), obs(live=True), fwd(kind), None),
                # (b) a neighbouring input with the same kind of failure
                (case(proto, action="resume"), obs(), fwd(kind), None),
                (case(proto, action="edit", how="revert"), obs(), fwd(kind), None),
                (case(proto), obs(killable=False), fwd(kind), None),
                (dict(case(proto), level="async"), obs(), fwd(kind), None),
            ]
        # the layers that honour the kill are never excused, whatever the text says
        for proto, kind in (("http1_req", "http"), ("http1_resp", "http"), ("http2_req", "http"), ("http2_resp", "http"), ("dns_req", "dnsReq")):
            T += [(case(proto), obs(), fwd(kind), None), (case(proto), obs(), fwd("tcp"), None)]
        # a message of one layer is not excused by another layer's finding
        T += [(case("tcp_c2s"), obs(), fwd("udp"), None), (case("dns_resp"), obs(), fwd("dnsReq"), None),
              (case("ws_c2s"), obs(), "resume: the message was forwarded 2 times", None)]
        for c, o, f, want in T:
            got = self.known(c, o, f)
            assert got == want, f"known() self-test: {c} / {f!r} / {({k: o[k] for k in ('after_final', 'during1', 'error', 'live', 'killable')})}: got {got}, expected {want}"

    # ---- model tie ----------------------------------------------------------------------------
    def model_lines(self, case):
        if case["level"] == "async":
            # flows are independent: each flow's own operations go through the model of one flow
            lines = []
            for fi in sorted({_op_flow(op) for op in case["ops"]}):
                lines.append("areset")
                lines += [("hook %d" % op[1]) if op[0] == "hook" else op[0] for op in case["ops"] if _op_flow(op) == fi]
            return lines
        p, bt = case["proto"], case["between"]
        # the source's close is tied when nothing else is delivered after it (what still can be delivered after a
        # close depends on the transport, not on the layers under test)
        if "close" in bt and bt[-1] != "close": return None
        if "close" in bt and "reverse" in bt and p.startswith("udp"): return None   # the reverse datagram's destination closed
        kind = KIND[p]
        h2 = p.startswith("http2")
        lines = [f"reset {kind}", "a 0 1 1"]
        # messages other than the intercepted one: their hooks complete at once (when they fire)
        pending = []          # (key, id, content) queued behind the held message, in order
        for b in bt:
            if b == "next":
                if h2: lines += ["a 2 2 3", "c 2 0 0 3"]
                else: lines.append("a 0 2 3"); pending.append((0, 2, 3))
            elif b == "reverse":
                lines.append("a 0 3 5"); pending.append((0, 3, 5))
            elif b == "sibling":
                lines += ["a 4 4 7", "c 4 0 0 7"]
            elif b == "close":
                # HTTP requests: the client's disconnect is found in the paused-event queue by check_killed;
                # UDP: the association ends as a whole, the destination is gone with it
                lines.append("x 0 %d %d" % (int(p in ("http1_req", "http2_req")), int(p == "udp_c2s")))
        lines.append("mark")
        act = case["action"]
        # the verdict's content is what the flow holds at resume: the edit (2), or the original again after a revert (1)
        edited = "1" if case.get("how") == "revert" else "2"
        lines.append({"resume": "c 0 0 0 1", "edit": f"c 0 0 0 {edited}", "kill": "c 0 1 0 1"}[act])
        for key, id_, c in pending:
            lines.append(f"c {key} 0 0 {c}")
        # the same schedule through the COMPOSED system (layer x flow x hook tasks, Model/C11 `pstep`): no completion is
        # written by the harness here — `p <key> d` only ATTEMPTS a delivery, which the model enables iff the hook task
        # has returned from wait_for_resume.  One product instance is one flow: when the flow is killed, messages of
        # OTHER flows queued in the same layer (pipelined HTTP/1 request, second DNS query) would wrongly inherit the
        # kill, so those cases are tied through the layer model only.
        plines = []
        if not (act == "kill" and pending and kind in ("http", "dnsReq")):
            plines.append(f"reset {kind}")
            seen_mark = verdict_done = False
            for l in lines[1:]:
                t = l.split()
                if l == "mark":
                    seen_mark = True
                    plines.append("p 0 d")          # attempted while the flow is intercepted: must do nothing
                elif t[0] == "a": plines.append(f"p {t[1]} a {t[2]} {t[3]}")
                elif t[0] == "x": plines.append(f"p {t[1]} x {t[2]} {t[3]}")
                elif t[0] == "c" and t[1] == "0" and seen_mark and not verdict_done:
                    verdict_done = True
                    if act == "edit": plines.append(f"p 0 e {edited}")
                    plines.append("p 0 kill" if act == "kill" else "p 0 resume")
                    plines.append("p 0 d")
                else: plines.append(f"p {t[1]} d")
        return [l for l in lines if l != "mark"] + ["#%d" % lines.index("mark")] + plines

    def model_obs(self, case, replies):
        if case["level"] == "async":
            # per flow: the task states after that flow's last operation
            out, cur = [], None
            for r in replies:
                if r == "ok":
                    if cur is not None: out.append(cur)
                    cur = "-"
                else: cur = r.split()[0]
            out.append(cur)
            return out
        lines = self.model_lines(case)
        mi = next(i for i, l in enumerate(lines) if l.startswith("#"))
        mark = int(lines[mi][1:])

        def view(before, after):
            outs_before = " ".join(before).split()
            outs_after = " ".join(after).split()
            allouts = [o for o in outs_before + outs_after if o not in ("-", "!")]
            sends = sorted(o[1:] for o in allouts if o.startswith("S"))
            return {"hooks": [int(o[1:]) for o in allouts if o.startswith("H") and o[1:] in ("1", "2", "3")],
                    "sent_while_held": sum(1 for o in outs_before if o.startswith("S1:")),
                    "sends": sends, "error": any(o == "E1" for o in allouts)}
        out = view(replies[1:mark], replies[mark:mi])
        pl, pr = lines[mi + 1:], replies[mi + 1:]
        if pl:
            # composed system: everything up to and including the delivery attempted while intercepted is "while held"
            pm = pl.index("p 0 d")
            out["product"] = dict(view(pr[1:pm + 1], pr[pm + 1:]), attempt_while_intercepted=pr[pm])
        else:
            out["product"] = None
        return out

    def impl_view(self, case, obs):
        if case["level"] == "async":
            done = set(obs["steps"][-1]["done"]) if obs["steps"] else set()
            out = []
            for fi in sorted({_op_flow(op) for op in case["ops"]}):
                idx = [i for i, op in enumerate([o for o in case["ops"] if o[0] == "hook"]) if _op_flow(op) == fi]
                out.append("".join("d" if i in done else "w" for i in idx) or "-")
            return out
        ids = {"MSGAAAA": 1, "MSGBBBB": 1, "MSGCCCC": 2, "MSGRRRR": 3}
        sends = []
        fin = "2" if obs.get("held_at_resume") == "MSGBBBB" else "1"
        if obs["after_final"]: sends += [f"1:{fin}"] * obs["after_final"]
        if obs.get("after_orig"): sends += ["1:%s" % ("1" if fin == "2" else "2")] * obs["after_orig"]
        if obs["next_after"]: sends += ["2:3"] * obs["next_after"]
        if obs.get("reverse_after"): sends += ["3:5"] * obs["reverse_after"]
        sib = obs["between"].get("sibling")
        if sib and sib["request_reached_server"] and case["proto"] == "http2_req": sends.append("4:7")
        if sib and sib["response_reached_client"] and case["proto"] == "http2_resp": sends.append("4:7")
        honoured = KIND[case["proto"]] in ("http", "dnsReq")
        v = {"hooks": [ids[m] for m in obs["hook_log"] if m in ids and ids[m] in (1, 2, 3)],
             "sent_while_held": obs["during1"], "sends": sorted(sends),
             "error": bool(honoured and obs["error"] and not obs["after_final"])}
        # the composed model must predict the same, and that a delivery attempted while the flow was intercepted did
        # nothing and left delivery disabled ("-" without the "!" marker)
        lines = self.model_lines(case)
        has_product = lines is not None and not lines[-1].startswith("#")
        v["product"] = dict(v, attempt_while_intercepted="-") if has_product else None
        return v

    def classify(self, case, obs):
        if case["level"] == "world":
            return json.dumps(case, sort_keys=True) if obs.get("intercepted") else None
        return json.dumps(case["ops"])

    def branches(self, case, obs):
        if case["level"] == "world":
            out = ["world", "proto:" + case["proto"], "action:" + case["action"]] + ["between:" + b for b in case["between"]]
            if obs.get("error"): out.append("flow-error")
            return out
        out = ["async"]
        if any(op[0] == "kill" for op in case["ops"]): out.append("async:kill")
        if obs["steps"] and not obs["steps"][-1]["armed"]: out.append("async:pending-at-end")
        return out

    def neighbours(self, case, rng):
        if case["level"] == "world":
            for a in ACTIONS:
                for b in BETWEEN:
                    for how in (EDIT_MODES if a == "edit" else (None,)):
                        c = dict(case, action=a, between=case["between"] + [b])
                        if how: c["how"] = how
                        else: c.pop("how", None)
                        yield c
        else:
            ops = case["ops"]
            for i in range(len(ops) + 1):
                for o in (["hook", 1], ["hook", 0], ["resume"], ["kill"], ["intercept"], ["hook", 1, 1], ["hook", 0, 1], ["resume", 1]):
                    yield {"level": "async", "ops": ops[:i] + [o] + ops[i:]}

    def exhaustive(self, tier):
        yield from self._async_small(6, 5)
        yield from self._world_cases(3)
