"""C12 — error pages never reflect unescaped client input.

Anchors: mitmproxy/proxy/layers/http/_base.py format_error, _http1.py make_error_response (+ the two send sites in
Http1Server), _http2.py Http2Connection error-page path.

Two kinds of cases:
  fmt  — unit level: format_error / make_error_response on a generated (status, message); compared byte-for-byte with
         the Lean model (`formatError`, `makeErrorResponse`, `h2ErrorHeaders`).
  e2e  — a real HttpLayer (HTTP/1 or HTTP/2 client side) is driven through harness/common/world.py with an input that
         makes mitmproxy answer with an error page (bad request line, invalid header, bad content-length, request
         validation failure, oversized request/response with body_size_limit, unreachable upstream with an
         attacker-controlled error text, garbage from the server); the markup marker travels in the request line /
         header / authority / upstream error text / server status line.  Every page on the wire is scanned, and every
         call of format_error / make_error_response that happened is replayed on the model and compared byte-for-byte.
"""
import html, itertools, re
from common.check import PropertyCheck, hx, unhx

from mitmproxy import version
from mitmproxy.net.http import status_codes
from mitmproxy.proxy.layers.http import _base, _http1, _http2, _events

SPECIAL = "&<>\"'\n "
# characters that compatibility normalisation / width folding turns into markup (fullwidth, small forms, negated relations)
LOOKALIKE = list("\uff1c\uff1e\uff02\uff07\uff06\ufe64\ufe65\ufe60\u226e\u226f\uff03\uff1b")
ALPHA = list("&<>\"'") * 3 + list(";#x27ampltgquo") + list(" \t\n\r") * 2 + list("abAZ09/=()") + ["é", " ", "\xa0", "𝄞"] + LOOKALIKE
MARK = "<script>\"'&"
USED_STATUS = [400, 413, 502]

ENT = re.compile(rb"&(?:amp|lt|gt|quot|#x27);")
PAGE = re.compile(
    rb"\A<html>\n *<head>\n *<title>([^<>]*)</title>\n *</head>\n *<body>\n *<h1>([^<>]*)</h1>\n *<p>(.*)</p>\n *</body>\n *</html>\Z",
    re.S)


def lean_bytes(b: bytes) -> str:
    return "[" + ", ".join(str(x) for x in b) + "]"


def page_title(status: int) -> bytes:
    return f"{status} {status_codes.RESPONSES.get(status, 'Unknown')}".encode()


def scan_page(status, body: bytes):
    """C12 sentence 1: 'contains any client- or server-controlled text only in HTML-escaped form'.
    The page must be the fixed skeleton; the title/h1 are the constant reason of the status; the only variable part
    (between <p> and </p>) has no < > \" ' and every & starts one of html.escape's five entities."""
    m = PAGE.match(body)
    if not m:
        return ["error page does not have the fixed skeleton (markup outside the template): %r" % body[:200]]
    fails = []
    # title/h1: "<status> <reason>", the status being the one of the case / the status line; the reason is a constant phrase
    # (judged without the tree's own table: letters, digits, space, hyphen, and the apostrophe of "I'm a teapot")
    t = m.group(1)
    if m.group(2) != t or not re.fullmatch(rb"%d ([A-Za-z0-9 -]*|I'm a [Tt]eapot)" % status, t):
        fails.append("title/h1 is not '<status> <constant reason phrase>': %r / %r" % (m.group(1), m.group(2)))
    p = m.group(3)
    bad = sorted(set(c for c in p if c in b"<>\"'"))
    if bad:
        fails.append("unescaped markup character(s) %r in the message part of the page: %r" % (bytes(bad), p[:200]))
    rest = ENT.sub(b"", p)
    if b"&" in rest:
        fails.append("'&' that does not start an escape entity in the message part: %r" % p[:200])
    return fails


def parse_h1_stream(data: bytes):
    """independent reference reader for what the client receives: a sequence of complete HTTP/1.1 responses framed by
    content-length.  returns (responses, leftover)"""
    out = []
    while data:
        i = data.find(b"\r\n\r\n")
        if i < 0: return out, data
        lines = data[:i].split(b"\r\n")
        m = re.fullmatch(rb"HTTP/1\.1 (\d{3}) ([^\r\n]*)", lines[0])
        if not m: return out, data
        hdrs = []
        for l in lines[1:]:
            if b":" not in l: return out, data
            k, v = l.split(b":", 1)
            hdrs.append((k.lower(), v.strip(b" \t")))
        cl = [v for k, v in hdrs if k == b"content-length"]
        if not cl and m.group(1) == b"200" and not hdrs:       # reply to a CONNECT that was accepted: no body, not an error page
            out.append({"status": 200, "headers": [], "body": b"", "raw": data[:i + 4], "established": True})
            data = data[i + 4:]
            continue
        if len(cl) != 1 or not re.fullmatch(rb"\d+", cl[0]): return out, data
        n = int(cl[0]); body = data[i + 4:i + 4 + n]
        if len(body) != n: return out, data
        out.append({"status": int(m.group(1)), "headers": hdrs, "body": body, "raw": data[:i + 4 + n]})
        data = data[i + 4 + n:]
    return out, b""


def msg_of(case) -> str:
    return unhx(case["msg_hex"]).decode("utf-8", "surrogateescape")


# ---------------------------------------------------------------------------------------------------------------
# end-to-end driving
H1_SCENARIOS = ["badline", "badhdr", "badhdrname", "badcl", "dupcl", "tecl", "badhost", "badscheme", "connect", "connfail",
                "badresp", "badresphdr", "badrespcl", "bigreq", "bigresp", "srvclose", "nohost"]
H2_SCENARIOS = ["connfail", "badresp", "badresphdr", "bigreq", "bigresp", "srvclose", "h2badauth", "h2upper"]


class Recorder:
    """records (status, message) of every format_error / make_error_response call while a layer runs"""
    def __init__(self):
        self.calls = []

    def __enter__(self):
        self.orig = (_http1.format_error, _http2.format_error, _http1.make_error_response)
        rec = self

        def fe1(status_code, message):
            out = rec.orig[0](status_code, message); rec.calls.append(("fmt1", status_code, message, out)); return out

        def fe2(status_code, message):
            out = rec.orig[1](status_code, message); rec.calls.append(("fmt2", status_code, message, out)); return out

        def mer(status_code, message=""):
            n = len(rec.calls)
            out = rec.orig[2](status_code, message)
            del rec.calls[n:]            # the nested format_error call is part of this one
            rec.calls.append(("resp", status_code, message, out)); return out
        _http1.format_error, _http2.format_error, _http1.make_error_response = fe1, fe2, mer
        return self

    def __exit__(self, *a):
        _http1.format_error, _http2.format_error, _http1.make_error_response = self.orig


def run_e2e(case):
    from common.world import World, make_context
    from mitmproxy.proxy.layers import http
    from mitmproxy.proxy.layers.http import HTTPMode
    from mitmproxy.test import taddons
    from mitmproxy.addons import proxyserver
    from mitmproxy.connection import Server
    sc, proto = case["sc"], case["proto"]
    mk = unhx(case["mk_hex"])
    mk_text = mk.decode("utf-8", "replace")
    mk_line = bytes(c for c in mk if c not in b"\r\n")          # for places where a newline would end the field
    opt = {}
    if sc in ("bigreq", "bigresp"): opt["body_size_limit"] = "10"
    if case.get("novalidate"): opt["validate_inbound_headers"] = False
    on_connect = (lambda w, c: "connect failed: " + mk_text) if sc == "connfail" else None
    host_hdr = b"Host: a.example\r\n"
    abs_t = b"http://a.example/p"
    req = {
        "badline": b"GET " + mk_line + b" HTTP/1.1\r\n" + host_hdr + b"\r\n",
        "badhdr": b"GET " + abs_t + b" HTTP/1.1\r\n" + host_hdr + mk_line + b"\r\n\r\n",
        "badhdrname": b"GET " + abs_t + b" HTTP/1.1\r\n" + host_hdr + b" " + mk_line + b": v\r\n\r\n",
        "badcl": b"POST " + abs_t + b" HTTP/1.1\r\n" + host_hdr + b"Content-Length: " + mk_line + b"\r\n\r\n",
        "dupcl": b"POST " + abs_t + b" HTTP/1.1\r\n" + host_hdr + b"Content-Length: 1\r\nContent-Length: 1" + mk_line + b"\r\n\r\nx",
        "tecl": b"POST " + abs_t + b" HTTP/1.1\r\n" + host_hdr + b"Transfer-Encoding: chunked, " + mk_line + b"\r\nContent-Length: 1\r\n\r\nx",
        "badhost": b"GET http://" + mk_line + b"/ HTTP/1.1\r\n\r\n",
        "badscheme": b"GET f" + mk_line.replace(b" ", b"").replace(b"/", b"") + b"://a.example/ HTTP/1.1\r\n" + host_hdr + b"\r\n",
        "connect": b"CONNECT " + mk_line + b":443 HTTP/1.1\r\n\r\n",
        "nohost": b"GET /" + mk_line.replace(b" ", b"") + b" HTTP/1.1\r\n\r\n",
        "bigreq": b"POST " + abs_t + b" HTTP/1.1\r\n" + host_hdr + b"X: " + mk_line + b"\r\nContent-Length: 100\r\n\r\n" + b"x" * 100,
    }.get(sc, b"GET " + abs_t + b" HTTP/1.1\r\n" + host_hdr + b"X-M: " + mk_line.replace(b"\t", b" ") + b"\r\n\r\n")
    server_data = {
        "badresp": b"HTTP/1.1 x" + mk_line + b"\r\n\r\n",          # 'x': never a valid status line whatever the marker
        "badresphdr": b"HTTP/1.1 200 OK\r\n" + mk_line.replace(b":", b";") + b"\r\n\r\n",   # no colon: never a valid field
        "badrespcl": b"HTTP/1.1 200 OK\r\nContent-Length: x" + mk_line + b"\r\n\r\n",   # 'x': never a valid length
        "bigresp": b"HTTP/1.1 200 OK\r\nX: " + mk_line + b"\r\nContent-Length: 100\r\n\r\n" + b"y" * 100,
    }.get(sc)
    with taddons.context(proxyserver.Proxyserver()) as tctx, Recorder() as rec:
        for k, v in opt.items(): setattr(tctx.options, k, v)
        ctx = make_context(opts=tctx.options)
        mode = HTTPMode.regular
        if case.get("mode") == "transparent":
            mode = HTTPMode.transparent
            ctx.server = Server(address=("a.example", 80))
        if proto == "h2": ctx.client.alpn = b"h2"
        lay = http.HttpLayer(ctx, mode)
        w = World(lay, ctx, on_connect=on_connect)
        w.start()
        h2c = None
        if proto == "h1":
            cut = case.get("cut", 0)
            segs = [req] if not cut or cut >= len(req) else [req[:cut], req[cut:]]
            for s in segs: w.recv("client", s)
        else:
            import h2.connection, h2.config
            h2c = h2.connection.H2Connection(h2.config.H2Configuration(
                client_side=True, validate_outbound_headers=False, normalize_outbound_headers=False,
                validate_inbound_headers=False))
            h2c.initiate_connection()
            auth = mk_line if sc == "h2badauth" else b"a.example"
            hdrs = [(b":method", b"POST" if sc == "bigreq" else b"GET"), (b":scheme", b"http"), (b":authority", auth), (b":path", b"/p")]
            if sc == "h2upper": hdrs.append((b"X" + mk_line, b"v"))
            else: hdrs.append((b"x-m", mk_line.replace(b"\t", b" ").strip(b" ")))
            if sc == "bigreq":
                hdrs.append((b"content-length", b"100"))
                h2c.send_headers(1, hdrs); h2c.send_data(1, b"x" * 100, end_stream=True)
            else:
                h2c.send_headers(1, hdrs, end_stream=True)
            w.recv("client", h2c.data_to_send())
        if server_data is not None:
            for lab in w.server_labels(): w.recv(lab, server_data)
        if sc == "srvclose":
            for lab in w.server_labels(): w.peer_close(lab)
        wire = w.sent_to("client")
        pages, leftover = [], b""
        if proto == "h1":
            rs, leftover = parse_h1_stream(wire)
            for r in rs:
                if r.get("established"): continue      # bare "200 Connection established": the only non-page a scenario can produce
                pages.append({"status": r["status"], "ct": hx(dict(r["headers"]).get(b"content-type", b"")),
                              "server": hx(dict(r["headers"]).get(b"server", b"")),
                              "body_hex": hx(r["body"]), "raw_hex": hx(r["raw"])})
        else:
            import h2.events
            try:
                evs = h2c.receive_data(wire)
            except Exception as e:  # what we sent is not valid HTTP/2: not a statement of C12, but report it
                evs = []; leftover = b"h2:" + type(e).__name__.encode()
            cur = {}
            for e in evs:
                if isinstance(e, h2.events.ResponseReceived):
                    d = dict(e.headers)
                    cur[e.stream_id] = {"status": int(d.get(b":status", b"0")), "ct": hx(d.get(b"content-type", b"")),
                                        "server": hx(d.get(b"server", b"")), "hdrs": [[hx(k), hx(v)] for k, v in e.headers], "body": b"", "ended": False}
                elif isinstance(e, h2.events.DataReceived) and e.stream_id in cur:
                    cur[e.stream_id]["body"] += e.data
                elif isinstance(e, h2.events.StreamEnded) and e.stream_id in cur:
                    cur[e.stream_id]["ended"] = True
            for sid, p in sorted(cur.items()):
                p["body_hex"] = hx(p.pop("body")); pages.append(p)
        return {"pages": pages, "leftover_hex": hx(leftover), "crash": [e[0] for e in w.errors],
                "calls": [[k, s, hx(m.encode("utf8", "replace")), hx(out)] for k, s, m, out in rec.calls]}


_ERR_CTX = None


HEAD_KINDS = ["none", "100", "102", "103", "101", "200", "404", "200+body"]


def relayed_status(head):
    return 0 if head == "none" else int(head.split("+")[0])


def run_err(case):
    """the real Http1Server: a request arrives (still incomplete), then — depending on case["head"] — a response head is
    relayed to the client through send(ResponseHeaders) (mitmproxy's own 100 Continue, an interim 102/103, a 101, a final
    head, a final head plus part of its body), then send(ResponseProtocolError(code, message)).
    Observed: the bytes relayed before the error, the bytes the error path wrote, whether it closed."""
    global _ERR_CTX
    from common.world import make_context
    from mitmproxy import http as mhttp
    from mitmproxy.proxy import commands, events
    from mitmproxy.connection import ConnectionState
    from mitmproxy.test import taddons
    from mitmproxy.addons import proxyserver
    if _ERR_CTX is None:
        cm = taddons.context(proxyserver.Proxyserver()); _ERR_CTX = (cm, cm.__enter__())
    ctx = make_context(opts=_ERR_CTX[1].options)
    lay = _http1.Http1Server(ctx)
    sent = []

    def run(gen):
        out = list(gen)
        sent.extend(c.data for c in out if isinstance(c, commands.SendData))
        return out
    run(lay.handle_event(events.Start()))
    run(lay.handle_event(events.DataReceived(ctx.client, b"POST /up HTTP/1.1\r\nHost: a.example\r\nConnection: Upgrade\r\n"
                                                          b"Upgrade: foo\r\nContent-Length: 10\r\n\r\nabc")))
    head = case["head"]
    st = relayed_status(head)
    if st:
        if st == 101: hdrs = [(b"Connection", b"Upgrade"), (b"Upgrade", b"foo")]
        elif st >= 200: hdrs = [(b"Content-Length", b"10")]
        else: hdrs = []
        resp = mhttp.Response(b"HTTP/1.1", st, status_codes.RESPONSES.get(st, "X").encode(), mhttp.Headers(hdrs), None, None, 1.0, None)
        run(lay.send(_events.ResponseHeaders(1, resp, False)))
        if head.endswith("+body"):
            run(lay.send(_events.ResponseData(1, b"0123")))
    before = b"".join(sent); sent.clear()
    if not case["canwrite"]: ctx.client.state = ConnectionState.CAN_READ
    cmds = run(lay.send(_events.ResponseProtocolError(1, msg_of(case), _events.ErrorCode(case["code"]))))
    closes = [i for i, c in enumerate(cmds) if isinstance(c, commands.CloseConnection)]
    return {"before_hex": hx(before), "sent_hex": hx(b"".join(sent)), "closed": bool(closes),
            "send_after_close": bool(closes) and any(isinstance(c, commands.SendData) for c in cmds[closes[0]:])}


UPG_REQ = ["ws", "postup", "postup-full", "expect", "connect", "get"]
UPG_SRV = ["refuse", "silent", "100", "101", "101+data", "200part", "200part-stream", "404part-stream"]
AFTER_101 = b"\x81\x05hello"


def read_client_wire(data: bytes):
    """framing reader for what ONE request's client sees: interim heads, then either a 101 (everything after it belongs to
    the upgraded protocol) or one final response.  returns (events, failures)"""
    ev, fails = [], []
    while data:
        i = data.find(b"\r\n\r\n")
        m = re.match(rb"HTTP/1\.1 (\d{3}) [^\r\n]*\r\n", data)
        if i < 0 or not m:
            fails.append("client wire: bytes that are not a response head where one is due: %r" % data[:60]); break
        st = int(m.group(1)); head, data = data[:i + 4], data[i + 4:]
        if st == 101:
            ev.append(("101", st))
            if b"<html" in data or b"HTTP/1." in data:
                fails.append("an HTTP response / HTML page is written into the connection after '101 Switching Protocols': %r" % data[:80])
            return ev, fails
        if 100 <= st <= 199:
            ev.append(("interim", st)); continue
        hdrs = dict((k.lower(), v.strip()) for k, v in (l.split(b":", 1) for l in head.split(b"\r\n")[1:] if b":" in l))
        if st == 200 and len(hdrs) == 0:
            ev.append(("established", st))
            if b"<html" in data or b"HTTP/1." in data:
                fails.append("an HTTP response / HTML page is written into an established CONNECT tunnel: %r" % data[:80])
            return ev, fails
        n = int(hdrs.get(b"content-length", b"0"))
        body, rest = data[:n], data[n:]
        own = hdrs.get(b"server", b"").startswith(b"mitmproxy") and b"x-up" not in hdrs
        ev.append(("page" if own else "relayed", st, len(body) == n))
        if own:
            if len(body) != n: fails.append("error page body shorter than its content-length")
            if hdrs.get(b"content-type") != b"text/html": fails.append("error page without Content-Type text/html")
            fails.extend(scan_page(st, body))
        elif b"<html" in body or b"HTTP/1." in body:
            fails.append("an HTTP response / HTML page is written into the body of the relayed %d response: %r" % (st, body[:80]))
        if rest:
            fails.append("%d bytes after the final response (a second response to one request): %r" % (len(rest), rest[:60]))
        return ev, fails
    return ev, fails


def upg_relayed(case):
    """which response head has reached the client when the upstream dies — from the scenario alone (0: none)"""
    srv = case["srv"]
    if srv in ("101", "101+data"): return 101
    if srv == "200part-stream": return 200
    if srv == "404part-stream": return 404
    return 100 if case["req"] == "expect" else 0       # mitmproxy's own 100 Continue


def run_upg(case):
    """upgrade-style requests (websocket GET, POST + Upgrade with a streamed body, Expect: 100-continue, CONNECT) through the
    real HttpLayer; the upstream dies at a chosen point: refused, silent close, after an interim head, after a 101 head
    (request still uploading or complete), inside a streamed or buffered final response."""
    from common.world import World, make_context
    from mitmproxy.proxy.layers import http
    from mitmproxy.proxy.layers.http import HTTPMode
    from mitmproxy.test import taddons
    from mitmproxy.addons import proxyserver
    req_kind, srv = case["req"], case["srv"]
    mk = unhx(case["mk_hex"]).decode("utf-8", "replace")
    stream_req = case.get("stream_req", True)
    host = b"Host: a.example\r\n"
    req = {
        "ws": b"GET http://a.example/ws HTTP/1.1\r\n" + host + b"Connection: Upgrade\r\nUpgrade: websocket\r\nSec-WebSocket-Key: dGhlIHNhbXBsZSBub25jZQ==\r\nSec-WebSocket-Version: 13\r\n\r\n",
        "postup": b"POST http://a.example/up HTTP/1.1\r\n" + host + b"Connection: Upgrade\r\nUpgrade: foo\r\nContent-Length: 10\r\n\r\nabc",
        "postup-full": b"POST http://a.example/up HTTP/1.1\r\n" + host + b"Connection: Upgrade\r\nUpgrade: foo\r\nContent-Length: 3\r\n\r\nabc",
        "expect": b"POST http://a.example/up HTTP/1.1\r\n" + host + b"Expect: 100-continue\r\nContent-Length: 10\r\n\r\n" + (b"abc" if stream_req else b"0123456789"),
        "connect": b"CONNECT a.example:80 HTTP/1.1\r\nHost: a.example:80\r\n\r\n",
        "get": b"GET http://a.example/x HTTP/1.1\r\n" + host + b"\r\n",
    }[req_kind]
    up101 = b"HTTP/1.1 101 Switching Protocols\r\nConnection: Upgrade\r\nUpgrade: " + (b"websocket" if req_kind == "ws" else b"foo") + b"\r\nX-Up: 1\r\n\r\n"
    server_data = {
        "100": b"HTTP/1.1 100 Continue\r\n\r\n", "101": up101, "101+data": up101 + AFTER_101,
        "200part": b"HTTP/1.1 200 OK\r\nX-Up: 1\r\nContent-Length: 10\r\n\r\n0123",
        "200part-stream": b"HTTP/1.1 200 OK\r\nX-Up: 1\r\nContent-Length: 10\r\n\r\n0123",
        "404part-stream": b"HTTP/1.1 404 Not Found\r\nX-Up: 1\r\nContent-Length: 10\r\n\r\n0123",
    }.get(srv)

    def on_hook(w, h):
        name = getattr(h, "name", "")
        if name == "requestheaders" and stream_req: h.args()[0].request.stream = True
        if name == "responseheaders" and srv.endswith("-stream"): h.args()[0].response.stream = True
    with taddons.context(proxyserver.Proxyserver()) as tctx, Recorder() as rec:
        ctx = make_context(opts=tctx.options)
        lay = http.HttpLayer(ctx, HTTPMode.regular)
        w = World(lay, ctx, on_hook=on_hook, on_connect=(lambda w, c: "refused: " + mk) if srv == "refuse" else None)
        w.start()
        w.recv("client", req)
        if server_data is not None:
            for lab in w.server_labels(): w.recv(lab, server_data)
        for lab in w.server_labels():
            if case.get("death", "close") == "close": w.peer_close(lab)
        return {"wire_hex": hx(w.sent_to("client")), "crash": [e[0] for e in w.errors],
                "calls": [[k, st, hx(m.encode("utf8", "replace")), hx(out)] for k, st, m, out in rec.calls]}


H2_STATES = {"open": (0, 1, 0), "halfclosed": (0, 1, 0), "headers_sent": (0, 1, 1), "ended_local": (0, 0, 1), "client_reset": (1, 0, 0)}


def run_h2err(case):
    """the real Http2Server: a request stream in a chosen state (open / client finished / response HEADERS already sent /
    response finished while the client is still sending / reset by the client), then ResponseProtocolError(code, message);
    what an h2 client sees on that stream afterwards"""
    global _ERR_CTX
    from common.world import make_context
    from mitmproxy import http as mhttp
    from mitmproxy.proxy import commands, events
    from mitmproxy.test import taddons
    from mitmproxy.addons import proxyserver
    import h2.connection, h2.config, h2.events
    if _ERR_CTX is None:
        cm = taddons.context(proxyserver.Proxyserver()); _ERR_CTX = (cm, cm.__enter__())
    ctx = make_context(opts=_ERR_CTX[1].options); ctx.client.alpn = b"h2"
    lay = _http2.Http2Server(ctx)
    out = []

    def run(ev):
        for c in lay.handle_event(ev):
            if isinstance(c, commands.SendData) and c.connection is ctx.client: out.append(c.data)
    run(events.Start())
    cl = h2.connection.H2Connection(h2.config.H2Configuration(client_side=True))
    cl.initiate_connection()
    st = case["state"]
    cl.send_headers(1, [(":method", "POST"), (":scheme", "http"), (":authority", "a.example"), (":path", "/")],
                    end_stream=(st == "halfclosed"))
    run(events.DataReceived(ctx.client, cl.data_to_send()))
    if st in ("headers_sent", "ended_local"):
        run(_events.ResponseHeaders(1, mhttp.Response.make(200, b"", {}), st == "ended_local"))
        if st == "ended_local": run(_events.ResponseEndOfMessage(1))
    if st == "client_reset":
        cl.reset_stream(1); run(events.DataReceived(ctx.client, cl.data_to_send()))
    cl.receive_data(b"".join(out)); out.clear()
    run(_events.ResponseProtocolError(1, msg_of(case), _events.ErrorCode(case["code"])))
    evs = cl.receive_data(b"".join(out))
    res = {"kind": "nothing", "hdrs": [], "body_hex": "-", "ended": False, "reset": None}
    for e in evs:
        if isinstance(e, h2.events.ResponseReceived): res["kind"] = "page"; res["hdrs"] = [[hx(k), hx(v)] for k, v in e.headers]
        elif isinstance(e, h2.events.DataReceived): res["body_hex"] = hx(unhx(res["body_hex"]) + e.data)
        elif isinstance(e, h2.events.StreamEnded): res["ended"] = True
        elif isinstance(e, h2.events.StreamReset): res["kind"] = "reset" if res["kind"] == "nothing" else "page+reset"; res["reset"] = int(e.error_code)
    return res


def json_key(x):
    import json
    return json.dumps(x)


def seq_head(st):
    """(headers, assembled head bytes) of the head the harness relays for status st — computed from what the harness puts in"""
    hdrs = [(b"Connection", b"Upgrade"), (b"Upgrade", b"foo")] if st == 101 else [(b"Content-Length", b"10")] if st >= 200 else []
    reason = status_codes.RESPONSES.get(st, "X").encode()
    return hdrs, b"HTTP/1.1 %d %s\r\n" % (st, reason) + b"".join(k + b": " + v + b"\r\n" for k, v in hdrs) + b"\r\n"


def run_errseq(case):
    """a whole HTTP/1 client connection on the real Http1Server: any sequence of relayed heads, body chunks and errors;
    the transport is emulated as the proxy core does (nothing is written after our close)"""
    global _ERR_CTX
    from common.world import make_context
    from mitmproxy import http as mhttp
    from mitmproxy.proxy import commands, events
    from mitmproxy.connection import ConnectionState
    from mitmproxy.test import taddons
    from mitmproxy.addons import proxyserver
    if _ERR_CTX is None:
        cm = taddons.context(proxyserver.Proxyserver()); _ERR_CTX = (cm, cm.__enter__())
    ctx = make_context(opts=_ERR_CTX[1].options)
    lay = _http1.Http1Server(ctx)
    wire = bytearray()

    def run(gen):
        n = 0
        for c in gen:
            if isinstance(c, commands.SendData) and ctx.client.state & ConnectionState.CAN_WRITE:
                wire.extend(c.data); n += len(c.data)
            elif isinstance(c, commands.CloseConnection):
                ctx.client.state = ConnectionState.CLOSED
        return n
    run(lay.handle_event(events.Start()))
    run(lay.handle_event(events.DataReceived(ctx.client, b"POST /up HTTP/1.1\r\nHost: a.example\r\nContent-Length: 10\r\n\r\nabc")))
    wrote, last = [], 0
    for op in case["ops"]:
        if op[0] == "r":
            hdrs, _ = seq_head(op[1])
            resp = mhttp.Response(b"HTTP/1.1", op[1], status_codes.RESPONSES.get(op[1], "X").encode(), mhttp.Headers(hdrs), None, None, 1.0, None)
            run(lay.send(_events.ResponseHeaders(1, resp, False))); last = op[1]
        elif op[0] == "b":
            run(lay.send(_events.ResponseData(1, b"01")))
        else:
            n = run(lay.send(_events.ResponseProtocolError(1, unhx(op[2]).decode("utf-8", "replace"), _events.ErrorCode(op[1]))))
            wrote.append([last, n])
    return {"wire_hex": hx(bytes(wire)), "wrote": wrote, "open": bool(ctx.client.state & ConnectionState.CAN_WRITE)}


class Check(PropertyCheck):
    prop = "C12"
    design_ref = "§5 C12"
    level_text = ("Lean theorems about the byte-level model of html.escape, textwrap.dedent+strip as used by format_error, "
                  "make_error_response (Response.make + assemble_response) and the HTTP/2 error header list, for ALL "
                  "messages and all status codes 100..999: the escaped message has none of < > \" ' and every & starts one "
                  "of the five entities (and unescaping gives the message back); the page's markup characters are exactly "
                  "those of the fixed template whatever the message; every & of the page starts an entity; an independent "
                  "reference HTTP/1 response reader accepts make_error_response with status, Content-Type text/html, "
                  "Connection close and content-length = body length = the page; the HTTP/1 send site Http1Server.send(ResponseProtocolError) is "
                  "modelled (h1ErrorReply: writable?, response started?, ErrorCode->status) and whatever it writes is proved to be exactly one such "
                  "response for a status 100..999 followed by close, never into a started response (h1_error_reply_wellformed). Model tied to the code byte-for-byte on "
                  "generated (status, message) pairs (formatError, makeErrorResponse, htmlEscape vs html.escape; the reference reader refParse is "
                  "cross-checked against the harness's own framing reader on the real response, its truncation and a surplus byte), on the real Http1Server.send for every ErrorCode x started x writable, and on every format_error/make_error_response call made while real "
                  "HttpLayers (HTTP/1 and HTTP/2) are driven into their error paths; every page on the wire is scanned. The send site takes WHICH "
                  "head was relayed before the error as input (none / own 100 / 102 / 103 / 101 / final / final+body): proved that a page is written "
                  "only before any head, never after a 101 or a final head (error_page_only_before_any_head, wire_unchanged_after_101_or_final); "
                  "tied on the real Http1Server for every ErrorCode x head kind, and end to end on upgrade requests (websocket, POST+Upgrade with a "
                  "streamed body, Expect: 100-continue, CONNECT) with the upstream dying at each point, the client's wire read by a framing reader. "
                  "Whole connection: for EVERY sequence of relayed heads / body chunks / errors at most one page is written and then the wire is "
                  "exactly that response (h1_history_at_most_one_page; tied by op sequences on the real Http1Server). The HTTP/2 send site is "
                  "modelled too (h2ErrorReply: closed / open for us / headers sent, RST_STREAM code table): a page only on a stream without response "
                  "headers, with :status/server/content-type text/html and the page as body (h2_error_reply_page; tied on the real Http2Server for "
                  "every ErrorCode x stream state). Clauses: 'only in escaped form' = escaped_has_no_markup, unescape_escape, page_is_template, "
                  "page_markup_independent, page_amps_ok | oracle scan_page; 'declares an HTML content type' = h1_declares_html + page_wellformed, "
                  "h2_declares_html, h2_error_reply_page | oracle content-type checks; 'complete, correctly framed HTTP/1 response' = page_wellformed, "
                  "h1_error_reply_wellformed, error_page_only_before_any_head, wire_unchanged_after_101_or_final, h1_history_at_most_one_page | "
                  "oracle parse_h1_stream / read_client_wire.")
    level_note = ("trusted: Lean kernel; the differential tie (exhaustive short strings over the special characters + random "
                  "+ end-to-end recorded calls); CPython html.escape / textwrap.dedent / str.strip / str.encode are the modelled "
                  "primitives (UTF-8 encoding commutes with them since they touch ASCII only: messages travel to the model as "
                  "their utf8/replace bytes); the reason-phrase table, the Server header text and the ErrorCode->status map are "
                  "regenerated from /repo into Gen/C12.lean on every run; hpack/h2 framing of the HTTP/2 page is the h2 library's. "
                  "HTTP/3 uses the same format_error and header triple and is not driven end-to-end. Still assumed, not proved: that html.escape / "
                  "dedent / strip commute with UTF-8 encoding (they inspect ASCII only; exercised by non-ASCII, invalid-UTF-8 and look-alike inputs in "
                  "every run); the end-to-end tie replays the (status, message) pairs the code passed to format_error (parser error texts are not "
                  "predicted), page-or-no-page is predicted from the scenario. Observations outside C12: after mitmproxy's own 100 Continue an upstream "
                  "failure closes without any page; a failed CONNECT is answered by a plain-text 502 without Content-Type that carries the upstream "
                  "error text unescaped (not an HTML page, not produced by format_error).")
    technique = "Lean 4 proof (induction over bytes/lines, deletion-relation lemma for dedent/strip) + translator tables + differential and end-to-end correspondence"
    rule = ("fmt: a length ladder {0..64, 255/256/257, every length 1000..1030, 2 KiB, 8 KiB, 64 KiB} x markup density {0,10,50,100 %} and "
            "single-character messages whose ESCAPED length walks over 1000..1030, then every string of length <=2 (thorough: <=3, quick adds a slice of 3) over the 7 special characters & < > \" ' LF SP "
            "with the statuses 400/413/502, then random messages (markup-, entity-fragment-, whitespace/newline- and non-ASCII-heavy, "
            "incl. invalid UTF-8 -> lone surrogates) with random status 100..999; e2e: scenario x protocol x mode x marker (the marker "
            "<script>\"'& or a random markup string) x segmentation. distinct = distinct case; non-trivial = message non-empty / "
            "at least one error page produced. e2e also runs the length ladder (300 B .. 8 KiB, thorough 64 KiB) through request line, "
            "header, authority, upstream error text and server status line.")
    budget = {"quick": 9000, "thorough": 220000}
    time_budget = {"quick": 30, "thorough": 600}
    fingerprints = ["mitmproxy.proxy.layers.http._base:format_error",
                    "mitmproxy.proxy.layers.http._http1:make_error_response",
                    "mitmproxy.proxy.layers.http._http1:Http1Server.send",
                    "mitmproxy.proxy.layers.http._http1:Http1Server.read_headers",
                    "mitmproxy.proxy.layers.http._http2:Http2Connection._handle_event",
                    "mitmproxy.proxy.layers.http._events:ErrorCode.http_status_code",
                    "mitmproxy.http:Response.make",
                    "mitmproxy.net.http.http1.assemble:assemble_response"]
    trusted_base = ["CPython html.escape, textwrap.dedent, str.strip, str.encode('utf8','replace') as the primitives the model transcribes",
                    "h2/hpack framing of the HTTP/2 error response (the check decodes it with the same library)"]
    parallel = False

    def setup(self, tier):
        self.known_selftest()

    def known_selftest(self):
        """C12 has no recorded finding: known() excuses nothing.  Frozen pages keep the oracle itself honest (independent of
        the tree under test): it accepts the genuine page and rejects each kind of leak."""
        assert self.known({"op": "fmt", "status": 400, "msg_hex": "3c"}, {}, "anything") is None
        page = lambda title, p: (b"<html>\n<head>\n    <title>" + title + b"</title>\n</head>\n<body>\n    <h1>" + title +
                                 b"</h1>\n    <p>" + p + b"</p>\n</body>\n</html>")
        ok = [(400, b"400 Bad Request", b"x&lt;script&gt;&quot;&#x27;&amp;"), (418, b"418 I'm a teapot", b""), (599, b"599 Unknown", b"a\nb"),
              (203, b"203 Non-Authoritative Information", b"&amp;amp;")]
        bad = [(400, b"400 Bad Request", b"<"), (400, b"400 Bad Request", b"a>"), (400, b"400 Bad Request", b"'"), (400, b"400 Bad Request", b'"'),
               (400, b"400 Bad Request", b"&x"), (400, b"400 Bad Request", b"&amp"), (400, b"400 Bad Request", b"<a href=x>y</a>"),
               (400, b"502 Bad Gateway", b"x"), (400, b"400 Bad 'Request'", b"x"), (400, b"400 Bad & Request", b"x"), (400, b"400 \"x\"", b"x")]
        for st, t, p in ok:
            assert scan_page(st, page(t, p)) == [], ("oracle self-test: genuine page rejected", st, t, p)
        for st, t, p in bad:
            assert scan_page(st, page(t, p)), ("oracle self-test: leak accepted", st, t, p)
        assert scan_page(400, page(b"400 Bad Request", b"x") + b"<script>")       # markup after the template
        rs, left = parse_h1_stream(b"HTTP/1.1 400 Bad Request\r\ncontent-length: 3\r\n\r\nab")
        assert not rs and left                                                     # truncated body is not a complete response

    # ---- translator ---------------------------------------------------------------------------------------------
    def translate(self):
        rows = sorted(status_codes.RESPONSES.items())
        L = ["/- generated by harness/c12.py translate() from /repo — do not edit -/",
             "import MitmVerif.Basic.Bytes", "namespace MitmVerif.Gen.C12", "open MitmVerif", "",
             "/-- mitmproxy.net.http.status_codes.RESPONSES (status, reason as UTF-8 bytes) -/",
             "def responses : List (Nat × Bytes) := ["]
        L.append(",\n".join(f"  ({k}, {lean_bytes(v.encode())})" for k, v in rows))
        L.append("]\n")
        L.append("/-- mitmproxy.version.MITMPROXY -/")
        L.append(f"def serverHeader : Bytes := {lean_bytes(version.MITMPROXY.encode())}\n")
        L.append("/-- ErrorCode.value -> http_status_code() (0 = None: no error page) -/")
        ec = [(e.value, e.http_status_code() or 0) for e in _events.ErrorCode]
        L.append("def errorStatus : List (Nat × Nat) := [" + ", ".join(f"({a}, {b})" for a, b in ec) + "]\n")
        L.append("end MitmVerif.Gen.C12\n")
        return {"MitmVerif/Gen/C12.lean": "\n".join(L)}

    # ---- generator ----------------------------------------------------------------------------------------------
    def generate(self, rng, tier):
        def fmt(status, s):
            return {"op": "fmt", "status": status, "msg_hex": hx(s.encode("utf-8", "surrogateescape") if isinstance(s, str) else s)}
        # end-to-end grid with the fixed marker
        for proto, scs in (("h1", H1_SCENARIOS), ("h2", H2_SCENARIOS)):
            for sc in scs:
                for mode in ("regular", "transparent"):
                    yield {"op": "e2e", "proto": proto, "sc": sc, "mode": mode, "mk_hex": hx(MARK.encode()), "cut": 0}
        # the HTTP/1 send site: every ErrorCode x WHICH head was relayed before the error x client writable
        for code in _events.ErrorCode:
            for head in HEAD_KINDS:
                for cw in (True, False):
                    if not cw and head not in ("none", "101", "200"): continue
                    yield {"op": "err", "code": code.value, "head": head, "canwrite": cw, "msg_hex": hx(MARK.encode())}
        # whole connections: short op sequences over {relay head, body chunk, error}
        m = hx(MARK.encode())
        heads = [100, 101, 200]
        for a in heads + [None]:
            for b in heads + [None]:
                for code1 in (2, 7):
                    for code2 in (2, 5):
                        ops = ([["r", a]] if a else []) + [["e", code1, m]] + ([["r", b], ["b"]] if b else []) + [["e", code2, m]]
                        yield {"op": "errseq", "ops": ops}
        # the HTTP/2 send site: every ErrorCode x stream state
        for code in _events.ErrorCode:
            for st in H2_STATES:
                yield {"op": "h2err", "code": code.value, "state": st, "msg_hex": hx(MARK.encode())}
        # upgrade-style requests x the point where the upstream dies (which head has been relayed by then)
        for req in UPG_REQ:
            for srv in UPG_SRV:
                for sr in (True, False):
                    if not sr and req != "expect": continue      # buffered variant: the whole body is there
                    yield {"op": "upg", "req": req, "srv": srv, "stream_req": sr, "mk_hex": hx(MARK.encode())}
        # length ladder x markup density: raw and escaped length on either side of every plausible cap (256, 1024, 2K, 8K, 64K)
        for c in self.length_ladder(rng, tier):
            yield c
        yield fmt(400, "")
        maxn = 3 if tier == "thorough" else 2
        for n in range(1, maxn + 1):
            for t in itertools.product(SPECIAL, repeat=n):
                for st in (USED_STATUS if n < 3 else [502]):
                    yield fmt(st, "".join(t))
        if tier == "quick":
            for t in itertools.product("&<'\n ", repeat=3):
                yield fmt(400, "".join(t))
        for st in sorted(status_codes.RESPONSES) + [299, 599, 100, 999]:
            yield fmt(st, MARK)
        for ch in LOOKALIKE:
            yield fmt(502, ch)
            yield fmt(400, "a" + ch + "script" + ch)
        e2e_share = 0.04 if tier == "quick" else 0.02
        while True:
            if rng.chance(e2e_share):
                proto = "h2" if rng.chance(0.35) else "h1"
                sc = rng.pick(H2_SCENARIOS if proto == "h2" else H1_SCENARIOS)
                mk = MARK if rng.chance(0.4) else "".join(rng.pick(ALPHA) for _ in range(rng.randint(1, 12)))
                if rng.chance(0.5): mk = mk + MARK[: rng.randint(1, len(MARK))]
                if rng.chance(0.25):      # long reflected text
                    mk = self.dense(rng, rng.pick([70, 255, 257, rng.randint(1000, 1030), rng.randint(160, 260), 2048, 8192]), rng.pick([0.05, 0.5, 1.0]))
                yield {"op": "e2e", "proto": proto, "sc": sc, "mode": rng.pick(["regular", "regular", "transparent"]),
                       "mk_hex": hx(mk.encode()), "cut": rng.randint(0, 40) if rng.chance(0.4) else 0,
                       "novalidate": rng.chance(0.15)}
                continue
            if rng.chance(0.01):
                rq = rng.pick(UPG_REQ)
                yield {"op": "upg", "req": rq, "srv": rng.pick(UPG_SRV), "stream_req": rq != "expect" or rng.chance(0.6),
                       "mk_hex": hx(self.dense(rng, rng.pick([3, 20, 300]), rng.pick([0.1, 1.0])).encode())}
                continue
            if rng.chance(0.01):
                ops, have_head = [], False
                for _ in range(rng.randint(1, 6)):
                    k = rng.pick("rbee") if have_head else rng.pick("ree")
                    if k == "r": ops.append(["r", rng.pick([100, 101, 103, 200, 404, 502])]); have_head = True
                    elif k == "b": ops.append(["b"])
                    else: ops.append(["e", rng.pick(list(_events.ErrorCode)).value, hx(self.dense(rng, rng.pick([0, 3, 40]), 0.5).encode())])
                yield {"op": "errseq", "ops": ops}
                continue
            if rng.chance(0.01):
                yield {"op": "h2err", "code": rng.pick(list(_events.ErrorCode)).value, "state": rng.pick(sorted(H2_STATES)),
                       "msg_hex": hx(self.dense(rng, rng.pick([0, 3, 20, 300, 1025]), rng.pick([0.1, 1.0])).encode())}
                continue
            if rng.chance(0.03):
                yield {"op": "err", "code": rng.pick(list(_events.ErrorCode)).value, "head": rng.pick(HEAD_KINDS), "canwrite": rng.chance(0.85),
                       "msg_hex": hx(self.dense(rng, rng.pick([0, 3, 20, 300, 1025]), rng.pick([0.1, 1.0])).encode())}
                continue
            r = rng.random()
            n = rng.weighted([(70, rng.randint(1, 40)), (12, rng.randint(41, 300)), (10, rng.randint(300, 1100)),
                              (6, rng.randint(1000, 1030)), (2, rng.randint(1100, 9000))])
            if n > 40 and rng.chance(0.6):
                yield fmt(rng.pick(USED_STATUS), self.dense(rng, n, rng.pick([0.0, 0.02, 0.2, 0.5, 1.0])))
                continue
            if r < 0.7:
                s = "".join(rng.pick(ALPHA) for _ in range(n)).encode()
            elif r < 0.9:   # realistic message with one mutation
                base = rng.pick(["Bad HTTP request line: b'GET %s HTTP/1.1'", "connect failed: %s", "Invalid header line: b'%s'",
                                 "   %s\n  x", "\n    %s", "a\n\t%s\n \n", "&amp;%s&lt", "&#x27;%s"])
                s = (base % "".join(rng.pick(ALPHA) for _ in range(rng.randint(0, 8)))).encode()
            else:
                s = rng.bytes_(n)
            st = rng.pick(USED_STATUS) if rng.chance(0.6) else rng.randint(100, 999)
            yield fmt(st, s)

    @staticmethod
    def dense(rng, n, density, chars="<>&\"'"):
        """n characters, each a markup character with probability `density`, else filler"""
        return "".join(rng.pick(chars) if rng.random() < density else rng.pick("ab c") for _ in range(n))

    def length_ladder(self, rng, tier):
        def fmt(status, s):
            return {"op": "fmt", "status": status, "msg_hex": hx(s.encode())}
        lengths = [0, 1, 2, 3, 7, 8, 15, 16, 31, 32, 33, 48, 63, 64, 255, 256, 257] + list(range(1000, 1031)) + [2048, 8192, 65536]
        for n in lengths:
            for d in (0.0, 0.1, 0.5, 1.0):
                if n == 0 and d: continue
                yield fmt(rng.pick(USED_STATUS), self.dense(rng, n, d))
        # escaped length 1000..1030 while the raw text is well below: one kind of character, 4/5/6 bytes per entity
        for ch, k in (("<", 4), ("&", 5), ("\"", 6), ("'", 6)):
            for esc_len in range(1000, 1031):
                if esc_len % k == 0 or esc_len in (1023, 1024, 1025):
                    yield fmt(400, ch * (esc_len // k) + "x" * (esc_len % k))
        # the same ladder end-to-end: long request line / header / authority / upstream error text / server status line
        e2e_len = [300, 1000, 1023, 1024, 1025, 1030, 2048, 8192] + ([65536] if tier == "thorough" else [])
        for n in e2e_len:
            for d in (0.1, 1.0):
                for proto, sc in (("h1", "badline"), ("h1", "badhdr"), ("h1", "badhost"), ("h1", "connfail"), ("h1", "badresp"),
                                  ("h1", "badcl"), ("h2", "connfail"), ("h2", "badresp")):
                    if tier == "quick" and n in (1000, 1030, 8192) and d == 0.1: continue
                    yield {"op": "e2e", "proto": proto, "sc": sc, "mode": "regular", "mk_hex": hx(self.dense(rng, n, d).encode()), "cut": 0}
        # dense-but-short markers: escaped > 1024 although raw < 1024
        for n in (171, 205, 260, 600):
            for proto, sc in (("h1", "badline"), ("h1", "connfail"), ("h2", "connfail")):
                yield {"op": "e2e", "proto": proto, "sc": sc, "mode": "regular", "mk_hex": hx(self.dense(rng, n, 1.0).encode()), "cut": 0}

    # ---- implementation -----------------------------------------------------------------------------------------
    def impl(self, case):
        if case["op"] == "fmt":
            msg = msg_of(case)
            st = case["status"]
            page = _base.format_error(st, msg)
            resp = _http1.make_error_response(st, msg)
            return {"page_hex": hx(page), "resp_hex": hx(resp), "model_msg_hex": hx(msg.encode("utf8", "replace"))}
        if case["op"] == "err":
            return run_err(case)
        if case["op"] == "h2err":
            return run_h2err(case)
        if case["op"] == "errseq":
            return run_errseq(case)
        if case["op"] == "upg":
            obs = run_upg(case)
            self._stash = (self._key(case), obs)
            return obs
        obs = run_e2e(case)
        self._stash = (self._key(case), obs)
        return obs

    # ---- oracle -------------------------------------------------------------------------------------------------
    def oracle(self, case, obs):
        fails = []
        if case["op"] == "fmt":
            st = case["status"]
            fails += scan_page(st, unhx(obs["page_hex"]))
            rs, left = parse_h1_stream(unhx(obs["resp_hex"]))
            # sentence 3: 'for HTTP/1 is a complete, correctly framed response'
            if len(rs) != 1 or left:
                fails.append("make_error_response output is not one complete content-length framed HTTP/1.1 response")
            else:
                r = rs[0]
                if r["status"] != st: fails.append(f"status line says {r['status']}, not {st}")
                # sentence 2: 'declares an HTML content type'
                if dict(r["headers"]).get(b"content-type") != b"text/html":
                    fails.append("HTTP/1 error response does not declare Content-Type: text/html")
                fails += scan_page(st, r["body"])
            return fails
        if case["op"] == "err":
            sent = unhx(obs["sent_hex"])
            if not sent: return []
            st0 = relayed_status(case["head"])          # input: which head the harness had relayed before the error
            if st0 == 101 or st0 >= 200:
                # 'a complete, correctly framed response': after a 101 the connection speaks another protocol, after a final
                # head the client is reading that response — anything written there is not a correctly framed response
                return [f"error path wrote {len(sent)} bytes after a relayed {case['head']} head: {sent[:60]!r}"]
            # whatever is written must be one complete framed HTML error response, properly escaped, and nothing after it
            rs, left = parse_h1_stream(sent)
            if len(rs) != 1 or left or obs["send_after_close"]:
                return ["Http1Server.send(ResponseProtocolError) wrote something that is not one complete framed response"]
            if dict(rs[0]["headers"]).get(b"content-type") != b"text/html":
                fails.append("HTTP/1 error response does not declare Content-Type: text/html")
            return fails + scan_page(rs[0]["status"], rs[0]["body"])
        if case["op"] == "errseq":
            for last, n in obs["wrote"]:
                if n and (last == 101 or last >= 200):
                    fails.append(f"error path wrote {n} bytes after a relayed {last} head")
            if sum(1 for _, n in obs["wrote"] if n) > 1:
                fails.append("more than one error response written on one connection")
            return fails
        if case["op"] == "h2err":
            if not obs["kind"].startswith("page"): return []
            d = dict((unhx(k), unhx(v)) for k, v in obs["hdrs"])
            if d.get(b"content-type") != b"text/html": fails.append("HTTP/2 error page without content-type text/html")
            if not obs["ended"] or obs["kind"] != "page": fails.append("HTTP/2 error page stream not ended cleanly")
            return fails + scan_page(int(d.get(b":status", b"0")), unhx(obs["body_hex"]))
        if case["op"] == "upg":
            if obs["crash"]: fails.append("layer raised %s while the upstream died" % obs["crash"][0])
            return fails + read_client_wire(unhx(obs["wire_hex"]))[1]
        if len(obs["pages"]) > 1:
            # one request was sent: a second response after a final head is not a correctly framed answer
            fails.append("more than one response written for one request (%d)" % len(obs["pages"]))
        if obs["crash"]:
            fails.append("layer raised %s while producing the error response" % obs["crash"][0])
        if obs["leftover_hex"] != "-":
            fails.append("client stream is not a sequence of complete, correctly framed responses; leftover %r" % unhx(obs["leftover_hex"])[:120])
        for p in obs["pages"]:
            # every response a scenario can put on the client's wire is generated by mitmproxy itself (the upstream never
            # sends a relayable response: see run_e2e) — no abstention on the Server header or anything else the page carries
            if unhx(p["ct"]) != b"text/html":
                fails.append("error page without Content-Type text/html: %r" % unhx(p["ct"]))
            if case["proto"] == "h2" and not p.get("ended"):
                fails.append("HTTP/2 error page stream not ended")
            fails += scan_page(p["status"], unhx(p["body_hex"]))
        return fails

    # ---- model tie ----------------------------------------------------------------------------------------------
    def model_lines(self, case):
        if case["op"] == "fmt":
            m = hx(msg_of(case).encode("utf8", "replace"))
            lines = [f"fmt {case['status']} {m}", f"resp {case['status']} {m}", f"esc {m}"]
            # the Lean reference reader (refParse) and the harness's own framing reader on the same bytes
            for b in self.reader_inputs(case):
                lines.append(f"parse {hx(b)}")
            return lines
        if case["op"] == "err":
            mm = hx(msg_of(case).encode("utf8", "replace"))
            return [f"errh {int(case['canwrite'])} {relayed_status(case['head'])} {case['code']} {mm}",
                    f"err {int(case['canwrite'])} {int(relayed_status(case['head']) != 0)} {case['code']} {mm}"]
        if case["op"] == "errseq":
            fs = []
            for op in case["ops"]:
                if op[0] == "r": fs.append(f"r:{op[1]}:{hx(seq_head(op[1])[1])}")
                elif op[0] == "b": fs.append("b:" + hx(b"01"))
                else: fs.append(f"e:{op[1]}:" + hx(unhx(op[2]).decode("utf-8", "replace").encode("utf8", "replace")))
            return ["h1seq " + ",".join(fs)]
        if case["op"] == "h2err":
            c, o, h = H2_STATES[case["state"]]
            return [f"h2err {c} {o} {h} {case['code']} " + hx(msg_of(case).encode("utf8", "replace"))]
        if case["op"] == "upg":
            obs = self._stash[1] if getattr(self, "_stash", (None,))[0] == self._key(case) else self.impl(case)
            out = [("resp" if kind == "resp" else "fmt") + f" {st} {m}" for kind, st, m, _ in obs["calls"]]
            if case["req"] != "connect":      # page or not, predicted from the scenario alone (CONNECT failures are not format_error pages)
                out.append(f"errh 1 {upg_relayed(case)} {5 if case['srv'] == 'refuse' else 2} 78")
            return out
        # e2e: the lines replay the format_error / make_error_response calls recorded while the layer ran
        # (impl() of the same case has just run in this process; otherwise run it)
        obs = self._stash[1] if getattr(self, "_stash", (None,))[0] == self._key(case) else self.impl(case)
        out = []
        for kind, st, m, _ in obs["calls"]:
            out.append(("resp" if kind == "resp" else "fmt") + f" {st} {m}")
        for p in self._own_pages(obs):
            if case["proto"] == "h2": out.append(f"h2hdr {p['status']}")
        return out

    @staticmethod
    def reader_inputs(case):
        """byte strings both readers are asked about: the model-independent, input-derived expected response (built by the harness from
        the real output length only where unavoidable is avoided: we take the REAL response), the same without its last byte, and
        with one surplus byte"""
        resp = _http1.make_error_response(case["status"], msg_of(case))
        return [resp, resp[:-1], resp + b"x"]

    @staticmethod
    def harness_reader(b):
        rs, left = parse_h1_stream(b)
        if len(rs) == 1 and not left and not rs[0].get("established"):
            return f"ok {rs[0]['status']} {hx(rs[0]['body'])}"
        return "err"

    @staticmethod
    def _key(case):
        import json
        return json.dumps(case, sort_keys=True)

    @staticmethod
    def _own_pages(obs):
        return list(obs["pages"])

    def model_obs(self, case, replies):
        if case["op"] == "upg":
            r = list(replies)
            if case["req"] != "connect": r[-1] = "nopage" if r[-1].startswith("nopage") else "page"
            return r
        return list(replies) + (["unmatched=0"] if case["op"] == "e2e" else [])

    def impl_view(self, case, obs):
        if case["op"] == "errseq":
            return [f"{obs['wire_hex']} {sum(1 for _, n in obs['wrote'] if n)} {'open' if obs['open'] else 'closed'}"]
        if case["op"] == "h2err":
            if obs["kind"] == "nothing": return ["nothing"]
            if obs["kind"] == "reset": return [f"reset {obs['reset']}"]
            return [obs["kind"] + " " + ",".join(f"{k}:{v}" for k, v in obs["hdrs"]) + " " + obs["body_hex"]]
        if case["op"] == "upg":
            v = [c[3] for c in obs["calls"]]
            if case["req"] != "connect":
                ev = read_client_wire(unhx(obs["wire_hex"]))[0]
                v.append("page" if any(e[0] == "page" for e in ev) else "nopage")
            return v
        if case["op"] == "err":
            return [("nopage" if obs["sent_hex"] == "-" else obs["sent_hex"]) + (" close" if obs["closed"] else " open")] * 2
        if case["op"] == "fmt":
            return [obs["page_hex"], obs["resp_hex"], hx(html.escape(msg_of(case)).encode("utf8", "replace"))] + \
                   [self.harness_reader(b) for b in self.reader_inputs(case)]
        outs = [c[3] for c in obs["calls"]]
        v = list(outs)
        unmatched = 0
        for p in self._own_pages(obs):
            if case["proto"] == "h2":
                v.append(",".join(f"{k}:{val}" for k, val in p["hdrs"]))
                if p["body_hex"] not in outs: unmatched += 1
            elif p["raw_hex"] not in outs: unmatched += 1
        return v + [f"unmatched={unmatched}"]

    def classify(self, case, obs):
        if case["op"] == "errseq":
            return ("errseq", json_key(case["ops"]))
        if case["op"] == "h2err":
            return ("h2err", case["code"], case["state"], case["msg_hex"])
        if case["op"] == "upg":
            return ("upg", case["req"], case["srv"], case.get("stream_req"), case["mk_hex"])
        if case["op"] == "err":
            return ("err", case["code"], case["head"], case["canwrite"], case["msg_hex"])
        if case["op"] == "fmt":
            return None if case["msg_hex"] == "-" else ("fmt", case["status"], case["msg_hex"])
        if not obs["pages"]: return None
        return ("e2e", case["proto"], case["sc"], case.get("mode"), case["mk_hex"], case.get("cut", 0), bool(case.get("novalidate")))

    def branches(self, case, obs):
        if case["op"] == "errseq":
            return [f"errseq:pages={sum(1 for _, n in obs['wrote'] if n)}:" + ("open" if obs["open"] else "closed")]
        if case["op"] == "h2err":
            return [f"h2err:{case['state']}:{obs['kind']}"]
        if case["op"] == "upg":
            ev = read_client_wire(unhx(obs["wire_hex"]))[0]
            return [f"upg:{case['req']}:{case['srv']}:" + "+".join(e[0] for e in ev)]
        if case["op"] == "err":
            return ["err:after-" + case["head"] + (":page" if obs["sent_hex"] != "-" else ":no-page") + (":close" if obs["closed"] else ":untouched")]
        if case["op"] == "fmt":
            m = unhx(case["msg_hex"])
            out = ["fmt"]
            if any(c in m for c in b"<>\"'&"): out.append("fmt:has-markup")
            if b"\n" in m: out.append("fmt:multi-line(dedent)")
            if any(c > 0x7f for c in m): out.append("fmt:non-ascii")
            if case["status"] not in status_codes.RESPONSES: out.append("fmt:unknown-status")
            return out
        n = len(obs["pages"])
        out = [f"e2e:{case['proto']}:{case['sc']}:pages={n}"]
        mk = html.escape(unhx(case["mk_hex"]).decode("utf-8", "replace")).encode()
        if any(b"&lt;" in unhx(p["body_hex"]) or b"&#x27;" in unhx(p["body_hex"]) or b"&quot;" in unhx(p["body_hex"]) for p in obs["pages"]):
            out.append("e2e:page-reflects-escaped-input")
        if n > 1: out.append("e2e:more-than-one-page")
        return out

    def neighbours(self, case, rng):
        if case["op"] != "fmt": return
        m = unhx(case["msg_hex"])
        for i in range(len(m) + 1):
            for c in b"<>\"'&\n ":
                yield {"op": "fmt", "status": case["status"], "msg_hex": hx(m[:i] + bytes([c]) + m[i:])}

    def exhaustive(self, tier):
        for n in (1, 2, 3):
            for t in itertools.product(SPECIAL + "a;", repeat=n):
                yield {"op": "fmt", "status": 400, "msg_hex": hx("".join(t).encode())}
        for proto, scs in (("h1", H1_SCENARIOS), ("h2", H2_SCENARIOS)):
            for sc in scs:
                for mk in (MARK, "<", ">", "\"", "'", "&", "a\n<b"):
                    yield {"op": "e2e", "proto": proto, "sc": sc, "mode": "regular", "mk_hex": hx(mk.encode()), "cut": 0}
