"""C13 — ClientHello parsing is total and independent of segmentation.

Anchors: mitmproxy/proxy/layers/tls.py (handshake_record_contents, get_client_hello, parse_client_hello and the
DTLS variants, ClientTLSLayer.receive_handshake_data), mitmproxy/tls.py (ClientHello accessors),
mitmproxy/contrib/kaitaistruct/{tls,dtls}_client_hello.py, mitmproxy/net/tls.py (starts_like_*_record).

Ground truth is an independent ClientHello builder + strict reader written here (nothing of mitmproxy is used
for it) and real ClientHellos emitted by CPython `ssl` / pyOpenSSL memory-BIO clients.
"""
import hashlib, itertools, re, ssl, struct
from common.check import PropertyCheck, Skip, hx, unhx

from mitmproxy.net import check as netcheck
from mitmproxy.net import tls as net_tls
from mitmproxy.proxy.layers import tls as tls_layer

ALLOWED_OUTCOMES = ("incomplete", "hello", "invalid")


# =================================================================================================
# independent builder (ground truth side)
# =================================================================================================
def u8(n): return struct.pack("!B", n)
def u16(n): return struct.pack("!H", n)
def u24(n): return struct.pack("!I", n)[1:]


def build_ext(e) -> tuple[int, bytes]:
    t = e["t"]
    if t == "sni":
        lst = b"".join(u8(nt) + u16(len(unhx(h))) + unhx(h) for nt, h in e["names"])
        return 0, u16(len(lst)) + lst
    if t == "alpn":
        lst = b"".join(u8(len(unhx(h))) + unhx(h) for h in e["protos"])
        return 16, u16(len(lst)) + lst
    return e["typ"], unhx(e["data_hex"])


def build_body(spec) -> bytes:
    """ClientHello body (RFC 5246 §7.4.1.2 / RFC 6347 §4.2.1), without the handshake header."""
    b = unhx(spec["ver_hex"]) + unhx(spec["random_hex"])
    sid = unhx(spec["sid_hex"]); b += u8(len(sid)) + sid
    if spec["dtls"]:
        ck = unhx(spec.get("cookie_hex", "-")); b += u8(len(ck)) + ck
    b += u16(2 * len(spec["ciphers"])) + b"".join(u16(c) for c in spec["ciphers"])
    comp = unhx(spec["comp_hex"]); b += u8(len(comp)) + comp
    if spec["exts"] is not None:
        ex = b""
        for e in spec["exts"]:
            typ, data = build_ext(e)
            ex += u16(typ) + u16(len(data)) + data
        b += u16(len(ex)) + ex
    return b


def chunk(data: bytes, sizes) -> list[bytes]:
    """split into non-empty chunks with the given sizes; the remainder (if any) forms the last chunk"""
    out, pos = [], 0
    for s in sizes or []:
        if s <= 0 or pos >= len(data): continue
        out.append(data[pos:pos + s]); pos += s
    if pos < len(data): out.append(data[pos:])
    # a record length is a u16: no piece can exceed 65535 bytes
    return [c[i:i + 65535] for c in out for i in range(0, len(c), 65535)]


def tls_records(msg: bytes, sizes, recvers=None) -> bytes:
    out = b""
    for i, c in enumerate(chunk(msg, sizes)):
        v = (recvers or [1])[min(i, len(recvers or [1]) - 1)]
        out += b"\x16\x03" + u8(v) + u16(len(c)) + c
    return out


def dtls_records(payloads, recvers=None, epoch_seq0=0) -> bytes:
    out = b""
    for i, c in enumerate(payloads):
        v = (recvers or [0xFF])[min(i, len(recvers or [0xFF]) - 1)]
        out += b"\x16\xfe" + u8(v) + u16(0) + struct.pack("!Q", epoch_seq0 + i)[2:] + u16(len(c)) + c
    return out


def dtls_fragments(body: bytes, frag_sizes, msg_seq=0) -> list[bytes]:
    """RFC 6347 §4.2.3: every fragment carries the full handshake header with its own offset/length"""
    out, off = [], 0
    for piece in (chunk(body, frag_sizes) or [b""]):
        out.append(b"\x01" + u24(len(body)) + u16(msg_seq) + u24(off) + u24(len(piece)) + piece)
        off += len(piece)
    return out


def build_wire(spec, frag_sizes="spec") -> bytes:
    body = build_body(spec)
    if not spec["dtls"]:
        msg = b"\x01" + u24(len(body)) + body
        return tls_records(msg, spec.get("chunks"), spec.get("recvers")) + unhx(spec.get("trail_hex", "-"))
    frags = dtls_fragments(body, spec.get("frags") if frag_sizes == "spec" else frag_sizes)
    per = spec.get("frags_per_record", 1)
    payloads = [b"".join(frags[i:i + per]) for i in range(0, len(frags), per)]
    return dtls_records(payloads, spec.get("recvers")) + unhx(spec.get("trail_hex", "-"))


_LDH = re.compile(rb"^[A-Za-z0-9]([A-Za-z0-9-]{0,61}[A-Za-z0-9])?$")


def rfc_hostname(name: bytes, alabel_ok=False) -> bool:
    """RFC 6066 §3 HostName: ASCII DNS name, LDH labels, no trailing dot; labels with '--' in positions 3-4 are
    reserved (RFC 5890 §2.3.1) and only demanded when the generator made them as valid A-labels."""
    if not name or len(name) > 253: return False
    for lab in name.split(b"."):
        if not _LDH.match(lab) or lab.endswith(b"\n"): return False
        if lab[2:4] == b"--" and not alabel_ok: return False
    return True


def truth_from_exts(ciphers, exts, alabel_ok=False):
    """what an independent reader reports. exts: list of (typ, raw, parsed) ; parsed: names / protos / None"""
    snis = [p for t, _, p in exts if t == 0]
    alpns = [p for t, _, p in exts if t == 16]
    tr = {"ciphers": list(ciphers), "exts": [[t, hx(raw)] for t, raw, _ in exts],
          "alpn": [hx(p) for p in alpns[0]] if alpns else []}
    # SNI: demanded exactly when there is no server_name extension, or a single one with a single host_name entry
    # holding an RFC-legal host name. Everything else is "unusual": mitmproxy may report None or one of the names.
    if not snis:
        tr["sni"] = ["exact", None]
    elif len(snis) == 1 and len(snis[0]) == 1 and snis[0][0][0] == 0 and rfc_hostname(snis[0][0][1], alabel_ok):
        tr["sni"] = ["exact", snis[0][0][1].decode("ascii")]
    else:
        # only host_name (type 0) entries can ever be the SNI; without any the answer is None
        hosts = sorted({n.decode("latin-1") for s in snis for t, n in s if t == 0})
        tr["sni"] = ["oneof", hosts] if hosts else ["exact", None]
    return tr


def truth_from_spec(spec):
    exts = []
    for e in spec["exts"] or []:
        typ, data = build_ext(e)
        parsed = None
        if e["t"] == "sni": parsed = [(nt, unhx(h)) for nt, h in e["names"]]
        if e["t"] == "alpn": parsed = [unhx(h) for h in e["protos"]]
        exts.append((typ, data, parsed))
    return truth_from_exts(spec["ciphers"], exts, bool(spec.get("alabel")))


# =================================================================================================
# independent strict reader (ground truth for real hellos)
# =================================================================================================
class NotWellFormed(Exception):
    pass


class Rd:
    def __init__(self, b): self.b, self.p = bytes(b), 0
    def take(self, n):
        if self.p + n > len(self.b): raise NotWellFormed("short")
        r = self.b[self.p:self.p + n]; self.p += n; return r
    def u(self, n): return int.from_bytes(self.take(n), "big")
    def vec(self, lenbytes): return self.take(self.u(lenbytes))
    def eof(self): return self.p == len(self.b)
    def end(self):
        if not self.eof(): raise NotWellFormed("trailing bytes")


def strict_handshake_body(data: bytes, dtls: bool) -> bytes:
    r = Rd(data)
    if not dtls:
        msg = b""
        while True:
            if r.u(1) != 0x16 or r.u(1) != 3 or r.u(1) > 4: raise NotWellFormed("record header")
            frag = r.vec(2)
            if not frag: raise NotWellFormed("empty record")
            msg += frag
            if len(msg) >= 4 and len(msg) >= 4 + int.from_bytes(msg[1:4], "big"): break
        if msg[0] != 1: raise NotWellFormed("not a ClientHello")
        return msg[4:4 + int.from_bytes(msg[1:4], "big")]
    total, got = None, {}
    while True:
        if r.u(1) != 0x16 or r.u(1) != 0xFE or r.u(1) not in (0xFF, 0xFD, 0xFC): raise NotWellFormed("record header")
        r.take(8)
        rec = Rd(r.vec(2))
        while not rec.eof():
            if rec.u(1) != 1: raise NotWellFormed("not a ClientHello")
            ln, _seq, off, flen = rec.u(3), rec.u(2), rec.u(3), rec.u(3)
            if total is None: total = ln
            if ln != total or off + flen > ln: raise NotWellFormed("fragment header")
            got[off] = rec.take(flen)
        body, pos = b"", 0
        while pos in got and got[pos]:
            piece = got[pos]
            body += piece; pos += len(piece)
        if total is not None and len(body) >= total: return body[:total]


def strict_read(data: bytes, dtls: bool):
    r = Rd(strict_handshake_body(data, dtls))
    r.take(2); r.take(32)
    if len(r.vec(1)) > 32: raise NotWellFormed("session id")
    if dtls: r.vec(1)
    cs = r.vec(2)
    if len(cs) % 2 or not cs: raise NotWellFormed("cipher suites")
    ciphers = [int.from_bytes(cs[i:i + 2], "big") for i in range(0, len(cs), 2)]
    if not r.vec(1): raise NotWellFormed("compression")
    exts = []
    if not r.eof():
        er = Rd(r.vec(2)); r.end()
        while not er.eof():
            typ = er.u(2); raw = er.vec(2); parsed = None
            if typ == 0:
                x = Rd(raw); lst = Rd(x.vec(2)); x.end(); parsed = []
                while not lst.eof(): parsed.append((lst.u(1), lst.vec(2)))
                if not parsed: raise NotWellFormed("empty server_name list")
            elif typ == 16:
                x = Rd(raw); lst = Rd(x.vec(2)); x.end(); parsed = []
                while not lst.eof(): parsed.append(lst.vec(1))
                if not parsed or any(not p for p in parsed): raise NotWellFormed("alpn")
            exts.append((typ, raw, parsed))
        if len({t for t, _, _ in exts}) != len(exts): raise NotWellFormed("duplicate extension")
    return truth_from_exts(ciphers, exts, alabel_ok=True)


def tls_message_of(data: bytes) -> bytes:
    """handshake message bytes carried by a sequence of TLS records (harness record reader)"""
    r, msg = Rd(data), b""
    while not r.eof():
        r.take(3); msg += r.vec(2)
    return msg


# =================================================================================================
# real clients
# =================================================================================================
def real_tls_ssl(sni, alpn, max12=False):
    ctx = ssl.SSLContext(ssl.PROTOCOL_TLS_CLIENT); ctx.check_hostname = False; ctx.verify_mode = ssl.CERT_NONE
    if max12: ctx.maximum_version = ssl.TLSVersion.TLSv1_2
    if alpn: ctx.set_alpn_protocols([a.decode() for a in alpn])
    i, o = ssl.MemoryBIO(), ssl.MemoryBIO()
    s = ctx.wrap_bio(i, o, server_hostname=sni.decode() if sni else None)
    try: s.do_handshake()
    except ssl.SSLWantReadError: pass
    return o.read()


def real_openssl(dtls, sni, alpn, mtu=None, ciphers=None):
    from OpenSSL import SSL
    ctx = SSL.Context(SSL.DTLS_CLIENT_METHOD if dtls else SSL.TLS_CLIENT_METHOD)
    if dtls and mtu: ctx.set_options(0x1000)  # SSL_OP_NO_QUERY_MTU (memory BIOs cannot be asked for an MTU)
    if alpn: ctx.set_alpn_protos(list(alpn))
    if ciphers: ctx.set_cipher_list(ciphers)
    c = SSL.Connection(ctx); c.set_connect_state()
    if sni: c.set_tlsext_host_name(sni)
    if dtls and mtu: c.set_ciphertext_mtu(mtu)
    try: c.do_handshake()
    except SSL.WantReadError: pass
    out = b""
    while True:
        try: out += c.bio_read(65535)
        except SSL.WantReadError: break
    return out


# =================================================================================================
# running the implementation
# =================================================================================================
def view_hello(ch):
    return {"o": "hello", "sni": ch.sni, "alpn": [hx(a) for a in ch.alpn_protocols],
            "ciphers": list(ch.cipher_suites), "exts": [[t, hx(b)] for t, b in ch.extensions]}


def run_parse(dtls, data):
    """parse_client_hello / dtls_parse_client_hello; documented outcomes: None | ClientHello | ValueError."""
    try:
        r = (tls_layer.dtls_parse_client_hello if dtls else tls_layer.parse_client_hello)(data)
        if r is None: return {"o": "incomplete"}
        if not isinstance(r, tls_layer.ClientHello): return {"o": "exc", "type": "returned " + type(r).__name__}
        return view_hello(r)
    except ValueError as e:
        # "Raises: a ValueError, if the passed ClientHello is invalid" — subclasses such as UnicodeDecodeError are not that
        if type(e) is ValueError: return {"o": "invalid"}
        return {"o": "exc", "type": type(e).__name__}
    except Exception as e:
        return {"o": "exc", "type": type(e).__name__}


def drive_layer(dtls, segs):
    """ClientTLSLayer fed segment by segment; observed: ClientHelloData at tls_clienthello / 'Cannot parse ClientHello'."""
    from common.world import World, make_context
    ctx = make_context("udp" if dtls else "tcp")
    server_layer = tls_layer.ServerTLSLayer(ctx)
    client_layer = tls_layer.ClientTLSLayer(ctx)
    server_layer.child_layer = client_layer
    res = []

    def on_hook(w, h):
        if h.name == "tls_clienthello":
            v = view_hello(h.data.client_hello)
            if ctx.client.sni != v["sni"] or [hx(a) for a in ctx.client.alpn_offers] != v["alpn"]:
                v = {"o": "exc", "type": "client.sni/alpn_offers differ from ClientHelloData"}
            res.append(v)
            return "defer"
        if h.name == "tls_failed_client":
            err = h.data.conn.error or ""
            res.append({"o": "invalid"} if err.startswith("Cannot parse ClientHello") else {"o": "exc", "type": "tls_failed: " + err[:60]})
        return None

    w = World(server_layer, ctx, on_hook=on_hook)
    w.start()
    for s in segs:
        if res: break
        w.recv("client", s)
    if w.errors: return {"o": "exc", "type": w.errors[0][0]}
    return res[0] if res else {"o": "incomplete"}


def cut(data: bytes, cuts):
    pts = sorted({c for c in (cuts or []) if 0 < c < len(data)})
    return [data[a:b] for a, b in zip([0] + pts, pts + [len(data)])]


def truth_fails(tr, r):
    if r.get("o") != "hello": return [f"outcome {r.get('o')} ({r.get('type', '')})"]
    out = []
    for k in ("alpn", "ciphers", "exts"):
        if r[k] != tr[k]: out.append(f"{k}: mitmproxy {str(r[k])[:120]} vs independent reader {str(tr[k])[:120]}")
    mode, want = tr["sni"]
    if mode == "exact" and r["sni"] != want: out.append(f"sni: mitmproxy {r['sni']!r} vs independent reader {want!r}")
    if mode == "oneof" and r["sni"] is not None and r["sni"] not in want: out.append(f"sni {r['sni']!r} is none of the offered names")
    return out


def lib_ace(nm: bytes) -> bool:
    """library answer HostLib.ace: does bytes.decode('idna') succeed"""
    try:
        nm.decode("idna"); return True
    except ValueError:
        return False


def lib_ip(hb: bytes) -> bool:
    """library answer HostLib.ip: does ipaddress.ip_address(host.decode('idna')) succeed"""
    import ipaddress
    try:
        ipaddress.ip_address(hb.decode("idna")); return True
    except ValueError:
        return False


def strip_dot(nm: bytes) -> bytes:
    return nm[:-1] if nm.endswith(b".") else nm


def pick_host_bit(nm: bytes, bits: str) -> bool:
    """bits = validHost under constant library answers (ace, ip) = 00 01 10 11; choose by the real library"""
    return bits[2 * int(lib_ace(nm)) + int(lib_ip(strip_dot(nm)))] == "1"


def hello_end_offset(wire: bytes, dtls: bool) -> int:
    """offset just after the record that completes the (unfragmented) ClientHello message — harness record walk.
    Any shorter prefix of the wire cannot contain the hello: an independent reader says 'incomplete' there."""
    r, acc = Rd(wire), b""
    while True:
        r.take(11 if dtls else 3); acc += r.vec(2)
        if dtls:
            if len(acc) >= 12 and len(acc) >= 12 + int.from_bytes(acc[9:12], "big"): return r.p
        elif len(acc) >= 4 and len(acc) >= 4 + int.from_bytes(acc[1:4], "big"): return r.p


NP_B = 2**21 + 1
NP_SB, NP_SC = 0xAC00, 11172
def np_pack(seq):
    v = 0
    for x in reversed(seq): v = v * NP_B + (x + 1)
    return v
def np_ranges(lst):
    out=[]; start=prev=None
    for c in lst:
        if start is None: start=prev=c
        elif c==prev+1: prev=c
        else: out.append((start,prev)); start=prev=c
    if start is not None: out.append((start,prev))
    return out
def np_tables():
    import stringprep, unicodedata
    from unicodedata import ucd_3_2_0 as u32
    mapt=[]; dec=[]; P=[]; D1=[]; D2=[]; CC=[]
    sp = stringprep
    for cp in range(0x110000):
        ch=chr(cp)
        if sp.in_table_b1(ch): mapt.append(np_pack([cp]))
        else:
            m=sp.map_table_b2(ch)
            if m!=ch: mapt.append(np_pack([cp]+[ord(x) for x in m]))
        if not (NP_SB<=cp<NP_SB+NP_SC) and not (0xD800<=cp<0xE000):
            d=u32.normalize("NFKD", ch)
            if d!=ch: dec.append(np_pack([cp]+[ord(x) for x in d]))
        if (sp.in_table_c12(ch) or sp.in_table_c22(ch) or sp.in_table_c3(ch) or sp.in_table_c4(ch) or sp.in_table_c5(ch)
            or sp.in_table_c6(ch) or sp.in_table_c7(ch) or sp.in_table_c8(ch) or sp.in_table_c9(ch)): P.append(cp)
        if sp.in_table_d1(ch): D1.append(cp)
        if sp.in_table_d2(ch): D2.append(cp)
    # combining classes as the normaliser sees them (current database), ranges of equal class
    cur=None
    for cp in range(0x110000):
        c=unicodedata.combining(chr(cp))
        if c:
            if cur and cur[2]==c and cur[1]==cp-1: cur[1]=cp
            else:
                cur=[cp,cp,c]; CC.append(cur)
    pairs=[]
    for cp in range(0x110000):
        ds=unicodedata.decomposition(chr(cp))
        if ds and not ds.startswith("<"):
            parts=ds.split()
            if len(parts)==2:
                l,r=int(parts[0],16),int(parts[1],16)
                if unicodedata.combining(chr(l))==0 and unicodedata.normalize("NFC",chr(l)+chr(r))==chr(cp):
                    pairs.append(((l<<21|r)<<21)|cp)
    pairs.sort()
    rg=lambda L:[(a<<21)|b for a,b in np_ranges(L)]
    return {"mapTab":mapt,"decTab":dec,"prohibited":rg(P),"randAL":rg(D1),"lCat":rg(D2),"cccTab":[((a<<21|b)<<8)|c for a,b,c in CC],"pairTab":pairs}
def np_lean(tabs, key):
    out=["-- GENERATED by harness/c13.py translate() from the running interpreter (stringprep, unicodedata, unicodedata.ucd_3_2_0). Do not edit.",
         "-- key: " + key, "set_option maxRecDepth 200000", "namespace MitmVerif.Gen.C13Np",""]
    doc={"mapTab":"nameprep step Map: code point -> replacement (B.1: nothing, B.2: case fold); packed base 2^21+1, digits+1, key first",
         "decTab":"ucd_3_2_0.normalize('NFKD', ch) for single characters (Hangul syllables excluded: algorithmic); packed like mapTab",
         "prohibited":"stringprep tables C.1.2 C.2.2 C.3-C.9 as ranges lo*2^21+hi","randAL":"table D.1 ranges","lCat":"table D.2 ranges",
         "cccTab":"unicodedata.combining (current database, as the normaliser uses) != 0: ((lo*2^21+hi)*256+class)",
         "pairTab":"canonical composition pairs of the current database: ((first*2^21+second)*2^21+composed), sorted"}
    for k,v in tabs.items():
        out.append(f"/-- {doc[k]} -/")
        out.append(f"def {k} : Array Nat := #[" + ", ".join(map(str,v)) + "]")
    out += ["","end MitmVerif.Gen.C13Np",""]
    return "\n".join(out)


def np_key() -> str:
    """identity of everything the nameprep tables are computed from (interpreter library data, not mitmproxy code)"""
    import inspect, stringprep, sys, unicodedata, encodings.idna as I
    h = hashlib.sha256()
    for part in (sys.version, unicodedata.unidata_version, inspect.getsource(stringprep), inspect.getsource(I.nameprep)):
        h.update(part.encode()); h.update(b"\0")
    return h.hexdigest()[:32]


def lib_idna_hex(raw: bytes) -> str:
    """library answer IdnaLib.idna: raw.decode('idna') as UTF-8 hex, '!' when the codec raises"""
    try:
        return hx(raw.decode("idna").encode("utf-8", "surrogatepass"))
    except ValueError:
        return "!"


def nameprep_table(raw: bytes) -> str:
    """library answers for Nameprep.prep: for every dot-label starting with xn-- whose punycode the interpreter can decode,
    `decoded code points > nameprep(decoded)` (or `!`). The model must ask nothing else (else it answers lib-miss)."""
    import encodings.idna as I
    def cps(t): return ",".join(str(ord(c)) for c in t) or "-"
    ents = []
    for lab in raw.split(b"."):
        if lab.startswith(b"xn--"):
            try: t = lab[4:].decode("punycode")
            except Exception: continue
            try: o = cps(I.nameprep(t))
            except UnicodeError: o = "!"
            e = cps(t) + ">" + o
            if e not in ents: ents.append(e)
    return ";".join(ents) or "-"


def vhostN_lines(nm: bytes):
    """third transcription level: idna codec (punycode, ToASCII/ToUnicode) inside the model, only nameprep supplied"""
    t = nameprep_table(nm)
    return [f"idnaN {hx(nm)} {t}", f"idnaN {hx(strip_dot(nm))} {t}", f"vhostN {hx(nm)} {t}"]


def vhostN_expect(nm: bytes, v: bool):
    """what the three vhostN_lines must answer; idna results only matter (and are only computed by Python's slow path
    the way the model does) when the input contains xn--; without it the fast path gives the bytes back or fails"""
    return [lib_idna_hex(nm) if nm else "-", lib_idna_hex(strip_dot(nm)) if strip_dot(nm) else "-", "1" if v else "0"]


def vhostT_line(nm: bytes) -> str:
    return f"vhostT {hx(nm)} {lib_idna_hex(nm)} {lib_idna_hex(strip_dot(nm))}"


_VHOST_CACHE = {}


def host_lines_with_lib(nm: bytes):
    return [vhostT_line(nm)] + vhostN_lines(nm) + [f"vhostF {hx(nm)}"]


def judge_host_replies(nm: bytes, rep, err=None) -> str:
    """'0'/'1' when validHostT, validHostN and the transcribed idna texts are all consistent with the interpreter"""
    if err or len(rep) != 5: return f"driver:{err}"
    if rep[1:3] != vhostN_expect(nm, True)[:2]: return f"idna transcription says {rep[1:3]}"
    if rep[3] != rep[0]: return f"validHostT {rep[0]} but validHostN {rep[3]}"
    if rep[4] != rep[0]: return f"validHostT {rep[0]} but validHostFull (no library answer) {rep[4]}"
    return rep[0]


def model_host_with_lib(nm: bytes):
    """validHostT / validHostN for a name that needs library answers and was not foreseen in model_lines: own driver call"""
    if nm not in _VHOST_CACHE:
        from common import lean as L
        rep, err = L.run_driver("C13", host_lines_with_lib(nm))
        _VHOST_CACHE[nm] = judge_host_replies(nm, rep, err)
    return _VHOST_CACHE[nm]


def build_line(spec):
    """op `build`: the structured hello of a built case for the Lean builder (BHello.message / fragsOf / records), and the wire the
    harness's own builder produces for the same layout (one DTLS fragment per record: the Lean flight has no other form)"""
    one = dict(spec, frags_per_record=1)
    body = build_body(one)
    dtls = bool(one["dtls"])
    def ext_tok(e):
        if e["t"] == "sni": return "s:" + ",".join(f"{nt}/{h if h not in ('', '-') else '-'}" for nt, h in e["names"])
        if e["t"] == "alpn": return "a:" + ",".join(h if h not in ("", "-") else "-" for h in e["protos"])
        return f"o:{e['typ']}/{hx(unhx(e['data_hex']))}"
    exts = "none" if one["exts"] is None else (";".join(ext_tok(e) for e in one["exts"]) or "nil")
    if dtls:
        pieces = chunk(body, one.get("frags")) or [b""]
        sizes = [len(x) for x in pieces]
        rv = one.get("recvers") or [0xFF]
        pres = [b"\x16\xfe" + u8(rv[min(i, len(rv) - 1)]) + u16(0) + struct.pack("!Q", i)[2:] for i in range(len(pieces))]
    else:
        pieces = chunk(b"\x01" + u24(len(body)) + body, one.get("chunks"))
        sizes = [len(x) for x in pieces]
        rv = one.get("recvers") or [1]
        pres = [b"\x16\x03" + u8(rv[min(i, len(rv) - 1)]) for i in range(len(pieces))]
    line = " ".join(["build", "1" if dtls else "0", hx(unhx(one["ver_hex"])), hx(unhx(one["random_hex"])), hx(unhx(one["sid_hex"])),
                     hx(unhx(one.get("cookie_hex", "-"))), ",".join(map(str, one["ciphers"])) or "-", hx(unhx(one["comp_hex"])), exts, "0000",
                     ",".join(hx(p) for p in pres) or "nil", ",".join(map(str, sizes)) or "-", hx(unhx(one.get("trail_hex", "-")))])
    return line, hx(build_wire(one))


def first_fragment_flight(wire: bytes) -> bytes:
    """a DTLS flight made of the first handshake fragment of `wire` only (header as sent), in one record"""
    r = Rd(wire); r.take(11); rec = Rd(r.vec(2))
    hdr = rec.take(12); flen = int.from_bytes(hdr[9:12], "big")
    return dtls_records([hdr + rec.take(flen)], [wire[2]])


class Check(PropertyCheck):
    prop = "C13"
    design_ref = "§5 C13"
    level_text = ("Lean theorems over a total model of record reassembly (TLS and DTLS) + the kaitai ClientHello grammar + the "
                  "ClientHello accessors + check.is_valid_host (transcribed): parse_total, prefix_stable_hello/_invalid, "
                  "seg_independent (feeding any segmentation = parsing the concatenation), record_split_invariant, "
                  "parse_records_payload / payload_only / hello_depends_only_on_payload / payload_incomplete (the result is a "
                  "function of the hello message inside the concatenated record payload: every record cutting, every "
                  "segmentation, anything after the hello inside the payload or after the records), agrees_with_builder + "
                  "built_any_split + alpn/sni/extensions_of_built for every well-formed structured hello, sni_outright + "
                  "validHost_of_labels/_too_long/_non_ascii (SNI of LDH/underscore names independent of the idna/ipaddress "
                  "library), validHostT_closed_form / validHostT_lib_free / sni_lib_free (ipaddress.ip_address = C22.parseIp inside the "
                  "model: is_valid_host of any name without xn-- is a closed expression, no library answer), toUnicode_congr / "
                  "decodeIdna_congr / validHostN_congr / validHostN_lib_free / toUnicode_roundtrip / validHost_alabel_example (the "
                  "idna codec — punycode, ToASCII/ToUnicode, Codec.decode — transcribed; only nameprep is a parameter, asked only "
                  "about punycode-decoded xn-- labels), nameprep_bucher / validHost_alabel_outright / validHostFull_closed_form / sni_full "
                  "(nameprep itself — map, NFKC as ucd_3_2_0 computes it, prohibit, bidi — inside the model on tables regenerated "
                  "from the interpreter: validHostFull has NO parameter), starts_table_is_function + starts_three_bytes_suffice (the probed starts_like_*_record table equals "
                  "the source expression transcribed from the AST on every byte string) — all for ALL byte strings (induction, "
                  "no bounds); record_any_size_accepted / record_header_prefix_incomplete (no record-size bound below 65535: examples at "
                  "2^14, 2^14+1, 65535). DTLS handshake *fragmentation* is stated in full, proved only for unfragmented flights "
                  "(_partial) with a proved counterexample (finding F-C13a). Model tied to the code differentially on every "
                  "case: outcome class, PREDICTED sni (is_valid_host computed by the model), ALPN list, cipher list, extension "
                  "(type, bytes) list, for whole inputs, prefixes and segment-by-segment feeding; is_valid_host and "
                  "starts_like_*_record also tied directly (ops vhost / starts). Owner round 6: the specification-side BUILDER (BHello.body/"
                  "message, msgHdr, encExts/encNames/encProtos, mkRecord, records, fragsOf; dtlsFlight = records of fragsOf by "
                  "dtlsFlight_eq_records) is executed by op `build` for every built case and compared byte for byte with the harness "
                  "builder's wire (TLS chunkings, DTLS flights incl. fragmented ones, boundary-size hellos); `Hello.sni validHostFull` is "
                  "computed by the driver itself (field n=) and that value is what is compared with ClientHello.sni; "
                  "record_short_header_incomplete; validHostN_ascii / sni_is_ascii (whatever sni returns is ASCII for every nameprep: "
                  "the accessor's final decode cannot raise).")
    level_note = ("trusted: Lean kernel; model/implementation tie is differential (not a proof about Python). NOT EVIDENCE, only "
                  "bookkeeping: parse_total holds for any Res-valued function (the clause 'never fails in another way' is carried by the "
                  "totality ORACLE on the real code, incl. the accessors and is_valid_host, plus sni_is_ascii for the final decode); "
                  "ciphers_of_built is rfl and extensions_of_built nearly so. SCOPE: builtSni (the reader sni_of_built compares with) "
                  "follows mitmproxy's rule 'exactly one entry, type 0, valid host'; an RFC 6066 reader would report the first host_name "
                  "of a multi-entry list — the property sentence is covered for single-entry lists only (the oracle is lenient there, "
                  "see below). record_split_invariant for DTLS speaks about record bodies concatenated as a byte stream (the code's "
                  "notion), not about DTLS fragmentation (F-C13a). Inside "
                  "is_valid_host three nested models are tied to the code: validHost (HostLib: idna(xn--) and ipaddress answers "
                  "supplied), validHostT (ipaddress = C22.parseIp in the model, decoded idna text supplied) and validHostN (idna "
                  "codec in the model: punycode decode/encode, ToASCII, ToUnicode, Codec.decode transcribed from CPython 3.12; "
                  "supplied: only encodings.idna.nameprep = stringprep tables + NFKC, for the punycode-decoded xn-- labels, with a "
                  "two-default run that reports any other question as lib-miss). A fourth level, validHostFull, also computes nameprep (algorithms of "
                  "Modules/unicodedata.c nfd_nfkd/nfc_nfkc and encodings/idna.py transcribed; per-character data — stringprep B.1/B.2/"
                  "C.x/D.x, NFKD per character of ucd_3_2_0, combining classes and composition pairs of the current database — "
                  "regenerated from the running interpreter into Gen/C13_Np.lean, reused while the interpreter identity hash is "
                  "unchanged and always rebuilt in the thorough tier): no library answer is supplied to it; it is tied by the case "
                  "kind nprep (model nameprep vs encodings.idna.nameprep; one-off: all 1,114,112 single code points and 300,000 "
                  "strings agreed) and by op vhostF on every host name. No parameter is left in is_valid_host; what is assumed is "
                  "that the probed per-character tables are what the C normaliser reads. starts_like_*_record: "
                  "Gen holds both the AST transcription and the probed behaviour, Lean proves them equal. The ground-truth "
                  "oracle demands the exact SNI only for a single host_name entry that is an RFC 6066 LDH host name (or no "
                  "host_name entry: None); for other names it only demands None-or-one-of-the-offered-host_names. "
                  "Lenient branches of the oracle: (1) that SNI rule; (2) the per-prefix expectation "
                  "(incomplete before the hello's last record ends, the hello from there on) is not applied to fragmented DTLS "
                  "flights (F-C13a); (3) mutated/random inputs (kinds bytes, msg) have no independent reading: only totality and "
                  "the split/segmentation equalities are demanded of them. "
                  "dtls_fragment_invariant is NOT proved (false for the current code: F-C13a) — only "
                  "dtls_fragment_invariant_partial (single fragment) and its counterexample are.")
    technique = "Lean 4 proof (fuel-bounded total parsers, induction over records/extensions) + differential model-vs-code correspondence + independent builder/reader oracle + real OpenSSL hellos"
    rule = ("built: structured hellos from an independent builder (TLS/DTLS, +-SNI/ALPN, odd extensions, A-labels, session ids, "
            "cookies, no extension block) wrapped under random record chunkings/record versions and TCP cuts; short hellos: every "
            "2-record split x every prefix; real: ssl/pyOpenSSL memory-BIO ClientHellos (TLS1.3, TLS1.2-only, DTLS, big DTLS "
            "flights that OpenSSL fragments) re-chunked and cut; msg: arbitrary/mutated handshake bytes under two chunkings; "
            "boundary: hellos padded so that one record is exactly 16383/16384/16385/32768/65535 bytes (and splits around them, "
            "message lengths up to 2^16+); nprep: code point strings (any single code point; mixes of combining marks, jamo, RTL, compatibility forms) for "
            "the nameprep tie; bytes: single-field mutants, truncations and raw random bytes. distinct = digest of (dtls, wire bytes, cuts); "
            "non-trivial = non-empty input.")
    budget = {"quick": 2600, "thorough": 80000}
    time_budget = {"quick": 30, "thorough": 480}
    fingerprints = [
        "mitmproxy.proxy.layers.tls:handshake_record_contents", "mitmproxy.proxy.layers.tls:get_client_hello",
        "mitmproxy.proxy.layers.tls:parse_client_hello", "mitmproxy.proxy.layers.tls:dtls_handshake_record_contents",
        "mitmproxy.proxy.layers.tls:get_dtls_client_hello", "mitmproxy.proxy.layers.tls:dtls_parse_client_hello",
        "mitmproxy.proxy.layers.tls:ClientTLSLayer.receive_handshake_data",
        "mitmproxy.net.tls:starts_like_tls_record", "mitmproxy.net.tls:starts_like_dtls_record",
        "mitmproxy.net.check:is_valid_host", "encodings.idna:ToUnicode", "encodings.idna:ToASCII", "encodings.idna:Codec.decode",
        "encodings.idna:nameprep", "stringprep:map_table_b2", "stringprep:in_table_b1", "stringprep:in_table_d1", "stringprep:in_table_d2",
        "encodings.punycode:punycode_decode", "encodings.punycode:punycode_encode", "encodings.punycode:insertion_sort", "encodings.punycode:adapt",
        "mitmproxy.tls:ClientHello.__init__", "mitmproxy.tls:ClientHello.sni", "mitmproxy.tls:ClientHello.alpn_protocols",
        "mitmproxy.tls:ClientHello.extensions", "mitmproxy.tls:ClientHello.cipher_suites",
        "mitmproxy.contrib.kaitaistruct.tls_client_hello:TlsClientHello",
        "mitmproxy.contrib.kaitaistruct.dtls_client_hello:DtlsClientHello",
    ]
    trusted_base = ["kaitaistruct 0.11 KaitaiStream (read_u1/u2be/u4be/read_bytes raise EOFError exactly when short; is_eof)",
                    "per-character Unicode data of the interpreter (stringprep tables, ucd_3_2_0 NFKD of single characters, unicodedata.combining, canonical composition pairs) probed into Gen/C13_Np.lean; the string-level nameprep/NFKC algorithms are transcribed and tied (kind nprep, op vhostF)",
                    "C22.parseIp as the transcription of ipaddress.ip_address (tied by C22's own differential run and here through op vhostT/vhostN)",
                    "re semantics of rb'[A-Z\\d\\-_]{1,63}$' with IGNORECASE on bytes (transcribed as labelValid, tied by op vhost)",
                    "CPython ssl / pyOpenSSL clients as sources of real ClientHellos"]
    parallel = False               # fork pool only pays off in the thorough tier (set in setup)

    def setup(self, tier):
        self.parallel = (tier == "thorough")
        self.known_selftest()

    # ---------------------------------------------------------------------------------------------
    @staticmethod
    def transcribe_starts(fn):
        """source-level transcription of `return len(d) > N and d[0] == A and d[1] == B and LO <= d[2] <= HI`
        -> (N, A, B, LO, HI); an unrecognised shape gives impossible constants, which breaks `starts_table_ok`."""
        import ast, inspect, textwrap
        bad = (2, 256, 256, 1, 0)
        try:
            f = ast.parse(textwrap.dedent(inspect.getsource(fn))).body[0]
            rets = [n for n in ast.walk(f) if isinstance(n, ast.Return)]
            if len(rets) != 1: return bad
            e = rets[0].value
            arg = f.args.args[0].arg
            if not (isinstance(e, ast.BoolOp) and isinstance(e.op, ast.And) and len(e.values) == 4): return bad
            c_len, c0, c1, c2 = e.values
            def is_idx(n, i):
                return (isinstance(n, ast.Subscript) and isinstance(n.value, ast.Name) and n.value.id == arg
                        and isinstance(n.slice, ast.Constant) and n.slice.value == i)
            def const(n):
                if isinstance(n, ast.Constant) and isinstance(n.value, int) and not isinstance(n.value, bool): return n.value
                raise ValueError
            if not (isinstance(c_len, ast.Compare) and len(c_len.ops) == 1 and isinstance(c_len.ops[0], ast.Gt)
                    and isinstance(c_len.left, ast.Call) and getattr(c_len.left.func, "id", None) == "len"
                    and len(c_len.left.args) == 1 and getattr(c_len.left.args[0], "id", None) == arg): return bad
            n = const(c_len.comparators[0])
            vals = []
            for c, i in ((c0, 0), (c1, 1)):
                if not (isinstance(c, ast.Compare) and len(c.ops) == 1 and isinstance(c.ops[0], ast.Eq) and is_idx(c.left, i)): return bad
                vals.append(const(c.comparators[0]))
            if not (isinstance(c2, ast.Compare) and len(c2.ops) == 2 and all(isinstance(o, ast.LtE) for o in c2.ops)
                    and is_idx(c2.comparators[0], 2)): return bad
            return (n, vals[0], vals[1], const(c2.left), const(c2.comparators[1]))
        except Exception:
            return bad

    def translate(self):
        """starts_like_tls_record / starts_like_dtls_record twice: (1) the source expression transcribed from the AST
        (`tlsPred`/`dtlsPred`), (2) the behaviour of the real functions probed over the first three bytes
        (`tlsStarts`/`dtlsStarts`). Lean proves (2) = (1) (`starts_table_ok`, `starts_table_is_function`)."""
        rows, preds = {}, {}
        for name, fn in (("tls", net_tls.starts_like_tls_record), ("dtls", net_tls.starts_like_dtls_record)):
            probe = (0, 1, 2, 3, 4, 5, 0x7f, 0x80, 0xfb, 0xfc, 0xfd, 0xfe, 0xff)
            tab = []
            for a in range(256):
                for b in range(256):
                    if any(fn(bytes((a, b, c, 0, 0))) for c in probe):
                        tab.append((a, b, [c for c in range(256) if fn(bytes((a, b, c, 0, 0)))]))
            short_ok = any(fn(bytes(t)) for t in ([], [0x16], [0x16, 3], [0x16, 0xfe]))
            rows[name] = (tab, short_ok)
            preds[name] = self.transcribe_starts(fn)
        def lean_tab(tab):
            return "[" + ", ".join(f"({a}, {b}, [{', '.join(map(str, cs))}])" for a, b, cs in tab) + "]"
        src = ("-- GENERATED by harness/c13.py translate() from mitmproxy/net/tls.py. Do not edit.\n"
               "namespace MitmVerif.Gen.C13\n\n"
               "/-- behaviour of starts_like_*_record probed over the first three bytes: (byte0, byte1, accepted byte2 values) -/\n"
               f"def tlsStarts : List (Nat × Nat × List Nat) := {lean_tab(rows['tls'][0])}\n"
               f"def dtlsStarts : List (Nat × Nat × List Nat) := {lean_tab(rows['dtls'][0])}\n"
               f"/-- does a header shorter than three bytes ever qualify? -/\n"
               f"def shortAccepted : Bool := {'true' if rows['tls'][1] or rows['dtls'][1] else 'false'}\n\n"
               "/-- the source expression `len(d) > N and d[0] == A and d[1] == B and LO <= d[2] <= HI` as (N, A, B, LO, HI) -/\n"
               f"def tlsPred : Nat × Nat × Nat × Nat × Nat := {preds['tls']}\n"
               f"def dtlsPred : Nat × Nat × Nat × Nat × Nat := {preds['dtls']}\n\n"
               "end MitmVerif.Gen.C13\n")
        out = {"MitmVerif/Gen/C13.lean": src}
        # nameprep data (stringprep tables, NFKD per character, combining classes, composition pairs): 1.1M code points are
        # probed (~5-8 s), so the file is reused while the interpreter's identity (np_key) is unchanged; the thorough tier
        # always regenerates it.
        import os, sys
        from common.paths import LEAN
        f = os.path.join(LEAN, "MitmVerif", "Gen", "C13_Np.lean")
        key = np_key()
        have = open(f).read() if os.path.exists(f) else ""
        if ("-- key: " + key + "\n") not in have or "thorough" in sys.argv:
            out["MitmVerif/Gen/C13_Np.lean"] = np_lean(np_tables(), key)
        return out

    # ---------------------------------------------------------------------------------------------
    # generator
    HOSTS = [b"example.com", b"a.b", b"localhost", b"EXAMPLE.Com", b"x1.y2.z3.example.org", b"a-b.c-d.net", b"0.example", b"a" * 63 + b".com"]
    ODD_HOSTS = [b"under_score.example", b"example.com.", b"192.0.2.1", b"::1", b"exa mple.com", b"\xff\xfe.com", b"", b"a" * 64 + b".com",
                 b"xn--a.com", b"ab--cd.com", b"example.com\n", b"-a.com", b"a..b", b"*.example.com", b"ex\x00.com", b"fe80::1%eth0"]
    ALPNS = [b"h2", b"http/1.1", b"h3", b"http/1.0", b"spdy/3", b"foo", b"\x00\xff", b"a" * 255, b"x"]
    CIPHERS = [0x1301, 0x1302, 0x1303, 0xc02b, 0xc02f, 0xc02c, 0xc030, 0xcca9, 0xcca8, 0x009c, 0x002f, 0x0035, 0x00ff, 0x0a0a, 0x5600, 0x0000, 0xffff]

    LABEL_CHARS = b"abcxyzABCXYZ0189-_"
    V6 = [b"::1", b"::", b"1::", b"fe80::1%eth0", b"fe80::1%", b"::ffff:1.2.3.4", b"[::1]", b"1:2:3:4:5:6:7:8", b"1:2:3:4:5:6:7:8:9", b"::g",
          b"1:2:3:4:5:6:7::", b"::1.2.3", b"12345::", b"::1%a.b", b"::1%xn--nxasmq6b", b"1.2.3.4", b"256.1.1.1", b"1.2.3", b"01.2.3.4", b"1.2.3.4.", b"::1."]

    def gen_host(self, rng):
        """host names around every branch of is_valid_host: label length 63/64, total length 255/256, trailing dot(s),
        '\\n' before '$', characters outside the class, non-ASCII, xn-- (valid / invalid / elsewhere), IP literals"""
        r = rng.random()
        if r < 0.15: return rng.pick(self.V6)
        if r < 0.25: return rng.pick(self.ODD_HOSTS)
        def label():
            n = rng.pick([1, 1, 2, 3, 5, 8, 20, 62, 63, 63, 64, 65])
            return bytes(rng.pick(self.LABEL_CHARS) for _ in range(n))
        labels = [label() for _ in range(rng.pick([1, 1, 2, 2, 3, 4, 6]))]
        if rng.chance(0.15):                        # total length around the 255 limit
            labels = [bytes(rng.pick(self.LABEL_CHARS) for _ in range(63)) for _ in range(3)]
            labels.append(bytes(rng.pick(self.LABEL_CHARS) for _ in range(rng.pick([59, 60, 61, 62, 63]))))
        k = rng.random()
        i = rng.randrange(len(labels))
        if k < 0.12: labels[i] = labels[i] + b"\n"
        elif k < 0.2:
            j = rng.randrange(len(labels[i]) + 1); labels[i] = labels[i][:j] + rng.pick([b" ", b"\n", b":", b"%", b"*", b"\x00", b"\x7f", b"/", b"\xc3\xa9", b"\xff", b"@"]) + labels[i][j:]
        elif k < 0.3:
            try: labels[i] = "".join(rng.pick("bücheréßλж中") for _ in range(rng.randint(1, 4))).encode("idna")
            except UnicodeError: labels[i] = b"xn--bcher-kva"
        elif k < 0.4: labels[i] = rng.pick([b"xn--", b"xn--a", b"xn--0", b"XN--bcher-kva", b"xn--bcher-kva", b"xn--BCHER-kva", b"axn--b", b"xn--\xff", b"xn---", b"xn--" + b"a" * 70, b"xn--zz--zz"])
        elif k < 0.45: labels[i] = b""
        nm = b".".join(labels)
        t = rng.random()
        if t < 0.15: nm += b"."
        elif t < 0.2: nm += b".."
        elif t < 0.23: nm = b"." + nm
        return nm

    def big_spec(self, n_msg, dtls=0, chunks=None, cuts=None, layer=0, sni=b"example.com"):
        """a well-formed hello whose handshake message (header included) is exactly n_msg bytes, by a padding extension"""
        spec = {"kind": "built", "dtls": dtls, "ver_hex": "fefd" if dtls else "0303", "random_hex": "07" * 32, "sid_hex": "-",
                "ciphers": [0x1301, 0xc02f], "comp_hex": "00",
                "exts": [{"t": "sni", "names": [[0, hx(sni)]]}, {"t": "alpn", "protos": [hx(b"h2")]}, {"t": "raw", "typ": 21, "data_hex": "-"}],
                "recvers": [0xfd] if dtls else [1, 3], "chunks": chunks or [], "cuts": cuts or []}
        if dtls: spec["cookie_hex"] = "-"
        hdr = 12 if dtls else 4
        pad = n_msg - (len(build_body(spec)) + hdr)
        if pad > 60000:                        # the extension block is a u16 vector: grow the cipher list as well
            extra = min((pad - 50000) // 2, 30000)
            spec["ciphers"] = spec["ciphers"] + [0x0a0a] * extra
            pad -= 2 * extra
        if not 0 <= pad <= 65000: raise ValueError("big_spec: size out of range")
        spec["exts"][2]["data_hex"] = hx(b"\x00" * pad)
        if layer: spec["layer"] = 1
        return spec

    RECORD_EDGES = (16383, 16384, 16385, 32768, 65535)       # 2^14 -1/0/+1 (RFC 8446 §5.1 limit), 2^15, the u16 maximum

    def boundary_cases(self, tier):
        """hellos whose records sit on the record-size boundaries: one record of exactly N bytes, and splits around it"""
        for n in (16383, 16384, 16385):
            yield self.big_spec(n, cuts=[5, 6, n + 4], layer=1)                  # ONE record of n bytes
            yield self.big_spec(n, chunks=[8192], cuts=[5])                     # two halves
            yield self.big_spec(n, chunks=[16383], cuts=[16388])                # 16383 + rest
            yield self.big_spec(n + 1, chunks=[1], cuts=[5, 6, 11])             # 1 + one record of n bytes
            yield self.big_spec(n + 100, chunks=[n], cuts=[n + 5])              # a record of n bytes, then the rest
            yield self.big_spec(n, dtls=1, cuts=[13], layer=1)                  # DTLS: one record of n bytes
        yield self.big_spec(65535, cuts=[5])                                    # the largest record the length field can say
        yield self.big_spec(65536, chunks=[65535], cuts=[65540], layer=1)       # message length 2^16: 65535 + 1
        if tier == "thorough":
            yield self.big_spec(65536, chunks=[32768])
            yield self.big_spec(65600, chunks=[64, 65535])
            yield self.big_spec(65535, dtls=1)
            for n in (16382, 16386, 32767, 32769, 65534):
                yield self.big_spec(n); yield self.big_spec(n + 7, chunks=[7]); yield self.big_spec(n, dtls=1)

    def gen_big(self, rng):
        dtls = 1 if rng.chance(0.2) else 0
        e = min(65535, rng.pick(self.RECORD_EDGES) + rng.pick([-1, 0, 0, 0, 1]))
        k = rng.random()
        if dtls or k < 0.35: return self.big_spec(e, dtls=dtls, cuts=[rng.randint(1, 20)])
        if k < 0.6:
            lead = rng.randint(1, 300)
            return self.big_spec(e + lead, chunks=[lead], cuts=[lead + 5, lead + 10])
        if k < 0.8:
            return self.big_spec(e + rng.randint(1, 300), chunks=[e], cuts=[rng.randint(1, e)])
        return self.big_spec(e + rng.randint(0, 2000) if e < 60000 else 66000, chunks=[rng.pick(self.RECORD_EDGES[:3]) + rng.pick([-1, 0, 1]) for _ in range(3)],
                             cuts=sorted(rng.sample(range(1, 16000), 3)))

    NP_POOLS = [range(0x300, 0x370), range(0x1100, 0x1200), range(0xAC00, 0xAC00 + 11172), range(0x590, 0x700), range(0x41, 0x7b),
                range(0xC0, 0x250), range(0x1E00, 0x2000), range(0x2000, 0x2100), range(0x3040, 0x3100), range(0xFF00, 0xFFF0),
                range(0xF900, 0xFB50), range(0x1D100, 0x1D200), range(0x900, 0xE00), range(0x370, 0x400), range(0xE0000, 0xE0080),
                [0xAD, 0x200D, 0x200C, 0x1806, 0xDF, 0x130, 0x149, 0x3C2, 0x17F, 0xFFFD, 0x80, 0x9f, 0xa0, 0x1680, 0x340, 0x341, 0x343,
                 0x344, 0xf73, 0xf75, 0xf81, 0x2126, 0x212a, 0x212b, 0xd800, 0xdfff, 0x10ffff, 0xfdd0, 0x2ff0]]

    def gen_nprep(self, rng):
        """strings for the nameprep tie: single code points anywhere, and short mixes of marks / jamo / RTL / compat forms"""
        if rng.chance(0.3): return {"kind": "nprep", "cps": [rng.randrange(0x110000)]}
        p = rng.pick(self.NP_POOLS)
        cps = []
        for _ in range(rng.randint(1, 6)):
            q = p if rng.chance(0.7) else rng.pick(self.NP_POOLS)
            cps.append(q[rng.randrange(len(q))])
        return {"kind": "nprep", "cps": cps}

    def gen_spec(self, rng, small=False):
        dtls = 1 if rng.chance(0.3) else 0
        spec = {"kind": "built", "dtls": dtls,
                "ver_hex": ("fefd" if rng.chance(0.8) else "feff") if dtls else rng.pick(["0303", "0303", "0301", "0302", "0300", "0304"]),
                "random_hex": hx(rng.bytes_(32)),
                "sid_hex": hx(rng.bytes_(rng.pick([0, 0, 32, 32, 1, 16]))) if not small else "-",
                "ciphers": [rng.pick(self.CIPHERS) for _ in range(rng.randint(1, 3 if small else 24))],
                "comp_hex": rng.pick(["00", "00", "00", "0100", "01"])}
        if dtls: spec["cookie_hex"] = hx(rng.bytes_(rng.pick([0, 0, 0, 20, 32, 255])))
        exts, alabel = [], 0
        r = rng.random()
        if r < 0.08:
            exts = None                       # no extension block at all (SSLv3/TLS1.0-style)
        else:
            pool = []
            s = rng.random()
            if s < 0.6:
                if rng.chance(0.15):
                    host = "".join(rng.pick("bücheréßλж中") for _ in range(rng.randint(1, 5))) + rng.pick([".example", ".com", ""])
                    try:
                        hb = host.encode("idna"); alabel = 1
                    except UnicodeError:
                        hb = b"example.org"
                else:
                    hb = rng.pick(self.HOSTS)
                pool.append({"t": "sni", "names": [[0, hx(hb)]]})
            elif s < 0.72:                     # unusual server_name contents
                k = rng.random()
                if k < 0.5: pool.append({"t": "sni", "names": [[0, hx(self.gen_host(rng) if rng.chance(0.7) else rng.pick(self.ODD_HOSTS))]]})
                elif k < 0.7: pool.append({"t": "sni", "names": [[0, hx(rng.pick(self.HOSTS))], [rng.pick([0, 1, 7]), hx(rng.pick(self.HOSTS))]]})
                elif k < 0.85: pool.append({"t": "sni", "names": [[rng.pick([1, 255]), hx(rng.pick(self.HOSTS))]]})
                else: pool.append({"t": "sni", "names": [[0, hx(rng.bytes_(rng.randint(1, 12)))]]})
            if rng.chance(0.6):
                n = rng.randint(1, 4)
                pool.append({"t": "alpn", "protos": [hx(rng.pick(self.ALPNS)) for _ in range(n)]})
            for _ in range(rng.pick([0, 1, 2, 3, 6] if not small else [0, 1])):
                typ = rng.pick([1, 5, 10, 11, 13, 21, 23, 35, 43, 45, 51, 0x0a0a, 0xff01, 0xffff, 17513, rng.randint(1, 65535)])
                if typ in (0, 16) or any(e.get("typ") == typ for e in pool): continue
                pool.append({"t": "raw", "typ": typ, "data_hex": hx(rng.bytes_(rng.pick([0, 0, 1, 2, 5, 8, 33, 200] if not small else [0, 1, 3])))})
            rng.shuffle(pool)
            exts = pool
        spec["exts"] = exts
        if alabel: spec["alabel"] = 1
        return spec

    def add_layout(self, rng, spec):
        body_len = len(build_body(spec))
        if spec["dtls"]:
            spec["recvers"] = [rng.pick([0xFF, 0xFF, 0xFD, 0xFE])] + [0xFD]
            if rng.chance(0.12):               # fragmented flight (RFC 6347 §4.2.3) — F-C13a
                k = rng.randint(2, 4)
                spec["frags"] = [max(1, body_len // k + rng.randint(-3, 3)) for _ in range(k - 1)]
                spec["frags_per_record"] = rng.pick([1, 1, 2])
        else:
            spec["recvers"] = [rng.pick([1, 1, 3, 0, 2])] + [rng.pick([3, 1])]
            r = rng.random()
            n = body_len + 4
            if r < 0.4: spec["chunks"] = []
            elif r < 0.8: spec["chunks"] = [rng.randint(1, n) for _ in range(rng.randint(1, 4))]
            else: spec["chunks"] = [rng.pick([1, 2, 3, 4, 5, 7]) for _ in range(rng.randint(1, 40))]
            if rng.chance(0.2): spec["trail_hex"] = hx(rng.pick([b"\x14\x03\x03\x00\x01\x01", b"\x16\x03\x03\x00\x00", b"GET / HTTP/1.1\r\n", rng.bytes_(7)]))
        wire_len = len(build_wire(spec))
        spec["cuts"] = sorted(rng.sample(range(1, max(2, wire_len)), min(wire_len - 1, rng.pick([0, 1, 2, 3, 8, 30]))))
        if rng.chance(0.15): spec["layer"] = 1
        return spec

    def real_pool(self, rng, tier):
        pool, got, failed = [], set(), []
        n = 10 if tier == "quick" else 60
        for i in range(n):
            sni = rng.pick(self.HOSTS[:6] + [None])
            alpn = rng.pick([[], [b"h2", b"http/1.1"], [b"http/1.1"], [b"h3"], [b"foo", b"h2", b"x"]])
            k = i % 5
            try:
                if k == 0: data, dtls = real_tls_ssl(sni, alpn), 0
                elif k == 1: data, dtls = real_tls_ssl(sni, alpn, max12=True), 0
                elif k == 2: data, dtls = real_openssl(False, sni, alpn), 0
                elif k == 3: data, dtls = real_openssl(True, sni, alpn), 1
                else:
                    alpn = alpn + [b"proto-%03d" % j for j in range(rng.randint(30, 60))]
                    data, dtls = real_openssl(True, sni, alpn, mtu=rng.pick([256, 300, 400])), 1
            except Exception as e:
                failed.append(f"client kind {k}: {type(e).__name__}: {e}"); continue
            if not data:
                failed.append(f"client kind {k}: no bytes"); continue
            c = {"kind": "real", "dtls": dtls, "data_hex": hx(data), "cfg": {"sni": sni.decode() if sni else None, "alpn": [hx(a) for a in alpn]}}
            pool.append(c); got.add(k)
        if got != {0, 1, 2, 3, 4}:
            # never drop a whole class of real hellos silently (that hid the DTLS clients once): harness failure = INFRA
            raise RuntimeError("real-client pool incomplete: " + "; ".join(failed[:5]))
        return pool

    def short_specs(self, rng, n):
        out = []
        for i in range(n):
            s = self.gen_spec(rng, small=True); s["dtls"] = 0; s["ver_hex"] = "0303"; s.pop("cookie_hex", None)
            s["recvers"] = [1, 3]
            out.append(s)
        return out

    def generate(self, rng, tier):
        # 1. small scope: every 2-record split of short hellos, every prefix of each
        nshort = 3 if tier == "quick" else 20
        for s in self.short_specs(rng, nshort):
            n = len(build_body(s)) + 4
            for i in range(0, n):
                c = dict(s); c["chunks"] = [i] if i else []; c["allcuts"] = 1; c["cuts"] = []
                yield c
            if tier == "thorough":
                for i, j in itertools.combinations(range(1, min(n, 40)), 2):
                    c = dict(s); c["chunks"] = [i, j - i]; c["cuts"] = [i + 5, j + 10]
                    yield c
        yield from self.boundary_cases(tier)
        # starts_like_*_record: every boundary of the transcribed expression, and lengths 0..3
        for dtls in (0, 1):
            for a in (0x15, 0x16, 0x17):
                for b in (2, 3, 4, 0xfd, 0xfe, 0xff):
                    for c in (0, 1, 3, 4, 0xfc, 0xfd, 0xfe, 0xff):
                        yield {"kind": "starts", "dtls": dtls, "data_hex": hx(bytes([a, b, c]) + (b"\x00\x00" if c & 1 else b""))}
            for short in (b"", b"\x16", b"\x16\x03", b"\x16\xfe"):
                yield {"kind": "starts", "dtls": dtls, "data_hex": hx(short)}
        for h in self.ODD_HOSTS + self.HOSTS + self.V6:
            yield {"kind": "host", "name_hex": hx(h)}
        pool = self.real_pool(rng, tier)
        for c in pool:
            d = dict(c); d["allcuts"] = 1 if len(unhx(c["data_hex"])) < 400 or tier == "thorough" else 0; d["layer"] = 1
            d["cuts"] = [rng.randint(1, len(unhx(c["data_hex"])) - 1)]
            yield d
        recent = []
        while True:
            r = rng.random()
            if rng.chance(0.004):
                yield self.gen_big(rng)
            elif rng.chance(0.08):
                yield self.gen_nprep(rng)
            elif rng.chance(0.12):
                yield {"kind": "host", "name_hex": hx(self.gen_host(rng))}
            elif rng.chance(0.02):
                yield {"kind": "starts", "dtls": rng.randint(0, 1), "data_hex": hx(rng.bytes_(rng.pick([2, 3, 3, 5, 13])))}
            elif r < 0.5:
                spec = self.add_layout(rng, self.gen_spec(rng))
                recent.append((spec["dtls"], build_wire(spec))); recent = recent[-50:]
                yield spec
            elif r < 0.65 and pool:
                c = dict(rng.pick(pool)); n = len(unhx(c["data_hex"]))
                if not c["dtls"] and rng.chance(0.8):
                    c["chunks"] = [rng.randint(1, n) for _ in range(rng.randint(1, 5))] if rng.chance(0.7) else [rng.randint(1, 9) for _ in range(60)]
                c["cuts"] = sorted(rng.sample(range(1, n + 5 * len(c.get("chunks", []))), rng.pick([1, 2, 5, 20])))
                if rng.chance(0.2): c["layer"] = 1
                yield c
            elif r < 0.75:
                # arbitrary / mutated handshake bytes under two different chunkings
                dtls = 1 if rng.chance(0.25) else 0
                spec = self.gen_spec(rng); spec["dtls"] = dtls
                if dtls and "cookie_hex" not in spec: spec["cookie_hex"] = "-"
                if not dtls: spec.pop("cookie_hex", None)
                body = build_body(spec)
                msg = bytearray((dtls_fragments(body, None)[0]) if dtls else (b"\x01" + u24(len(body)) + body))
                k = rng.random()
                if k < 0.4:
                    for _ in range(rng.randint(1, 3)): msg[rng.randrange(len(msg))] = rng.getrandbits(8)
                elif k < 0.6: msg = msg[:rng.randrange(len(msg))]
                elif k < 0.7: msg = bytearray(rng.bytes_(rng.randint(0, 40)))
                elif k < 0.8: msg += rng.bytes_(rng.randint(1, 30))
                n = max(1, len(msg))
                yield {"kind": "msg", "dtls": dtls, "msg_hex": hx(msg),
                       "chunks": [rng.randint(1, n) for _ in range(rng.randint(0, 3))],
                       "chunks_b": [rng.randint(1, max(1, n // 3)) for _ in range(rng.randint(1, 12))],
                       "cuts": sorted(rng.sample(range(1, n + 20), min(n, rng.pick([0, 1, 3]))))}
            elif r < 0.93 and (recent or pool):
                # single-field mutants of a valid wire image
                if recent and rng.chance(0.7): dtls, wire = rng.pick(recent)
                else:
                    c = rng.pick(pool); dtls, wire = c["dtls"], unhx(c["data_hex"])
                b = bytearray(wire)
                k = rng.random()
                hdr = 13 if dtls else 5
                if k < 0.35 and b:
                    p = rng.randrange(len(b)); b[p] = rng.pick([0, 1, 0xff, 0x80, b[p] ^ 1, (b[p] + 1) & 255, rng.getrandbits(8)])
                elif k < 0.5 and b:
                    p = rng.randrange(min(len(b), hdr + (13 if dtls else 4) + 40)); b[p] = rng.getrandbits(8)
                elif k < 0.65: b = b[:rng.randrange(len(b) + 1)]
                elif k < 0.75 and b:
                    p = rng.randrange(len(b)); del b[p:p + rng.randint(1, 4)]
                elif k < 0.85:
                    p = rng.randrange(len(b) + 1); b[p:p] = rng.bytes_(rng.randint(1, 4))
                else:
                    b = b + rng.pick([bytes(b), bytes(b[:hdr]), b"\x17\x03\x03\x00\x01\x00", rng.bytes_(9)])
                if rng.chance(0.1): dtls = 1 - dtls
                n = len(b)
                c = {"kind": "bytes", "dtls": dtls, "data_hex": hx(b),
                     "cuts": sorted(rng.sample(range(1, n), min(max(0, n - 1), rng.pick([0, 1, 2, 6])))) if n > 1 else []}
                if n < 160 and rng.chance(0.3): c["allcuts"] = 1
                if rng.chance(0.1): c["layer"] = 1
                yield c
            else:
                n = rng.pick([0, 1, 2, 3, 4, 5, 6, 9, 12, 13, 14, 20, 40, 80])
                b = bytearray(rng.bytes_(n))
                if rng.chance(0.6) and n >= 3:
                    dtls = rng.randint(0, 1)
                    b[0:3] = b"\x16\xfe" + bytes([rng.pick([0xfd, 0xff, 0xfe, 0xfc])]) if dtls else b"\x16\x03" + bytes([rng.randint(0, 4)])
                    lp = 11 if dtls else 3
                    if n >= lp + 2 and rng.chance(0.7): b[lp:lp + 2] = u16(rng.randint(0, max(1, n - lp)))
                else:
                    dtls = rng.randint(0, 1)
                yield {"kind": "bytes", "dtls": dtls, "data_hex": hx(b), "cuts": [rng.randint(0, n)], "allcuts": 1}

    # ---------------------------------------------------------------------------------------------
    def resolve(self, case):
        """-> (dtls, [wire, ...], truth or None)"""
        k, dtls = case["kind"], bool(case["dtls"])
        if k == "built":
            self.validate_spec(case)
            return dtls, [build_wire(case)], truth_from_spec(case)
        if k == "real":
            data = unhx(case["data_hex"])
            tr = strict_read(data, dtls)
            cfg = case.get("cfg")
            if cfg and (tr["sni"] != ["exact", cfg["sni"]] or tr["alpn"] != cfg["alpn"]):
                raise RuntimeError(f"harness reader disagrees with the client configuration: {tr['sni']} {tr['alpn']} vs {cfg}")
            if case.get("chunks") and not dtls:
                data = tls_records(tls_message_of(data), case["chunks"], [data[2], 3])
            return dtls, [data], tr
        if k == "msg":
            m = unhx(case["msg_hex"])
            if dtls:
                f = lambda sizes: dtls_records(chunk(m, sizes), [0xFF, 0xFD])
            else:
                f = lambda sizes: tls_records(m, sizes, [1, 3])
            return dtls, [f(case.get("chunks")), f(case.get("chunks_b"))], None
        if k == "bytes":
            return dtls, [unhx(case["data_hex"])], None
        raise ValueError("unknown case kind " + str(k))

    @staticmethod
    def validate_spec(spec):
        """a built case must describe a well-formed hello (shrinking/mutating a case dict may break that)"""
        ok = (len(unhx(spec["ver_hex"])) == 2 and len(unhx(spec["random_hex"])) == 32 and len(unhx(spec["sid_hex"])) <= 32
              and len(unhx(spec.get("cookie_hex", "-"))) <= 255 and 1 <= len(spec["ciphers"]) < 32768
              and all(0 <= c < 65536 for c in spec["ciphers"]) and 1 <= len(unhx(spec["comp_hex"])) <= 255)
        for e in (spec["exts"] or []) if ok else []:
            if e["t"] == "sni": ok = ok and len(e["names"]) >= 1 and all(0 <= nt < 256 and len(unhx(h)) < 65536 for nt, h in e["names"])
            elif e["t"] == "alpn": ok = ok and len(e["protos"]) >= 1 and all(1 <= len(unhx(h)) < 256 for h in e["protos"])
            else: ok = ok and e["typ"] not in (0, 16) and 0 <= e["typ"] < 65536
        if ok and spec["exts"]:
            typs = [build_ext(e)[0] for e in spec["exts"]]
            ok = len(set(typs)) == len(typs)
        if not ok: raise Skip("not a well-formed hello spec")
        # the harness' builder and its strict reader must agree with each other (else the harness is broken)
        one = dict(spec); one["chunks"] = []; one["frags"] = None; one["recvers"] = None; one.pop("trail_hex", None)
        if strict_read(build_wire(one), bool(spec["dtls"]))["exts"] != truth_from_spec(spec)["exts"]:
            raise RuntimeError("harness builder and strict reader disagree")

    def n_frags(self, case):
        if not case["dtls"]: return 1
        if case["kind"] == "built": return len(chunk(build_body(case), case.get("frags"))) or 1
        if case["kind"] == "real":
            data, n, r = unhx(case["data_hex"]), 0, None
            r = Rd(data)
            while not r.eof():
                r.take(11); rec = Rd(r.vec(2))
                while not rec.eof():
                    rec.take(9); rec.vec(3); n += 1
            return n
        return 1

    def tie_prefixes(self, case, wire):
        """a few deterministic prefix lengths that are also sent to the model"""
        h = int(hashlib.sha256(wire).hexdigest()[:8], 16)
        n = len(wire)
        pts = {0, n // 2, max(0, n - 1), h % (n + 1), (h >> 8) % (n + 1), min(n, 5), min(n, 13)}
        if n > 4000: pts = {min(n, 13 if case["dtls"] else 5)}      # big inputs: header prefix + the record-end points below
        if case["kind"] in ("built", "real") and self.n_frags(case) < 2:
            try:
                e = hello_end_offset(wire, bool(case["dtls"]))
                pts |= {max(0, e - 1), e} | ({min(n, e + 1)} if n <= 4000 else set())   # just before / at / after the completing record's end
            except NotWellFormed:
                pass
        return sorted(pts)

    def impl(self, case):
        if case["kind"] == "host":
            try:
                v = netcheck.is_valid_host(unhx(case["name_hex"]))
                return {"valid": v if isinstance(v, bool) else "not-a-bool"}
            except Exception as e:
                return {"valid": "exc:" + type(e).__name__}
        if case["kind"] == "nprep":
            # reference = the interpreter's own encodings.idna.nameprep (library the model's tables are generated from)
            import encodings.idna as I
            try:
                return {"prep": ",".join(str(ord(c)) for c in I.nameprep("".join(chr(c) for c in case["cps"]))) or "-"}
            except UnicodeError:
                return {"prep": "!"}
        if case["kind"] == "starts":
            fn = net_tls.starts_like_dtls_record if case["dtls"] else net_tls.starts_like_tls_record
            try:
                return {"starts": bool(fn(unhx(case["data_hex"])))}
            except Exception as e:
                return {"starts": "exc:" + type(e).__name__}
        dtls, wires, truth = self.resolve(case)
        wire = wires[0]
        obs = {"whole": [run_parse(dtls, w) for w in wires]}
        segs = cut(wire, case.get("cuts"))
        # exactly what ClientTLSLayer.receive_handshake_data does: recv_buffer.extend(data); parse(recv_buffer)
        buf, inc = bytearray(), {"o": "incomplete"}
        for s in segs:
            buf.extend(s)
            r = run_parse(dtls, buf)
            if r["o"] != "incomplete":
                inc = r; break
        obs["inc"] = inc
        obs["pre"] = [run_parse(dtls, wire[:i]) for i in self.tie_prefixes(case, wire)]
        if case.get("allcuts"):
            bad, final, first_done = [], obs["whole"][0], None
            for i in range(len(wire) + 1):
                r = run_parse(dtls, wire[:i])
                if r["o"] != "incomplete" and first_done is None: first_done = i
                if r["o"] != "incomplete" and r != final: bad.append([i, r])
            obs["prefix_bad"] = bad[:3]
            obs["first_done"] = first_done
        if case.get("layer"):
            obs["layer"] = drive_layer(dtls, segs)
        if truth is not None and self.n_frags(case) >= 2:
            # the same hello as a single fragment (for the F-C13a classifier)
            if case["kind"] == "built":
                obs["unfrag"] = run_parse(dtls, build_wire(case, frag_sizes=None))
            else:
                body = strict_handshake_body(wire, True)
                obs["unfrag"] = run_parse(dtls, dtls_records(dtls_fragments(body, None), [0xFF]))
            # what the recorded defect predicts: the first fragment alone is taken for the whole message
            obs["firstfrag"] = run_parse(dtls, first_fragment_flight(wire))
        return obs

    # ---------------------------------------------------------------------------------------------
    def oracle(self, case, obs):
        fails = []
        if case["kind"] == "host":
            # ClientHello.sni calls is_valid_host outside any try: an exception there is "failing in another way"
            if not isinstance(obs["valid"], bool):
                fails.append(f"totality: is_valid_host({unhx(case['name_hex'])!r}) ended with {obs['valid']}")
            return fails
        if case["kind"] == "nprep": return fails          # tie-only kind: the model's nameprep against the interpreter's
        if case["kind"] == "starts":
            if not isinstance(obs["starts"], bool): fails.append(f"totality: starts_like_*_record ended with {obs['starts']}")
            return fails
        _, wires, truth = self.resolve(case)
        allr = obs["whole"] + [obs["inc"]] + obs["pre"] + ([obs["layer"]] if "layer" in obs else []) + [r for _, r in obs.get("prefix_bad", [])]
        # "it never fails in another way": outcome is one of incomplete / ClientHello / ValueError(invalid)
        for r in allr:
            if r.get("o") not in ALLOWED_OUTCOMES:
                fails.append(f"totality: parsing ended with {r.get('type')} instead of None/ClientHello/ValueError"); break
        # "the SNI, ALPN offers, cipher suites and extensions it reports equal those an independent TLS parser reads"
        # (expected values come from the case's inputs — the spec / the independent reader — never from another
        #  observation of the implementation; every way the bytes were delivered is compared with them directly)
        if truth is not None:
            for tag, r in self.truth_views(obs):
                tf = truth_fails(truth, r)
                if tf: fails.append(f"truth{tag}: " + "; ".join(tf))
            # every prefix: before the record that completes the hello ends an independent reader has no hello yet
            # ("reports an incomplete hello"), from there on it has exactly this hello. (Lenient branch: not applied to
            # fragmented DTLS flights, whose reading is finding F-C13a.)
            if self.n_frags(case) < 2:
                end = hello_end_offset(wires[0], bool(case["dtls"]))
                pts = list(zip(self.tie_prefixes(case, wires[0]), obs["pre"]))
                for i, r in pts:
                    if i < end:
                        if r.get("o") != "incomplete":
                            fails.append(f"truth(prefix {i}<{end}): {r.get('o')} although the hello's last record ends at {end}"); break
                    else:
                        tf = truth_fails(truth, r)
                        if tf: fails.append(f"truth(prefix {i}>={end}): " + "; ".join(tf)); break
                if "first_done" in obs and obs["first_done"] != end:
                    fails.append(f"truth(prefixes): the first prefix with a verdict has length {obs['first_done']}, the hello's last record ends at {end}")
        # "Splitting a valid ClientHello across any number of TLS records and TCP segments changes none of these results"
        if obs["inc"] != obs["whole"][0]:
            fails.append(f"segmentation: fed in segments {case.get('cuts')} gives {str(obs['inc'])[:150]}, in one piece {str(obs['whole'][0])[:150]}")
        if obs.get("prefix_bad"):
            i, r = obs["prefix_bad"][0]
            fails.append(f"segmentation: the prefix of length {i} already yields {str(r)[:150]} but the full input yields {str(obs['whole'][0])[:150]}")
        if "layer" in obs and obs["layer"] != obs["whole"][0]:
            fails.append(f"segmentation(layer): ClientTLSLayer reports {str(obs['layer'])[:150]}, parse of the whole input {str(obs['whole'][0])[:150]}")
        if case["kind"] == "msg" and obs["whole"][0] != obs["whole"][1]:
            fails.append(f"records: chunking {case.get('chunks')} gives {str(obs['whole'][0])[:120]}, chunking {case.get('chunks_b')} gives {str(obs['whole'][1])[:120]}")
        return fails

    @staticmethod
    def truth_views(obs):
        """the observations that must equal the ground truth: whole input, fed in segments, through the layer"""
        out = [("", obs["whole"][0]), ("(segments)", obs["inc"])]
        if "layer" in obs: out.append(("(layer)", obs["layer"]))
        return out

    def known(self, case, obs, failure):
        """F-C13a exactly: input class = DTLS ClientHello (built/real) in >= 2 handshake fragments whose single-fragment
        form IS read correctly; failure = the ground-truth clause ("truth:"), and what mitmproxy returned is precisely
        what the recorded defect predicts: the result of taking the FIRST fragment alone for the whole message."""
        if case.get("kind") not in ("built", "real") or not case.get("dtls"): return None
        view = {f"truth{tag}: ": r for tag, r in self.truth_views(obs)}
        clause = next((c for c in view if failure.startswith(c)), None)
        if clause is None: return None                               # only the ground-truth clause is the recorded failure
        got = view[clause]
        if "unfrag" not in obs or "firstfrag" not in obs: return None
        if self.n_frags(case) < 2: return None
        _, _, truth = self.resolve(case)
        if truth_fails(truth, obs["unfrag"]): return None            # the hello itself is not read correctly: something else
        if got != obs["firstfrag"]: return None                      # not "first fragment taken for the message"
        if got.get("o") not in ("invalid", "hello"): return None
        if failure != clause + "; ".join(truth_fails(truth, got)): return None
        return "F-C13a"

    def known_selftest(self):
        """frozen observations: positive witness + near misses of the F-C13a classifier (AssertionError -> INFRA).
        Nothing here runs mitmproxy, so a changed tree cannot turn this into INFRA."""
        import copy
        from common.check import load_known
        db = load_known(self.prop)
        if "F-C13a" not in db: return
        w = db["F-C13a"]["witness"]
        truth = truth_from_spec(w)
        good = {"o": "hello", "sni": None, "alpn": [], "ciphers": list(w["ciphers"]), "exts": []}
        assert not truth_fails(truth, good), "selftest: frozen 'good' observation does not match the witness' truth"
        inv = {"o": "invalid"}
        def obs(whole, unfrag=good, firstfrag=inv):
            return {"whole": [whole], "inc": whole, "pre": [], "unfrag": unfrag, "firstfrag": firstfrag}
        f_inv = "truth: " + "; ".join(truth_fails(truth, inv))
        trunc = dict(good, ciphers=[])                                    # a truncated-but-parsable first fragment
        f_trunc = "truth: " + "; ".join(truth_fails(truth, trunc))
        triples = [
            (w, obs(inv), f_inv, "F-C13a"),                              # the recorded witness
            (w, obs(inv), f_inv.replace("truth: ", "truth(segments): "), "F-C13a"),   # same clause, segment-wise delivery
            (w, dict(obs(inv), inc={"o": "incomplete"}), "truth(segments): outcome incomplete ()", None),   # segments differ from first-fragment
            (w, obs(inv), f_inv.replace("truth: ", "truth(layer): "), None),              # no layer observation in this obs
            (w, obs(trunc, firstfrag=trunc), f_trunc, "F-C13a"),         # "…or reads a truncated hello"
            # (a) same input class, different failure
            (w, obs(inv), "segmentation: fed in segments [5] gives {'o': 'invalid'}, in one piece {'o': 'hello'}", None),
            (w, obs(inv), "totality: parsing ended with KeyError instead of None/ClientHello/ValueError", None),
            (w, obs({"o": "exc", "type": "IndexError"}, firstfrag={"o": "exc", "type": "IndexError"}), "truth: outcome exc (IndexError)", None),
            (w, obs({"o": "incomplete"}), "truth: outcome incomplete ()", None),   # not what "first fragment only" gives
            (w, obs(trunc, firstfrag=inv), f_trunc, None),               # wrong hello, but not the first fragment's
            (w, obs(inv, unfrag=inv), f_inv, None),                      # the unfragmented hello fails too: another defect
            (w, obs(inv), "truth: sni: mitmproxy 'x' vs independent reader None", None),   # text is not the computed one
        ]
        # (b) neighbouring inputs, same kind of failure
        one = copy.deepcopy(w); one["frags"] = None
        triples.append((one, obs(inv), f_inv, None))                     # DTLS, ONE fragment
        t = copy.deepcopy(w); t["dtls"] = 0; t.pop("cookie_hex", None); t.pop("frags", None); t["ver_hex"] = "0303"; t["recvers"] = [1]; t["chunks"] = [21]
        triples.append((t, obs(inv), f_inv, None))                       # TLS hello split over two records
        triples.append(({"kind": "bytes", "dtls": 1, "data_hex": hx(build_wire(w)), "cuts": []}, obs(inv), f_inv, None))
        for i, (c, o, f, want) in enumerate(triples):
            got = self.known(c, o, f)
            assert got == want, f"known_selftest #{i}: known() = {got!r}, expected {want!r} for failure {f[:60]!r}"
        # abstain branches: every generated case must be judged (no Skip), and the SNI demand is exact wherever it can be
        from common.prng import Rng
        rng = Rng(20260922)
        for _ in range(150):
            spec = self.add_layout(rng, self.gen_spec(rng))
            self.validate_spec(spec)                                     # raises Skip (-> INFRA) if the generator makes junk
        assert truth_from_exts([1], [(0, b"", [(1, b"a.b")])])["sni"] == ["exact", None]
        assert truth_from_exts([1], [(0, b"", [(0, b"a.b")])])["sni"] == ["exact", "a.b"]
        assert truth_from_exts([1], [(0, b"", [(0, b"a b")])])["sni"] == ["oneof", ["a b"]]

    # ---------------------------------------------------------------------------------------------
    def model_lines(self, case):
        if case["kind"] == "host":
            nm = unhx(case["name_hex"])
            return [f"vhost {case['name_hex']}", vhostT_line(nm)] + vhostN_lines(nm) + [f"vhostF {case['name_hex']}"]
        if case["kind"] == "starts": return [f"starts {1 if case['dtls'] else 0} {case['data_hex']}"]
        if case["kind"] == "nprep": return ["nprep " + (",".join(map(str, case["cps"])) or "-")]
        dtls, wires, _ = self.resolve(case)
        d = "1" if dtls else "0"
        lines = [f"parse {d} {hx(w)}" for w in wires]
        segs = cut(wires[0], case.get("cuts"))
        lines.append(f"feed {d} " + " ".join(hx(s) for s in segs) if segs else f"feed {d}")
        lines += [f"parse {d} {hx(wires[0][:i])}" for i in self.tie_prefixes(case, wires[0])]
        for nm in self.ace_names(case):         # names that will need library answers, known from the spec: same batch
            lines += host_lines_with_lib(nm)
        if case["kind"] == "built":             # the Lean builder's bytes for this very hello (compared with the harness builder's wire)
            lines.append(build_line(case)[0])
        return lines

    @staticmethod
    def ace_names(case):
        if case["kind"] != "built": return []
        out = []
        for e in case["exts"] or []:
            if e["t"] == "sni":
                for _, h in e["names"]:
                    nm = unhx(h)
                    if b"xn--" in nm and nm not in out: out.append(nm)
        return out

    @staticmethod
    def _lst(s):
        parts = s.split(",")
        n = int(parts[0]); items = parts[1:]
        assert len(items) == n, s
        return items

    def model_obs(self, case, replies):
        if case["kind"] == "host":
            bits = replies[0]
            if len(bits) != 4 or set(bits) - {"0", "1"}: return {"model-said": bits}
            try:
                v = pick_host_bit(unhx(case["name_hex"]), bits)
            except Exception as e:              # a library answer failed in an undocumented way: still compare
                return {"valid": "lib-exc:" + type(e).__name__}
            # second transcription level: ipaddress inside the model (validHostT), only idna(xn--) supplied
            if replies[1] != ("1" if v else "0"): return {"valid": f"validHost says {v}, validHostT says {replies[1]}"}
            # third level: the idna codec inside the model (validHostN): decoded texts and verdict
            nm = unhx(case["name_hex"])
            if replies[2:5] != vhostN_expect(nm, v):
                return {"valid": f"idna transcription: model {replies[2:5]} vs interpreter {vhostN_expect(nm, v)}"}
            # fourth level: nameprep from the regenerated Unicode tables — the model answers with NO library input
            if replies[5] != ("1" if v else "0"): return {"valid": f"validHostFull says {replies[5]}, is_valid_host {v}"}
            return {"valid": v}
        if case["kind"] == "starts":
            return {"table": replies[0][:1], "source": replies[0][1:]}
        if case["kind"] == "nprep": return {"prep": replies[0]}
        out = []
        built = None
        if case["kind"] == "built":
            built = replies[-1]; replies = replies[:-1]
        names = self.ace_names(case)
        foreseen = {}
        if names:
            extra = replies[len(replies) - 5 * len(names):]; replies = replies[:len(replies) - 5 * len(names)]
            for i, nm in enumerate(names): foreseen[nm] = judge_host_replies(nm, extra[5 * i:5 * i + 5])
        for rep in replies:
            f = rep.split(" ")
            if f[0] in ("incomplete", "invalid") and len(f) == 1:
                out.append({"o": f[0]}); continue
            if f[0] != "hello" or len(f) != 6:
                out.append({"o": "model-said", "raw": rep[:100]}); continue
            kv = dict(x.split("=", 1) for x in f[1:])
            sni = None
            # the model PREDICTS is_valid_host (transcribed regex/length/idna-fast-path rules); only the two library
            # answers (idna slow path with xn--, ipaddress) are supplied: each candidate comes with its 4 verdicts
            try:
                for cand in self._lst(kv["s"]):
                    ch, bits, verdict = cand.split(":")
                    cb = unhx(ch)
                    v = pick_host_bit(cb, bits)
                    # validHostT: decided by the model alone unless the name contains xn-- (then: own driver call)
                    vt = verdict if verdict in ("0", "1") else foreseen[cb] if cb in foreseen else model_host_with_lib(cb)
                    if vt != ("1" if v else "0"):
                        sni = f"validHost says {v}, validHostT says {vt} for {ch}"; break
                    if v:
                        sni = cb.decode("ascii", "replace"); break
            except Exception as e:
                sni = "lib-exc:" + type(e).__name__
            # `Hello.sni validHostFull` as the DRIVER computed it (no library answer, no Python re-implementation): this is the
            # prediction that is compared with the code; the candidate walk above stays as a consistency check of the nested models
            n = kv["n"]
            sni_model = None if n == "none" else unhx(n.split(":", 1)[1]).decode("ascii", "replace")
            if sni != sni_model and not (isinstance(sni, str) and sni.startswith(("validHost says", "lib-exc:"))):
                sni = f"Hello.sni validHostFull = {sni_model!r} but the candidate walk with library answers gives {sni!r}"
            elif sni == sni_model:
                sni = sni_model
            out.append({"o": "hello", "sni": sni, "alpn": self._lst(kv["a"]), "ciphers": [int(x) for x in self._lst(kv["c"])],
                        "exts": [[int(x.split(":")[0]), x.split(":")[1]] for x in self._lst(kv["e"])]})
        if built is not None: out.append({"build": built})
        return out

    def impl_view(self, case, obs):
        if case["kind"] == "host": return {"valid": obs["valid"]}
        if case["kind"] == "nprep": return {"prep": obs["prep"]}
        if case["kind"] == "starts":
            b = "1" if obs["starts"] is True else "0" if obs["starts"] is False else str(obs["starts"])
            return {"table": b, "source": b}
        view = obs["whole"] + [obs["inc"]] + obs["pre"]
        if case["kind"] == "built": view = view + [{"build": build_line(case)[1]}]      # expected: the harness builder's wire
        return view

    # ---------------------------------------------------------------------------------------------
    def classify(self, case, obs):
        if case["kind"] == "host": return None if case["name_hex"] == "-" else "host:" + case["name_hex"][:80]
        if case["kind"] == "starts": return f"starts:{case['dtls']}:{case['data_hex'][:20]}"
        if case["kind"] == "nprep": return "nprep:" + ",".join(map(str, case["cps"][:12])) if case["cps"] else None
        _, wires, _ = self.resolve(case)
        if not wires[0]: return None
        return hashlib.sha256(repr((case["dtls"], wires, case.get("cuts"))).encode()).hexdigest()[:20]

    def branches(self, case, obs):
        if case["kind"] == "host": return ["kind:host", f"host:{obs['valid']}"]
        if case["kind"] == "starts": return ["kind:starts", f"starts:{obs['starts']}"]
        if case["kind"] == "nprep": return ["kind:nprep", "nprep:" + ("error" if obs["prep"] == "!" else "ok")]
        w = obs["whole"][0]
        out = [f"kind:{case['kind']}", f"{'dtls' if case['dtls'] else 'tls'}:{w['o']}"]
        if w["o"] == "hello":
            out.append("sni:" + ("none" if w["sni"] is None else "some"))
            out.append("alpn:" + ("none" if not w["alpn"] else "some"))
            out.append("exts:" + ("none" if not w["exts"] else "some"))
        if case.get("layer"): out.append("via-layer")
        if case.get("allcuts"): out.append("all-prefixes")
        if case["kind"] in ("built", "real"):
            if self.n_frags(case) >= 2: out.append("dtls-fragmented")
            if case.get("chunks"): out.append("multi-record")
        if len(case.get("cuts") or []) >= 1: out.append("segmented")
        return out

    def neighbours(self, case, rng):
        if case["kind"] in ("host", "starts", "nprep"): return
        _, wires, _ = self.resolve(case)
        w = wires[0]
        for i in range(min(len(w), 80)):
            for v in (0, 1, 0xff, w[i] ^ 1):
                b = bytearray(w); b[i] = v
                yield {"kind": "bytes", "dtls": case["dtls"], "data_hex": hx(b), "cuts": [i], "allcuts": 1}

    def exhaustive(self, tier):
        from common.prng import Rng
        rng = Rng(4242)
        for s in self.short_specs(rng, 6):
            n = len(build_body(s)) + 4
            for i in range(n):
                c = dict(s); c["chunks"] = [i] if i else []; c["allcuts"] = 1; c["cuts"] = []
                yield c
        for c in self.real_pool(rng, "quick"):
            c["allcuts"] = 1; c["cuts"] = []
            yield c
