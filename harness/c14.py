"""C14 — TLS interception is byte-transparent after the handshake.

Anchors: mitmproxy/proxy/layers/tls.py (TLSLayer.receive_data / send_data / tls_interact / receive_handshake_data,
ServerTLSLayer, ClientTLSLayer), mitmproxy/proxy/tunnel.py (TunnelLayer), mitmproxy/addons/tlsconfig.py (tls_start_*).

impl():  the real ClientTLSLayer / ServerTLSLayer, driven by harness/common/world.py with the real TlsConfig addon answering the
         tls_* hooks, against an in-memory pyOpenSSL peer (memory BIOs).  A case is a scenario: handshake (flights cut into TCP
         segments, possibly holding back the tail so that application data follows Finished in the same segment), peer writes of
         chosen record sizes cut at chosen places (cuts may fall inside records and across writes), child sends, unrelated events,
         close_notify, TCP close, child close.  Observed per delivered event: what the child layer was given (chunk by chunk), what
         the peer decrypted, closes / opens / hooks.
oracle(): the property's sentences over that log (plaintext streams equal, exactly once, in order; close after data).
model tie: the same scenario re-framed record by record for the reference codec of the Lean model (Model/C14_Ref.lean) and run
         through the model of the layers (Model/C14.lean); every step's child events (with chunk boundaries), decoded plaintext,
         closes/opens/hooks and the final tunnel state must be EQUAL.
"""
import json
from common.check import PropertyCheck, Skip, hx, unhx

from OpenSSL import SSL
from mitmproxy.connection import ConnectionState

HOOKN = {"tls_start_client": 0, "tls_start_server": 0, "tls_clienthello": 1, "tls_established_client": 2,
         "tls_established_server": 2, "tls_failed_client": 3, "tls_failed_server": 3}
SIZES = [1, 2, 17, 100, 1000, 4096, 16383, 16384]


def pattern(n, salt):
    return bytes((i * 7 + salt * 13 + (i >> 8)) & 0xff for i in range(n))


def tls_records(b):
    """split a TLS byte stream into records (5-byte header)"""
    out, i = [], 0
    while i < len(b):
        n = int.from_bytes(b[i + 3:i + 5], "big")
        out.append(b[i:i + 5 + n]); i += 5 + n
    if i != len(b): raise Skip()
    return out


def mrec(ty, payload=b""):
    return bytes([ty, len(payload) >> 8, len(payload) & 0xff]) + payload


class Scenario:
    def __init__(self, case):
        from c14_tls import Child, Peer, Do, tls_addon, addon_hooks, make_ctx
        from common.world import World
        from mitmproxy.proxy import commands, events
        from mitmproxy.proxy.layers import tls as proxy_tls
        self.case = case
        self.side = case["side"]                     # "server-open" | "server-eager" | "client"
        self.commands, self.Do = commands, Do
        ta, tctx = tls_addon("c14-conf")
        tctx.options.ssl_insecure = True
        self.ctx = ctx = make_ctx(tctx, client_sni="example.mitmproxy.org", address=("example.mitmproxy.org", 443))
        self.steps = []                              # (model tokens, real observation)
        self.records = []                            # inbound stream: [real bytes, model bytes, plaintext]
        self.delivered = 0                           # real offset delivered so far
        self.hooks = []
        self.child_sends = bytearray()
        self.child_rules = {}
        self.do_payload = {}
        self.peer_flights = 0
        if self.side == "client":
            ctx.layers = [object()]
            self.tl = proxy_tls.ClientTLSLayer(ctx)
            self.conn = ctx.client
            cctx = SSL.Context(SSL.TLS_CLIENT_METHOD)
            pc = SSL.Connection(cctx); pc.set_connect_state(); pc.set_tlsext_host_name(b"example.mitmproxy.org")
            script = None
        else:
            self.tl = proxy_tls.ServerTLSLayer(ctx)
            self.conn = ctx.server
            sctx = SSL.Context(SSL.TLS_SERVER_METHOD)
            entry = ta.certstore.get_cert("example.mitmproxy.org", [])
            sctx.use_certificate(entry.cert.to_cryptography()); sctx.use_privatekey(entry.privatekey)
            pc = SSL.Connection(sctx); pc.set_accept_state()
            if self.side == "server-open":
                def script(child, ev):
                    if isinstance(ev, events.Start):
                        cmd = commands.OpenConnection(ctx.server)
                        cmd.blocking = False          # the child is not suspended: the reply reaches it as an event (and is logged)
                        yield cmd
            else:
                script = None
        self.peer = Peer(pc)
        self.child = Child(ctx, script)
        self.tl.child_layer = self.child
        self.w = World(self.tl, ctx, on_hook=addon_hooks(ta, self.hooks))
        if self.side == "server-eager":
            self.w.add_open_server(ctx.server)
        self.lab = self.w.label(self.conn)
        self.cc = 0                                  # ConnectionClosed(conn) events the world has delivered to the layer
        orig = self.w._handle

        def counting(ev):
            if isinstance(ev, events.ConnectionClosed) and ev.connection is self.conn: self.cc += 1
            return orig(ev)
        self.w._handle = counting
        self.off = 0
        self.tpos, self.cpos = 0, 0
        self.hello_len = 0

    # -- observation of one real step ------------------------------------------------------------------------------
    def observe(self):
        w = self.w
        toks, buf = [], bytearray()

        def flush():
            if buf:
                before = len(self.peer.plain)
                self.peer.feed(bytes(buf)); buf.clear(); self.peer.step()
                p = bytes(self.peer.plain[before:])
                if p: toks.append("P" + hx(p))
        for t in w.trace[self.tpos:]:
            if t[0] == "send" and t[1] == self.lab: buf.extend(t[2]); continue
            if t[0] == "hook":
                if t[1] in HOOKN: flush(); toks.append("H%d" % HOOKN[t[1]])
                continue
            if t[0] == "close" and t[1] == self.lab: flush(); toks.append("X")
            elif t[0] == "ignored" and t[1] == "CloseConnection" and t[2] == self.lab: flush(); toks.append("X")   # issued by the layer, moot for the world
            elif t[0] == "open" and t[1] == self.lab: flush(); toks.append("OT")
            elif t[0] == "open": flush(); toks.append("OS")
        flush()
        self.tpos = len(w.trace)
        cl = []
        for e in self.child.log[self.cpos:]:
            if e[0] == "start": cl.append("st")
            elif e[0] == "data": cl.append("d" + hx(e[2]))
            elif e[0] == "closed": cl.append("cl")
            elif e[0] == "opened": cl.append("op1" if e[1] else "op0")
            elif e[0] == "do": cl.append("o%d" % e[1])
        self.cpos = len(self.child.log)
        # whatever the peer produced in reaction (handshake flights, tickets) joins the inbound stream
        self.collect_peer(kind="auto")
        return "c:" + ("+".join(cl) or "-") + ";u:" + ("+".join(toks) or "-")

    def collect_peer(self, kind, plain=b""):
        out = self.peer.pull()
        if not out: return 0
        recs = tls_records(out)
        if kind == "auto":
            self.peer_flights += 1
            completing = 2 if self.side == "client" else 1
            for i, r in enumerate(recs):
                if self.peer_flights < completing: m = mrec(0x16, b"\x00")
                elif self.peer_flights == completing: m = mrec(0x16, b"\x01" if i == len(recs) - 1 else b"\x00")
                else: m = mrec(0x14)                  # session tickets and the like
                self.records.append([r, m, b""])
            if self.peer_flights == 1 and self.side == "client":
                if len(recs) != 1: raise Skip()
                self.hello_len = len(self.records[0][1])
        elif kind == "app":
            if len(recs) != 1: raise Skip()
            self.records.append([recs[0], mrec(0x17, plain), plain])
        elif kind == "close":
            if len(recs) != 1: raise Skip()
            self.records.append([recs[0], mrec(0x15), None])
        return len(recs)

    def step(self, model_tokens, action):
        c0 = self.cc
        action()
        # the world answers a CloseConnection of a readable connection with ConnectionClosed within the same step
        extra = self.cc - c0 - model_tokens.count("C")
        self.steps.append([list(model_tokens) + ["C"] * max(0, extra), self.observe()])

    # -- delivering inbound bytes ----------------------------------------------------------------------------------
    def total(self): return sum(len(r[0]) for r in self.records)

    def to_model(self, off):
        pos_r = pos_m = 0
        for r, m, _ in self.records:
            if off < pos_r + len(r):
                rel = off - pos_r
                return pos_m + (0 if rel == 0 else min(rel, len(m) - 1))
            pos_r += len(r); pos_m += len(m)
        return pos_m

    def deliver(self, cuts, hold):
        """cut the undelivered inbound bytes at the given fractions and deliver the pieces (all but the last if hold)"""
        a, b = self.delivered, self.total()
        if b <= a: return
        pts = sorted({a + int(f * (b - a)) for f in cuts} - {a, b})
        pts = [p for p in pts if a < p < b]
        bounds = [a] + pts + [b]
        real = b"".join(r[0] for r in self.records)
        model = b"".join(r[1] for r in self.records)
        segs = list(zip(bounds, bounds[1:]))
        if hold: segs = segs[:-1]
        for x, y in segs:
            mseg = model[self.to_model(x):self.to_model(y)]
            self.delivered = y
            self.step(["D" + hx(mseg)], lambda x=x, y=y: self.recv(real[x:y]))

    def fully_delivered_plain(self):
        """plaintext of the records that have been delivered completely, and whether a delivered record is close_notify"""
        pos, out, closed = 0, bytearray(), False
        for r, m, p in self.records:
            pos += len(r)
            if pos > self.delivered: break
            if closed: continue
            if p is None: closed = True
            else: out.extend(p)
        return bytes(out), closed

    # -- the scenario ----------------------------------------------------------------------------------------------
    def run(self):
        case, w, commands = self.case, self.w, self.commands
        # Start (the reply to a child's OpenConnection arrives within the same world step)
        if self.side == "server-open":
            self.child_rules["start"] = "o"
            self.step(["S0", "R0"], w.start)
        else:
            if self.side == "client": self.peer.step()          # the client speaks first
            self.step(["S1"], w.start)
        n_do = 0
        self.n_injected = 0
        for op in case["ops"]:
            k = op[0]
            if self.peer_fin and k in ("hs", "pw", "pc", "junk", "tc"): continue
            if k == "hs":
                flights = op[1]
                for i in range(6):
                    if self.delivered >= self.total(): break
                    cuts = flights[i] if i < len(flights) else []
                    last = self.peer_flights >= (2 if self.side == "client" else 1)
                    self.deliver(cuts, hold=bool(op[2]) and last)
                    if last: break
            elif k == "pw":
                if not self.peer.done: self.deliver([], hold=False)      # a peer cannot write before its handshake is done
                if not self.peer.done: continue
                for j, size in enumerate(op[1]):
                    p = pattern(size, len(self.records) + j)
                    try:
                        self.peer.c.send(p)
                    except SSL.Error:
                        raise Skip()
                    self.collect_peer("app", p)
                self.deliver(op[2], hold=bool(op[3]))
            elif k == "cs":
                d = pattern(op[1], 77 + n_do)
                n = n_do; n_do += 1
                self.child_rules["o%d" % n] = "s" + hx(d)
                self.do_payload[n] = d
                if self.tl.tunnel_state.name != "OPEN" and self.tl.command_to_reply_to is not None:
                    self.premature_send = True       # delivered to the child at once (not queued): it writes before the tunnel is open
                self.n_injected += 1
                self.step(["O%d" % n], lambda d=d, n=n: w.inject(self.Do([commands.SendData(self.conn, d)], n)))
            elif k == "ot":
                n = n_do; n_do += 1
                self.child_rules["o%d" % n] = "-"
                self.n_injected += 1
                self.step(["O%d" % n], lambda n=n: w.inject(self.Do([], n)))
            elif k == "pc":
                if not self.peer.done: self.deliver([], hold=False)
                if not self.peer.done: continue
                try:
                    self.peer.c.shutdown()
                except SSL.Error:
                    raise Skip()
                self.collect_peer("close")
                self.deliver(op[1], hold=False)
            elif k == "junk":
                # a plaintext fatal alert record: handshake failure while establishing, "TLS Error" afterwards
                self.deliver([], hold=False)
                if self.delivered == 0 or self.conn not in w.transports: continue
                established = self.tl.tunnel_state.name == "OPEN"
                self.records.append([b"\x15\x03\x03\x00\x02\x02\x28", mrec(0x99) if established else mrec(0x16, b"\x02"), b""])
                self.junk = True
                self.deliver([], hold=False)
                break
            elif k == "tc":
                self.deliver([], hold=False)
                self.step(["C"], self.tcp_close)
                self.peer_fin = True            # the peer has half-closed: it sends nothing more, but still reads what we write
            elif k == "cx":
                n = n_do; n_do += 1
                self.child_rules["o%d" % n] = "x"
                self.n_injected += 1
                self.step(["O%d" % n], lambda n=n: w.inject(self.Do([commands.CloseConnection(self.conn)], n)))
                break
        self.deliver([], hold=False) if case.get("flush", True) and self.conn in w.transports and (self.conn.state & ConnectionState.CAN_READ) else None

    premature_send = False
    junk = False
    peer_fin = False

    def recv(self, data):
        """bytes from the peer; like tcp_close: server.py's reader keeps reading after the TLS layer cleared CAN_READ on close_notify"""
        from mitmproxy.proxy import events
        if not self.w.recv(self.conn, data) and self.conn in self.w.transports:
            self.w.deliver(events.DataReceived(self.conn, data))

    def tcp_close(self):
        """EOF from the peer.  After a close_notify the TLS layer has cleared CAN_READ on the connection, for which world.peer_close
        declines; proxy/server.py's reader task still sees the EOF and reports it, which is what is replayed here."""
        from mitmproxy.proxy import events
        w, conn = self.w, self.conn
        if w.peer_close(conn) or conn not in w.transports: return
        conn.state &= ~ConnectionState.CAN_READ
        w._handle(events.ConnectionClosed(conn))
        if conn.state is not ConnectionState.CAN_WRITE: w._discard(conn)
        w.drain()


class Check(PropertyCheck):
    prop = "C14"
    design_ref = "§5 C14"
    level_text = ("Lean theorems about the model of TunnelLayer + TLSLayer/ServerTLSLayer/ClientTLSLayer with OpenSSL as an abstract codec obeying the "
                  "stream-faithfulness law (structure Laws). WHOLE CONNECTIONS — for EVERY event history from Start (flights cut anywhere, ClientHello buffering, "
                  "events stored while ESTABLISHING, any interleaving of data / child commands / unrelated events / closes), any child, any lawful codec whose "
                  "connection object starts fresh, as long as the model raised no exception: child_stream_exact (events routed = handled ++ stored [++ swallowed "
                  "after a failed client handshake], nothing lost or twice, in order; the DataReceived payloads are exactly the first `taken` bytes of the "
                  "plaintext of ALL bytes received, fed = all bytes received), child_stream_complete (a segment whose recv loop ends normally leaves the child "
                  "with the COMPLETE plaintext of the connection so far), peer_stream_exact (emitted ciphertext = engine output, and the peer's reading of it = "
                  "the concatenation of the child's accepted SendData payloads), close_last (when a segment makes close_notify visible the child gets the rest of "
                  "the data, then exactly one ConnectionClosed, and then holds the complete plaintext of the connection), send_after_half_close (tunnel level: the peer's "
                  "TCP close sets CLOSED, and a SendData of the child in that state is still encrypted and forwarded; peer's reading = accepted payloads), ref_codec_lawful + "
                  "child_stream_exact_ref + peer_stream_exact_ref (the framed record codec of the driver is a proved-lawful instance; the stream theorems hold for it "
                  "without hypotheses about the engine), child_stream_complete_run / close_last_run (the same two statements about `run (evs ++ [segment])` itself for a history that left "
                  "the tunnel OPEN), half_close_keeps_engine (the peer's TCP close on an OPEN tunnel whose child stays quiet leaves engine, ciphertext and accepted payloads "
                  "untouched and the tunnel CLOSED — the state send_after_half_close starts from). CLAUSES: 'every byte the client sends reaches the inner layer exactly once, in order, regardless of record/"
                  "segment splits' = child_stream_exact + child_stream_complete / oracle clause got == expect_child; 'every byte the inner layer sends reaches the "
                  "client' = peer_stream_exact + send_after_half_close / oracle clauses peer_plain == cs_payloads and injected events handled once in order; 'same on "
                  "the server side' = the theorems are for both Sides / scenarios on client, server-open, server-eager; 'close_notify delivered as close after all "
                  "preceding data' = close_last + close_after_data / oracle clause on the position of `cl`; 'data immediately after the handshake, queued events' = "
                  "queued_during_handshake_in_order + QG invariant / hold-tail scenarios. Proved by an inductive invariant over "
                  "histories (queue discipline QG, crash monotonicity, engine-vs-layer ghost invariant TG). Plus the per-call theorems child_receives_exactly, "
                  "client_receives_exactly, close_after_data, queued_during_handshake_in_order for arbitrary states. Model tied to the real layers + real "
                  "TlsConfig + real OpenSSL by scenario runs compared step by step (child events with chunk boundaries, decrypted plaintext, closes/opens/hooks, "
                  "final state).")
    level_note = ("PARTIAL: everything is RELATIVE to the stream-faithfulness law of the TLS engine (OpenSSL's; structure fields, never axioms; shown "
                  "satisfiable by the pass-through codec `idLaws` AND by the driver's framed reference codec: `refLaws : Laws refCodec` is proved (Lemmas/C14_RefL.lean — "
                  "byte-wise framing automaton, one record-step function as both implementation and specification of the session's reading, states = the subtype "
                  "satisfying the consistency invariant), the compiled driver runs exactly that codec, and child_stream_exact_ref / peer_stream_exact_ref are the "
                  "whole-history theorems with no law or freshness hypothesis left). What remains assumed is that OpenSSL itself obeys the law. The "
                  "whole-history theorems are conditional on `crashed = false` (the model's stand-in for an exception of the real code, e.g. data for a layer "
                  "whose tls_start hook provided nothing). close_last: a second ConnectionClosed IS produced if further bytes arrive after a close_notify "
                  "(recv keeps answering ZeroReturn) — real behaviour, reproduced in the differential run; 'exactly one' is per segment. Assumes "
                  "Layer.handle_event's pause/replay (C04): hooks and OpenConnection are answered before the next event; the reply to OpenConnection is only "
                  "considered while command_to_reply_to is set; a second start_tls is the real code's `assert not self.tls`. Not modelled: ignore_connection, "
                  "ServerTLSLayer.wait_for_clienthello hand-over, DTLS. TLS 1.3 only in the differential run. The harness replays EOF / data after a close_notify "
                  "directly (world.py declines once the TLS layer cleared CAN_READ, proxy/server.py's reader does not). "
                  "ROUND-6 AUDIT DISCLOSURES: (i) the model branch `Env.serverFirst = true` (ClientTLSLayer.start_server_tls emitting OpenConnection(context.server)) is NOT tied: it "
                  "needs a ServerTLSLayer parent (`server_tls_available`), i.e. the two-layer composition that is not modelled; the driver fixes serverFirst = false and "
                  "no scenario sets establish_server_tls_first — theorems quantified over every env speak about that branch of the MODEL only; (ii) the first conjunct of "
                  "send_after_half_close (`closeEv` sets CLOSED) holds by the shape of `handle`, and its `t` is an arbitrary CLOSED state — that such a state is what a close "
                  "produces is half_close_keeps_engine (and the auditor's witness W5); (iii) child_stream_complete / close_last conclude about `receiveData child (run … evs) d`; "
                  "they coincide with the history `evs ++ [.data d]` when the tunnel is OPEN (child_stream_complete_run / close_last_run), not when it is ESTABLISHING with a "
                  "pending reply, where `handle` runs the handshake branch; (iv) the ghost field `inbound` was removed from the model (unused since the invariants take the byte "
                  "stream as a parameter). ORACLE AUDIT — excused / not demanded, each exercised by known_selftest(): (a) premature_send (server side, child writes before its "
                  "OpenConnection is answered): only the outbound clauses and a WantReadError/SSL Error of sendall are excused, the inbound and close clauses "
                  "are not; the model tie is skipped for it; (b) Skip(): the PEER's output does not split into whole TLS records, a peer write/close_notify is not "
                  "exactly one record, the peer cannot write — all facts about the in-memory peer, not the layer; (c) pw/pc ops are dropped while the peer's own "
                  "handshake is not done — compensated by the input-derived clause 'all flights delivered => handshake completes'; (d) Log commands and hooks "
                  "other than tls_* are not compared; (e) non-TLS1.3 sessions have no model tie. Expected values come from the case (peer writes, child payloads, "
                  "injected events), the layer-vs-layer comparison peer_plain == child_sends is kept only as a consistency check. The model line uses the re-framed "
                  "peer ciphertext and the ConnectionClosed events the world delivers in answer to CloseConnection (environment reactions), never layer state.")
    technique = "Lean 4 proof (model of the tunnel/TLS layers, parametric in a lawful codec; inductive invariant over all event histories; induction over the recv/bio_read loops and the event queue) + real-OpenSSL scenario correspondence"
    rule = ("scenario = side (ClientTLSLayer / ServerTLSLayer opened by the child / ServerTLSLayer on an open connection) x handshake flights cut into "
            "segments (incl. tail held back so application data follows Finished in one segment) x peer writes of record sizes 1..16384 cut anywhere "
            "(inside records, across writes) x child sends interleaved x unrelated events x close_notify / TCP close (then further child sends towards the half-closed peer) / child close. distinct = distinct "
            "scenario; non-trivial = handshake completed and application data flowed.")
    budget = {"quick": 160, "thorough": 5000}
    time_budget = {"quick": 35, "thorough": 600}
    fingerprints = ["mitmproxy.proxy.layers.tls:TLSLayer.receive_data", "mitmproxy.proxy.layers.tls:TLSLayer.send_data",
                    "mitmproxy.proxy.layers.tls:TLSLayer.tls_interact", "mitmproxy.proxy.layers.tls:TLSLayer.receive_handshake_data",
                    "mitmproxy.proxy.layers.tls:TLSLayer.start_tls", "mitmproxy.proxy.layers.tls:TLSLayer.receive_close",
                    "mitmproxy.proxy.layers.tls:TLSLayer.on_handshake_error",
                    "mitmproxy.proxy.layers.tls:ServerTLSLayer.start_handshake", "mitmproxy.proxy.layers.tls:ServerTLSLayer.on_handshake_error",
                    "mitmproxy.proxy.layers.tls:ClientTLSLayer.receive_handshake_data", "mitmproxy.proxy.layers.tls:ClientTLSLayer.on_handshake_error",
                    "mitmproxy.proxy.layers.tls:ClientTLSLayer.errored", "mitmproxy.proxy.layers.tls:ClientTLSLayer.start_handshake",
                    "mitmproxy.proxy.tunnel:TunnelLayer._handle_event", "mitmproxy.proxy.tunnel:TunnelLayer._handshake_finished",
                    "mitmproxy.proxy.tunnel:TunnelLayer._handle_command", "mitmproxy.proxy.tunnel:TunnelLayer.event_to_child"]
    trusted_base = ["OpenSSL via pyOpenSSL: stream faithfulness of a TLS session (plaintext out = plaintext in, in order, independent of segmentation; "
                    "close_notify after preceding data) — assumed as `Laws`", "Layer.handle_event pause/replay discipline (C04)"]
    parallel = False
    case_timeout = 120

    def generate(self, rng, tier):
        def cuts(maxn=3):
            r = rng.random()
            if r < 0.25: return []
            if r < 0.32: return [i / 40 for i in range(1, 40)]
            return [rng.random() for _ in range(rng.randint(1, maxn))]
        sides = ["client", "server-open", "server-eager"]
        # fixed grid first
        for side in sides:
            yield {"side": side, "ops": [["hs", [[], []], 0], ["pw", [100], [], 0], ["cs", 50], ["pc", []], ["tc"]]}
            yield {"side": side, "ops": [["hs", [[0.5], [0.3, 0.6]], 1], ["pw", [1, 16384, 2], [0.001, 0.5, 0.9999], 0], ["cs", 16384], ["cs", 40000], ["pw", [1000], [0.5], 1], ["pc", [0.5]]]}
            yield {"side": side, "ops": [["hs", [[i / 30 for i in range(1, 30)]] * 2, 0], ["ot"], ["pw", [17, 17, 17], [], 0], ["cx"]]}
            yield {"side": side, "ops": [["cs", 10], ["hs", [[], []], 0], ["tc"]]} if side == "never" else {"side": side, "ops": [["ot"], ["hs", [[0.2], [0.7]], 0], ["pw", [4096] * 5, [0.1, 0.2, 0.21, 0.8], 0], ["tc"]]}
            yield {"side": side, "ops": [["hs", [[0.4]], 0], ["tc"]]}
            yield {"side": side, "ops": [["tc"]]}
            # one segment carrying more plaintext than one recv(65535) / 2^16: exactly 65535, 65536, 65537 and well beyond, whole and cut
            yield {"side": side, "ops": [["hs", [[], []], 0], ["pw", [16384, 16384, 16384, 16383], [], 0], ["cs", 3]]}
            yield {"side": side, "ops": [["hs", [[], []], 0], ["pw", [16384, 16384, 16384, 16384], [], 0]]}
            yield {"side": side, "ops": [["hs", [[], []], 0], ["pw", [16384, 16384, 16384, 16384, 1], [], 0], ["pc", []]]}
            yield {"side": side, "ops": [["hs", [[], []], 0], ["pw", [16383, 16383, 5943], [], 1], ["pw", [3381, 16384, 15589], [0.18], 0], ["tc"]]}
            yield {"side": side, "ops": [["hs", [[], []], 1], ["pw", [16384] * 9, [0.9], 0], ["pw", [1], [], 0]]}
            # the peer half-closes (close_notify + FIN, or a bare FIN); what the inner layer sends afterwards must still reach it
            yield {"side": side, "ops": [["hs", [[], []], 0], ["pw", [100], [], 0], ["pc", []], ["tc"], ["cs", 50], ["cs", 20000]]}
            yield {"side": side, "ops": [["hs", [[], []], 0], ["tc"], ["cs", 7]]}
            yield {"side": side, "ops": [["hs", [[0.3], [0.6]], 1], ["pw", [17], [0.5], 0], ["tc"], ["cs", 100], ["ot"], ["cs", 1], ["cx"]]}
            yield {"side": side, "ops": [["hs", [[0.4]], 0], ["pw", [10], [], 0], ["junk"]]}
            yield {"side": side, "ops": [["hs", [[0.4], []], 1], ["junk"]]}
        while True:
            ops = []
            if rng.chance(0.25): ops.append(["ot"])
            ops.append(["hs", [cuts(), cuts()], int(rng.chance(0.4))])
            for _ in range(rng.randint(0, 6)):
                r = rng.random()
                if r < 0.5:
                    ops.append(["pw", [rng.pick(SIZES) if rng.chance(0.7) else rng.randint(1, 16384) for _ in range(rng.randint(1, 4))], cuts(4), int(rng.chance(0.3))])
                elif r < 0.85:
                    ops.append(["cs", rng.pick(SIZES + [40000]) if rng.chance(0.7) else rng.randint(1, 20000)])
                else:
                    ops.append(["ot"])
            r = rng.random()
            if r < 0.45: ops.append(["pc", cuts(2)])
            if rng.chance(0.3): ops.append(["cs", rng.randint(1, 3000)])
            if rng.chance(0.12): ops.insert(rng.randint(1, len(ops)), ["junk"])
            r = rng.random()
            if r < 0.35:
                ops.append(["tc"])
                for _ in range(rng.randint(0, 3)):
                    ops.append(["cs", rng.pick(SIZES) if rng.chance(0.7) else rng.randint(1, 20000)] if rng.chance(0.8) else ["ot"])
                if rng.chance(0.3): ops.append(["cx"])
            elif r < 0.5: ops.append(["cx"])
            yield {"side": rng.pick(sides), "ops": ops}

    def impl(self, case):
        sc = Scenario(case)
        sc.run()
        w = sc.w
        plain_in, closed = sc.fully_delivered_plain()
        for e in sc.child.log:                       # payloads of the send requests the child actually got to handle
            if e[0] == "do" and e[1] in sc.do_payload: sc.child_sends.extend(sc.do_payload[e[1]])
        return {"steps": sc.steps, "errors": [e[0] + ": " + e[1][:120] for e in w.errors],
                "state": sc.tl.tunnel_state.name.lower().replace("open", "open"), "errored": "event_to_child" in sc.tl.__dict__, "queue": len(sc.tl._event_queue),
                "expect_child_hex": hx(plain_in), "expect_close": closed, "child_sends_hex": hx(bytes(sc.child_sends)),
                "peer_plain_hex": hx(bytes(sc.peer.plain)), "peer_done": sc.peer.done, "peer_failed": sc.peer.failed,
                "hello_len": sc.hello_len, "child_rules": sc.child_rules, "premature_send": sc.premature_send,
                "cs_payloads_hex": [hx(sc.do_payload[n]) for n in sorted(sc.do_payload)], "n_injected": sc.n_injected,
                "version": sc.peer.c.get_protocol_version_name() if sc.peer.done else None}

    @staticmethod
    def hs_expected(case):
        """from the case alone: is a complete handshake delivered to the layer (and nothing hostile before it)?"""
        ops = case["ops"]
        i = next((k for k, op in enumerate(ops) if op[0] == "hs"), None)
        if i is None or any(op[0] in ("junk", "tc", "cx") for op in ops[:i]): return False
        if ops[i][2]:                                    # tail held back: the next op that delivers bytes completes it
            for op in ops[i + 1:]:
                if op[0] in ("pw", "pc", "tc", "junk"): return True
                if op[0] == "cx": return False
        return True

    def oracle(self, case, obs):
        fails = []
        premature = obs["premature_send"]
        # excused, and only this: a child that writes before its OpenConnection was answered makes sendall raise (WantReadError) —
        # outside the statement ("after mitmproxy completes TLS"); everything about the inbound direction is still demanded
        errs = [e for e in obs["errors"] if not (premature and e.startswith(("WantReadError", "Error")))]
        if errs: fails.append("layer raised: " + errs[0])
        ctoks = [t for o in (o for _, o in obs["steps"]) for t in o.split(";")[0][2:].split("+") if t != "-"]
        utoks = [t for o in (o for _, o in obs["steps"]) for t in o.split(";")[1][2:].split("+") if t != "-"]
        got = b"".join(unhx(t[1:]) for t in ctoks if t.startswith("d"))
        # "every application byte the client sends reaches the inner protocol layer exactly once and in order ...
        #  regardless of how TLS records and TCP segments are split"   (expected value: what the harness made the peer write)
        if got != unhx(obs["expect_child_hex"]):
            fails.append(f"child received {len(got)} bytes, the peer's fully delivered records carry {len(unhx(obs['expect_child_hex']))} (or content differs)")
        expected_hs = self.hs_expected(case) and not premature
        if expected_hs:
            # "After mitmproxy completes TLS ..." — with a well-behaved peer and all flights delivered it has to complete
            if not obs["peer_done"] or "H2" not in utoks: fails.append("all handshake flights were delivered but the handshake did not complete")
            # every event for the child (stored during the handshake or not) reaches it exactly once, in injection order
            os_ = [t for t in ctoks if t.startswith("o") and t[1:].isdigit()]
            if os_ != ["o%d" % k for k in range(obs["n_injected"])]:
                fails.append(f"events injected for the child: {obs['n_injected']} in order, handled: {os_}")
            # "every byte the inner layer sends reaches the client"   (expected value: the payloads the harness made the child send)
            want = b"".join(unhx(h) for h in obs["cs_payloads_hex"])
            if unhx(obs["peer_plain_hex"]) != want:
                fails.append(f"peer decrypted {len(unhx(obs['peer_plain_hex']))} bytes, the child was made to send {len(want)} (or content differs)")
        if not premature and obs["peer_done"] and unhx(obs["peer_plain_hex"]) != unhx(obs["child_sends_hex"]):
            fails.append("peer decrypted something else than what the child sent")        # consistency (both sides observed)
        # "A close_notify from a peer is delivered as a connection close after all preceding data."
        if obs["expect_close"]:
            if "cl" not in ctoks: fails.append("close_notify was delivered but the child got no ConnectionClosed")
            else:
                before = b"".join(unhx(t[1:]) for t in ctoks[:ctoks.index("cl")] if t.startswith("d"))
                if before != unhx(obs["expect_child_hex"]): fails.append("ConnectionClosed reached the child before all preceding data")
        return fails

    def known_selftest(self):
        """doctored observations just outside every excused class must be rejected (independent of the tree under test)"""
        case = {"side": "client", "ops": [["hs", [[], []], 0], ["pw", [3], [], 0], ["cs", 2], ["pc", []]]}
        good = {"steps": [[["S1"], "c:-;u:-"], [["D00"], "c:-;u:H1+H0"], [["D00"], "c:st;u:H2"], [["D00"], "c:d010203;u:-"],
                          [["O0"], "c:o0;u:Paabb"], [["D00"], "c:cl;u:-"]],
                "errors": [], "expect_child_hex": "010203", "expect_close": True, "child_sends_hex": "aabb", "peer_plain_hex": "aabb",
                "peer_done": True, "premature_send": False, "cs_payloads_hex": ["aabb"], "n_injected": 1}
        def doctored(**kw):
            o = json.loads(json.dumps(good)); o.update(kw); return o
        def steps(i, text):
            st = json.loads(json.dumps(good["steps"])); st[i][1] = text; return st
        checks = [
            (case, good, False),
            (case, doctored(steps=steps(3, "c:d0102;u:-")), True),                      # a byte lost
            (case, doctored(steps=steps(3, "c:d010203+d03;u:-")), True),                # a byte twice
            (case, doctored(steps=steps(3, "c:d010302;u:-")), True),                    # reordered
            (case, doctored(steps=steps(5, "c:-;u:-")), True),                          # close_notify swallowed
            (case, doctored(steps=steps(3, "c:cl+d010203;u:-")), True),                 # close before data
            (case, doctored(peer_plain_hex="aa"), True),                                # peer misses a byte
            (case, doctored(peer_plain_hex="aa", child_sends_hex="aa"), True),          # ... even if the layer's own bookkeeping agrees
            (case, doctored(steps=steps(4, "c:-;u:-"), peer_plain_hex="-", child_sends_hex="-"), True),   # stored/injected event never reached the child
            (case, doctored(steps=steps(2, "c:st;u:-"), peer_done=False), True),        # handshake never completes
            (case, doctored(errors=["AssertionError: x"]), True),
            # premature write: only the outbound clauses and the sendall exception are excused
            (case, doctored(premature_send=True, errors=["WantReadError: "], peer_plain_hex="-"), False),
            (case, doctored(premature_send=True, errors=["WantReadError: "], steps=steps(3, "c:d0102;u:-")), True),
            (case, doctored(premature_send=True, errors=["KeyError: x"]), True),
            # no handshake expected (junk first): nothing about completion is demanded, the inbound clause still is
            ({"side": "client", "ops": [["junk"], ["hs", [[], []], 0]]}, doctored(steps=[[["S1"], "c:-;u:-"]], expect_child_hex="-", expect_close=False,
                                                                                    peer_done=False, peer_plain_hex="-", child_sends_hex="-", cs_payloads_hex=[], n_injected=0), False),
            ({"side": "client", "ops": [["junk"], ["hs", [[], []], 0]]}, doctored(steps=[[["S1"], "c:d01;u:-"]], expect_child_hex="-", expect_close=False,
                                                                                    peer_done=False, peer_plain_hex="-", child_sends_hex="-", cs_payloads_hex=[], n_injected=0), True),
        ]
        for c, o, want_fail in checks:
            got = bool(self.oracle(c, o))
            assert got == want_fail, f"C14 oracle selftest: expected {'a failure' if want_fail else 'no failure'} for {json.dumps(o)[:300]}: {self.oracle(c, o)}"
        assert self.hs_expected({"ops": [["hs", [[]], 1], ["cs", 1], ["cx"]]}) is False and self.hs_expected({"ops": [["ot"], ["hs", [[]], 1], ["cs", 1]]}) is True

    def setup(self, tier):
        self.known_selftest()

    # ---- model tie ----------------------------------------------------------------------------------------------
    def model_lines(self, case):
        return None          # built from the observation (the re-framed stream depends on the real ciphertext): see model_lines_obs

    def _line(self, case, obs):
        side = "c" if case["side"] == "client" else "s"
        rules = obs["child_rules"]
        spec = ";".join(f"{k}={v}" for k, v in rules.items()) or "start=-"
        steps = ",".join(",".join([toks[0]] + ["&" + t for t in toks[1:]]) for toks, _ in obs["steps"])
        return f"run {side} 1 {obs['hello_len']} {spec} {steps}"

    def classify(self, case, obs):
        if not obs["peer_done"] or (obs["expect_child_hex"] == "-" and obs["child_sends_hex"] == "-"): return None
        return json.dumps(case, sort_keys=True)

    def branches(self, case, obs):
        b = ["side:" + case["side"], "state:" + obs["state"]]
        if obs["expect_close"]: b.append("close_notify")
        if obs["peer_done"]: b.append("handshake-done")
        if obs["version"]: b.append(obs["version"])
        if any(op[0] == "hs" and op[2] for op in case["ops"]): b.append("data-right-after-finished")
        nseg = sum(1 for toks, _ in obs["steps"] if toks[0].startswith("D"))
        b.append("segments:" + ("1-5" if nseg <= 5 else "6-20" if nseg <= 20 else "21+"))
        return b

    def neighbours(self, case, rng):
        for i in range(len(case["ops"])):
            c = dict(case); c["ops"] = case["ops"][:i] + case["ops"][i + 1:]; yield c

    def exhaustive(self, tier):
        return iter(())


# The model line needs the observation (the re-framed real ciphertext), which the base runner does not pass to model_lines: impl() keeps the
# last observation (the runner calls model_lines right after impl for the same case).
def _install():
    def model_lines(self, case):
        obs = getattr(self, "_last", {}).get(json.dumps(case, sort_keys=True))
        if obs is None or obs["version"] not in (None, "TLSv1.3") or obs["premature_send"]: return None
        return [self._line(case, obs)]

    def impl(self, case, _impl=Check.impl):
        obs = _impl(self, case)
        self._last = {json.dumps(case, sort_keys=True): obs}
        return obs

    def model_obs(self, case, replies):
        r = replies[0]
        if " st=" not in r: return r
        body, tail = r.split(" st=", 1)
        return {"steps": body.split("|"), "final": "st=" + tail}

    def impl_view(self, case, obs):
        final = f"st={obs['state']} q={obs['queue']} crashed={int(bool(obs['errors']))} errored={int(obs['errored'])}"
        return {"steps": [o for _, o in obs["steps"]], "final": final}

    Check.model_lines, Check.impl, Check.model_obs, Check.impl_view = model_lines, impl, model_obs, impl_view


_install()
