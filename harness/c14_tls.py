"""Helpers shared by harness/c14.py and harness/c15.py: in-memory pyOpenSSL peers, a recording child layer and the
real TlsConfig addon answering the tls_* hooks of layers driven through harness/common/world.py."""
import os
from OpenSSL import SSL
from mitmproxy import connection
from mitmproxy.connection import ConnectionState
from mitmproxy.proxy import commands, context, events, layer
from mitmproxy.proxy.layers import tls as proxy_tls
from common.paths import WORK
from common.world import World


class Do(events.Event):
    """environment action delivered to the child layer: emit these commands now"""
    def __init__(self, cmds, n=0): self.cmds, self.n = cmds, n
    def __repr__(self): return f"Do({self.n}, {self.cmds})"


class Child(layer.Layer):
    """records every event it is given; `script(child, event)` yields the commands to emit"""
    def __init__(self, ctx, script=None):
        super().__init__(ctx)
        self.log = []          # ("start",) | ("data", label, bytes) | ("closed", label) | ("opened", err) | ("other", name)
        self.script = script
        self.open_result = "n/a"

    def _handle_event(self, ev):
        if isinstance(ev, events.Start): self.log.append(("start",))
        elif isinstance(ev, events.DataReceived): self.log.append(("data", id(ev.connection), bytes(ev.data)))
        elif isinstance(ev, events.ConnectionClosed): self.log.append(("closed", id(ev.connection)))
        elif isinstance(ev, events.OpenConnectionCompleted):
            self.log.append(("opened", ev.reply)); self.open_result = ev.reply
        elif isinstance(ev, Do):
            self.log.append(("do", ev.n))
            for c in ev.cmds: yield c
            return
        else: self.log.append(("other", type(ev).__name__))
        if self.script:
            yield from self.script(self, ev)


class Peer:
    """pyOpenSSL connection over memory BIOs"""
    def __init__(self, conn):
        self.c = conn
        self.done = False
        self.failed = None
        self.plain = bytearray()
        self.closed = False

    def feed(self, data):
        if data: self.c.bio_write(data)

    def step(self):
        """advance: handshake until done, then read everything readable"""
        if self.failed: return
        if not self.done:
            try:
                self.c.do_handshake(); self.done = True
            except SSL.WantReadError:
                return
            except SSL.Error as e:
                self.failed = repr(e); return
        while True:
            try:
                self.plain.extend(self.c.recv(65535))
            except SSL.WantReadError:
                return
            except SSL.ZeroReturnError:
                self.closed = True; return
            except SSL.Error as e:
                self.failed = repr(e); return

    def pull(self):
        out = bytearray()
        while True:
            try:
                out.extend(self.c.bio_read(65535))
            except SSL.WantReadError:
                return bytes(out)
            except SSL.Error:
                return bytes(out)


_TA = {}


def tls_addon(confname="c14-conf"):
    """one TlsConfig + taddons context per process (certificate store under .work)"""
    if "ta" not in _TA:
        from mitmproxy.addons import tlsconfig
        from mitmproxy.test import taddons
        ta = tlsconfig.TlsConfig()
        cm = taddons.context(ta)
        tctx = cm.__enter__()
        tctx.configure(ta, confdir=os.path.join(WORK, confname))
        _TA.update(ta=ta, tctx=tctx, cm=cm)
    return _TA["ta"], _TA["tctx"]


def addon_hooks(ta, record):
    """World.on_hook that lets the real TlsConfig answer tls_* hooks, as addonmanager does (exceptions are logged, not raised)"""
    def on_hook(world, hook):
        fn = getattr(ta, hook.name, None)
        record.append(hook.name)
        if fn is not None and hook.name.startswith("tls_"):
            try:
                fn(*hook.args())
            except Exception as e:
                record.append("raised:" + type(e).__name__)
        return None
    return on_hook


def make_ctx(tctx, client_sni=None, address=("example.mitmproxy.org", 443), server_sni=None, alpn_offers=()):
    c = connection.Client(peername=("192.0.2.77", 1234), sockname=("127.0.0.1", 8080), timestamp_start=1, state=ConnectionState.OPEN)
    ctx = context.Context(c, tctx.options)
    ctx.server = connection.Server(address=address)
    ctx.server.sni = server_sni
    c.sni = client_sni
    c.alpn_offers = list(alpn_offers)
    return ctx


def pump(world, peer, label, max_rounds=50):
    """shuttle bytes between the layer's connection `label` and the in-memory peer until nothing moves"""
    off = getattr(peer, "_off", 0)
    for _ in range(max_rounds):
        moved = False
        out = world.sent_to(label)[off:]
        if out:
            off += len(out); peer.feed(out); moved = True
        peer.step()
        data = peer.pull()
        if data:
            moved = True
            world.recv(label, data)
        if not moved: break
    peer._off = off
