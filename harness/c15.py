"""C15 — upstream certificates are verified unless verification is disabled.

Anchors: mitmproxy/addons/tlsconfig.py TlsConfig.tls_start_server, mitmproxy/net/tls.py create_proxy_server_context,
mitmproxy/proxy/layers/tls.py TLSLayer.receive_handshake_data / on_handshake_error, mitmproxy/proxy/tunnel.py.

hs cases:  a certificate (names x validity x issuer) minted with `cryptography` is served by an in-memory pyOpenSSL server;
           the real ServerTLSLayer (driven by harness/common/world.py, the real TlsConfig answering tls_start_server) connects
           to it under a trust configuration (CA file / hashed CA directory / ssl_insecure) and an SNI/address form.  Observed:
           established or failed, hooks, conn.error, what the child layer was told, the plaintext the server decrypted.
oracle:    the property's sentences, with chain validity computed by cryptography.x509.verification (name-agnostic client
           verifier, Rust) and the name rule by a Python transcription of the specification `matches`.
model tie: Lean `outcome` (startServer + osslMatches, Model/C15.lean) must EQUAL the observed outcome and plan; `nm` cases tie
           the Python transcription of `matches` to the Lean one.
"""
import datetime, hashlib, ipaddress, json, os, warnings
from common.check import PropertyCheck, hx, unhx
from common.paths import WORK

from cryptography import x509
from cryptography.hazmat.primitives import hashes, serialization
from cryptography.hazmat.primitives.asymmetric import ec
from cryptography.x509 import verification as V
from cryptography.x509.oid import NameOID
from OpenSSL import SSL

warnings.simplefilter("ignore")
CERTS = os.path.join(WORK, "certs", "c15")
SECRET = b"GET /secret HTTP/1.1\r\nHost: app\r\n\r\n"


# ---------------------------------------------------------------------------------------------- PKI (cached on disk)
def _pem_key(k):
    return k.private_bytes(serialization.Encoding.PEM, serialization.PrivateFormat.TraditionalOpenSSL, serialization.NoEncryption())


def _now(): return datetime.datetime.now(datetime.timezone.utc)


def _ca(cn, key, issuer=None, ikey=None):
    name = x509.Name([x509.NameAttribute(NameOID.COMMON_NAME, cn)])
    b = (x509.CertificateBuilder().subject_name(name).issuer_name(issuer.subject if issuer else name).public_key(key.public_key())
         .serial_number(x509.random_serial_number()).not_valid_before(_now() - datetime.timedelta(days=3))
         .not_valid_after(_now() + datetime.timedelta(days=3650))
         .add_extension(x509.BasicConstraints(ca=True, path_length=None), critical=True)
         .add_extension(x509.KeyUsage(False, False, False, False, False, True, True, False, False), critical=True)
         .add_extension(x509.SubjectKeyIdentifier.from_public_key(key.public_key()), critical=False))
    if issuer is not None:
        b = b.add_extension(x509.AuthorityKeyIdentifier.from_issuer_public_key(ikey.public_key()), critical=False)
    return b.sign(ikey or key, hashes.SHA256())


_PKI = None


def pki():
    """rootA (trusted), rootB (not trusted), interA (issued by rootA), one leaf key; files: rootA.pem, cadir/<hash>.0"""
    global _PKI
    if _PKI is not None: return _PKI
    os.makedirs(CERTS, exist_ok=True)
    f = os.path.join(CERTS, "pki.json")
    if not os.path.exists(f):
        keys = {n: ec.generate_private_key(ec.SECP256R1()) for n in ("rootA", "rootB", "interA", "leaf")}
        rootA = _ca("verif C15 root A", keys["rootA"]); rootB = _ca("verif C15 root B", keys["rootB"])
        interA = _ca("verif C15 intermediate A", keys["interA"], issuer=rootA, ikey=keys["rootA"])
        j = {"keys": {n: _pem_key(k).decode() for n, k in keys.items()},
             "certs": {"rootA": rootA.public_bytes(serialization.Encoding.PEM).decode(), "rootB": rootB.public_bytes(serialization.Encoding.PEM).decode(),
                       "interA": interA.public_bytes(serialization.Encoding.PEM).decode()}}
        tmp = f + ".tmp%d" % os.getpid()
        json.dump(j, open(tmp, "w")); os.replace(tmp, f)
    j = json.load(open(f))
    keys = {n: serialization.load_pem_private_key(p.encode(), None) for n, p in j["keys"].items()}
    crt = {n: x509.load_pem_x509_certificate(p.encode()) for n, p in j["certs"].items()}
    cafile = os.path.join(CERTS, "rootA.pem")
    if not os.path.exists(cafile):
        open(cafile + ".tmp%d" % os.getpid(), "w").write(j["certs"]["rootA"]); os.replace(cafile + ".tmp%d" % os.getpid(), cafile)
    cadir = os.path.join(CERTS, "cadir")
    if not os.path.isdir(cadir) or not os.listdir(cadir):
        os.makedirs(cadir, exist_ok=True)
        from OpenSSL import crypto
        h = crypto.X509.from_cryptography(crt["rootA"]).subject_name_hash()
        p = os.path.join(cadir, "%08x.0" % h)
        open(p + ".tmp%d" % os.getpid(), "w").write(j["certs"]["rootA"]); os.replace(p + ".tmp%d" % os.getpid(), p)
    _PKI = {"keys": keys, "certs": crt, "cafile": cafile, "cadir": cadir}
    return _PKI


_CPKI = None


def client_pki():
    """client_certs configurations: rootC (NOT a configured trusted CA for servers) issues the proxy's TLS client certificate.
    files: client-leaf.pem (key + leaf), client-bundle.pem (key + leaf + rootC), clientdir/<name>.pem (bundles, per server name)"""
    global _CPKI
    if _CPKI is not None: return _CPKI
    os.makedirs(CERTS, exist_ok=True)
    f = os.path.join(CERTS, "clientpki.json")
    if not os.path.exists(f):
        rk, ck = ec.generate_private_key(ec.SECP256R1()), ec.generate_private_key(ec.SECP256R1())
        rootC = _ca("verif C15 client-cert CA", rk)
        name = x509.Name([x509.NameAttribute(NameOID.COMMON_NAME, "verif proxy client")])
        cl = (x509.CertificateBuilder().subject_name(name).issuer_name(rootC.subject).public_key(ck.public_key())
              .serial_number(x509.random_serial_number()).not_valid_before(_now() - datetime.timedelta(days=1))
              .not_valid_after(_now() + datetime.timedelta(days=3650))
              .add_extension(x509.BasicConstraints(ca=False, path_length=None), critical=True).sign(rk, hashes.SHA256()))
        j = {"rootC_key": _pem_key(rk).decode(), "client_key": _pem_key(ck).decode(),
             "rootC": rootC.public_bytes(serialization.Encoding.PEM).decode(), "client": cl.public_bytes(serialization.Encoding.PEM).decode()}
        tmp = f + ".tmp%d" % os.getpid()
        json.dump(j, open(tmp, "w")); os.replace(tmp, f)
    j = json.load(open(f))

    def put(path, text):
        if not os.path.exists(path):
            os.makedirs(os.path.dirname(path), exist_ok=True)
            open(path + ".tmp%d" % os.getpid(), "w").write(text); os.replace(path + ".tmp%d" % os.getpid(), path)
        return path
    leaf_pem = put(os.path.join(CERTS, "client-leaf.pem"), j["client_key"] + j["client"])
    bundle = put(os.path.join(CERTS, "client-bundle.pem"), j["client_key"] + j["client"] + j["rootC"])
    cdir = os.path.join(CERTS, "clientdir")
    for n in (HOST, "192.0.2.1", "example.com", "other.example.com"):
        put(os.path.join(cdir, n + ".pem"), j["client_key"] + j["client"] + j["rootC"])
    _CPKI = {"rootC": x509.load_pem_x509_certificate(j["rootC"].encode()),
             "rootC_key": serialization.load_pem_private_key(j["rootC_key"].encode(), None),
             "files": {"leaf": leaf_pem, "bundle": bundle, "dir": cdir}}
    return _CPKI


def gname(spec):
    k, v = spec
    if k == "dns": return x509.DNSName(v)
    if k == "ip": return x509.IPAddress(ipaddress.ip_address(v))
    if k == "email": return x509.RFC822Name(v)
    if k == "uri": return x509.UniformResourceIdentifier(v)
    raise ValueError(k)


def token(spec):
    k, v = spec
    if k == "dns": return "d:" + hx(v.encode())
    if k == "ip": return "i:" + hx(str(ipaddress.ip_address(v)).encode())
    return {"email": "o1:", "uri": "o6:"}[k] + hx(v.encode())


_LEAVES = {}


def leaf(spec):
    """spec = {"sans": [[kind, value]...], "cn": str|None, "validity": ok|expired|future, "issuer": rootA|rootB|self|interA|interA-nochain}
    -> (certificate, [extra chain certificates the server sends])"""
    key = json.dumps(spec, sort_keys=True)
    if key in _LEAVES: return _LEAVES[key]
    P = pki()
    f = os.path.join(CERTS, "leaf-" + hashlib.sha256(key.encode()).hexdigest()[:24] + ".pem")
    if os.path.exists(f):
        cert = x509.load_pem_x509_certificate(open(f, "rb").read())
    else:
        lk = P["keys"]["leaf"]
        subj = [x509.NameAttribute(NameOID.COMMON_NAME, spec["cn"])] if spec.get("cn") else []
        iss = spec["issuer"].split("-")[0]
        name = x509.Name(subj)
        if iss == "self":
            issuer_name, ikey = name, lk
        elif iss == "rootC":
            C = client_pki()
            issuer_name, ikey = C["rootC"].subject, C["rootC_key"]
        else:
            issuer_name, ikey = P["certs"][iss].subject, P["keys"][iss]
        nb, na = {"ok": (-1, 3650), "expired": (-30, -1), "future": (1, 30)}[spec["validity"]]
        b = (x509.CertificateBuilder().subject_name(name).issuer_name(issuer_name).public_key(lk.public_key())
             .serial_number(x509.random_serial_number()).not_valid_before(_now() + datetime.timedelta(days=nb))
             .not_valid_after(_now() + datetime.timedelta(days=na))
             .add_extension(x509.BasicConstraints(ca=False, path_length=None), critical=True)
             .add_extension(x509.AuthorityKeyIdentifier.from_issuer_public_key(ikey.public_key()), critical=False))
        if spec["sans"]:
            b = b.add_extension(x509.SubjectAlternativeName([gname(s) for s in spec["sans"]]), critical=not subj)
        cert = b.sign(ikey, hashes.SHA256())
        tmp = f + ".tmp%d" % os.getpid()
        open(tmp, "wb").write(cert.public_bytes(serialization.Encoding.PEM)); os.replace(tmp, f)
    extra = [P["certs"]["interA"]] if spec["issuer"] == "interA" else []
    _LEAVES[key] = (cert, extra)
    return _LEAVES[key]


def chain_ok(spec):
    """chain validity by cryptography.x509.verification, independent of OpenSSL and of names (client verifier, no EE name policy)"""
    cert, extra = leaf(spec)
    P = pki()
    try:
        (V.PolicyBuilder().store(V.Store([P["certs"]["rootA"]]))
         .extension_policies(ca_policy=V.ExtensionPolicy.webpki_defaults_ca(), ee_policy=V.ExtensionPolicy.permit_all())
         .build_client_verifier().verify(cert, extra))
        return True
    except V.VerificationError:
        return False


# ---------------------------------------------------------------------------------------------- the specification in Python (oracle)
def lower(b): return bytes(c + 32 if 65 <= c <= 90 else c for c in b)


def py_match_dns(p: bytes, r: bytes) -> bool:
    """RFC 6125 6.4: equal (ASCII case-insensitive), or p = '*.' + s (s non-empty) and r = w + '.' + s with w non-empty and dot-free"""
    p, r = lower(p), lower(r)
    if p == r: return True
    if p[:2] == b"*." and len(p) > 2:
        s = p[1:]
        if len(r) > len(s) and r.endswith(s):
            w = r[:len(r) - len(s)]
            return len(w) > 0 and b"." not in w
    return False


def py_matches(sans, ref):
    """sans: case specs; ref: ('host', bytes) | ('addr', canonical text bytes)"""
    for k, v in sans:
        if k == "dns" and ref[0] == "host" and py_match_dns(v.encode(), ref[1]): return True
        if k == "ip" and ref[0] == "addr" and str(ipaddress.ip_address(v)).encode() == ref[1]: return True
    return False


def classify(s):
    try:
        return "i:" + hx(str(ipaddress.ip_address(s)).encode())
    except ValueError:
        pass
    try:
        return "d:" + hx(s.encode("idna"))
    except UnicodeError:
        return None


def host_param_ok(alabel: bytes) -> bool:
    """does OpenSSL accept the name as verification host (X509_VERIFY_PARAM_set1_host)?  Asked of the library directly, on a
    scratch connection — OpenSSL >= 4 refuses e.g. a trailing dot or a '*' label; the hook then raises (fail closed)."""
    c = SSL.Connection(SSL.Context(SSL.TLS_CLIENT_METHOD))
    param = SSL._lib.SSL_get0_param(c._ssl)
    ok = SSL._lib.X509_VERIFY_PARAM_set1_host(param, alabel, len(alabel)) == 1
    if not ok:
        try: SSL._openssl_assert(False)
        except Exception: pass                      # drain the error queue
    return ok


def classify_server_name(s):
    """the model's `classify` for tls_start_server: ipaddress / idna codec / accepted by OpenSSL as host parameter"""
    c = classify(s)
    if c and c[0] == "d" and not host_param_ok(unhx(c.split(":")[1])): return None
    return c


def eff_sni(case):
    if case["server_sni"] is not None: return case["server_sni"]
    return case["client_sni"] or case["address"]


HOST = "www.example.com"
NAMESETS = {
    "matching": [["dns", HOST]],
    "mismatched": [["dns", "other.example.com"]],
    "wildcard": [["dns", "*.example.com"]],
    "partial-wildcard-suffix": [["dns", "w*.example.com"]],
    "partial-wildcard-prefix": [["dns", "*w.example.com"]],
    "partial-wildcard-mid": [["dns", "w*w.example.com"]],
    "wildcard-second-label": [["dns", "www.*.com"]],
    "double-wildcard": [["dns", "*.*.com"]],
    "wildcard-two-labels-deep": [["dns", "*.com"]],
    "wildcard-tld": [["dns", "*.com"], ["dns", "*"]],
    "parent-wildcard": [["dns", "*.www.example.com"]],
    "none": [],
    "ip-san": [["ip", "192.0.2.1"]],
    "ip-as-dns": [["dns", "192.0.2.1"], ["dns", "*.0.2.1"]],
    "ip6-san": [["ip", "2001:db8::1"]],
    "upper": [["dns", "WWW.EXAMPLE.COM"]],
    "idn": [["dns", "xn--bcher-kva.example"]],
    "idn-wildcard": [["dns", "*.xn--bcher-kva.example"]],
    "email-uri-only": [["email", "www.example.com@example.com"], ["uri", "https://www.example.com/"]],
    "many": [["dns", "a.example"], ["ip", "10.9.9.9"], ["dns", "*.example.com"], ["dns", HOST]],
    "underscore-wildcard": [["dns", "*.example.com"], ["dns", "x_y.example.com"]],
    "trailing-dot": [["dns", "www.example.com."]],
}
TARGETS = [  # (client_sni, server_sni, address)
    (HOST, None, "10.0.0.1"), (None, None, HOST), (None, None, "192.0.2.1"), (None, None, "2001:db8::1"), ("WWW.Example.COM", None, "10.0.0.1"),
    ("example.com", None, "10.0.0.1"), ("a.b.example.com", None, "10.0.0.1"), (None, "other.example.com", HOST), ("", None, HOST),
    ("bücher.example", None, "10.0.0.1"), ("x.xn--bcher-kva.example", None, "10.0.0.1"), ("www.example.com.", None, "10.0.0.1"),
    ("x_y.example.com", None, "10.0.0.1"), (None, "", HOST), ("foo.com", None, "10.0.0.1"), ("192.0.2.1", None, "10.0.0.1"),
    ("w.example.com", None, "10.0.0.1"), ("ww.example.com", None, "10.0.0.1"), ("*.example.com", None, "10.0.0.1"), (None, None, "a..b"),
]
TRUST = ["file", "dir", "insecure", "insecure-nofile", "default-store"]
CLIENT_CERTS = [None, "leaf", "bundle", "dir"]      # option client_certs: unset / key+leaf / key+leaf+its CA / directory of per-host bundles


class Check(PropertyCheck):
    prop = "C15"
    design_ref = "§5 C15"
    level_text = ("Lean theorems: insecure_off_requires_verify (in the model of tls_start_server + the handshake verdict, with ssl_insecure off a handshake "
                  "is established only with VERIFY_PEER, a host/IP reference identifier, mitmproxy's two host flags, a valid chain and a SAN list that names "
                  "the reference per the specification `matches`), insecure_on_succeeds, the policy facts no_partial_wildcard, wildcard_one_label, cn_ignored, "
                  "ip_exact about the specification, ossl_refines_spec (the transcription of OpenSSL's X509_check_host under NO_PARTIAL_WILDCARDS|"
                  "NEVER_CHECK_SUBJECT accepts nothing the specification rejects), hostflags_are_both (flag values regenerated from the code), and "
                  "eff_sni_precedence (preset server.sni, else non-empty client SNI, else address), plan_shape (IP -> set1_ip and no SNI extension; host -> SNI == verified "
                  "name; no reference only with ssl_insecure and an empty name; empty name with verification on -> the hook refuses), "
                  "ossl_literal_unless_leading_star (patterns not starting with `*` are compared literally), verified_identity_transport_independent (the TCP/TLS path and "
                  "the QUIC path — quic_start_server + QuicLayer.start_tls, now in the model as startServerQuic — verify the same reference identifier with the "
                  "same verify mode, and the QUIC plan always carries one), insecure_off_requires_verify_any_transport, and "
                  "fail_sends_no_appdata (tunnel model of C14, OpenConnection path — the layer answering the child's OpenConnection: after a handshake error the child is told the "
                  "error, never success, failure hook + CloseConnection emitted, tunnel CLOSED, and nothing was handed to the TLS engine unless the child reacts to the error) and "
                  "fail_closes_tunnel_eager (the layer started on an already open connection: hook + close right after the error, tunnel CLOSED, the stored events are then "
                  "handed to the child in order, no successful completion among them; with nothing stored nothing was given to sendall). Model tied to the real ServerTLSLayer + TlsConfig by real in-memory handshakes over the certificate matrix "
                  "x SNI/address forms x trust configuration; chain validity from cryptography.x509.verification.")
    level_note = ("PARTIAL (relative to library laws): chain building, signature and time checks are OpenSSL's — they enter the model as the Boolean chainOk and are "
                  "compared per case with cryptography's independent verifier, not proved; OpenSSL's host-name check is a hand transcription (Model/C15.lean "
                  "osslMatches) validated only by the handshake matrix; ipaddress/idna classification of the server name: transcribed for ASCII names (classifyAscii, tied by `cls` cases), still a parameter for non-ASCII names (the codec's nameprep/punycode path) and for OpenSSL's acceptance of the host parameter. "
                  "fail_sends_no_appdata / fail_closes_tunnel_eager are relative to C14's tunnel model and its run-to-completion assumption (C04); on the eager path whether a child that "
                  "reacts to a stored event with SendData gets bytes onto the wire after the failure depends on the engine refusing to write (OpenSSL's behaviour, not one of "
                  "`Laws`) — asked of the real code by the oracle only. ASSUMED LINK between the two models: `outcome = failed` (C15 decision model) corresponds to `do_handshake` "
                  "raising, i.e. `K.handshake = .error` in the tunnel model — that a failed verification makes do_handshake fail is OpenSSL's behaviour (next to chainOk). "
                  "`cn_ignored` holds by the shape of `accepts` (the CN field is never read) — the assurance for 'no Common Name fallback' is hostflags_are_both "
                  "(NEVER_CHECK_SUBJECT regenerated from the code) plus the CN-only certificates of the handshake matrix, not that theorem. The driver runs `classifyAscii` (op cls) and "
                  "`startServer`/`startServerQuic` with the harness-supplied classification; `classifyT`/`classifyServer` are two-line glue over those and the parameters `slow`, `hostOk`. "
                  "ORACLE AUDIT — lenient branches, each exercised by known_selftest(): (a) outcome hookRaised (the hook built no connection object) is accepted only "
                  "when the case's own server name is unusable (idna codec / OpenSSL's set1_host refuse it — asked of the libraries directly — or it is empty with "
                  "verification on); then still: no application data, child told the error, connection closed; (b) with ssl_insecure on nothing about chain/name is "
                  "demanded, but a failed handshake is rejected; (c) `nm` cases have no implementation side (they tie the Python transcription of `matches` to the "
                  "Lean one); (d) the tie compares outcome and the SNI extension actually sent, nothing else. All expected values come from the case: chain validity "
                  "from cryptography's verifier over the minted chain and the configured anchors, the name rule from the case's SAN list; no clause compares two "
                  "outputs of the layer except the consistency check 'not both established and failed'. The former finding F-C15a (exception out of QuicLayer.receive_handshake_data for an IP-literal dNSName SAN) is repaired in /repo; its witness stays in the corpus and is no longer excused.")
    technique = "Lean 4 proof (decision model + name-matching specification + refinement of the OpenSSL transcription) + translator (flag constants, AST facts) + real-handshake correspondence with an independent chain verifier"
    rule = ("hs: name set (22 shapes: matching, mismatched, wildcard, partial/second-label/double/TLD wildcards, CN-only, IP SAN, IP as dNSName, IDN, case, "
            "non-DNS SANs) x validity {ok, expired, not yet valid} x issuer {trusted root, other root, self-signed, intermediate with/without chain} x target "
            "(client SNI / preset server SNI / address; host, IPv4, IPv6, IDN, case, empty) x trust {CA file, hashed CA dir, ssl_insecure, certifi default} x client_certs {unset, key+leaf, key+leaf+CA bundle, per-host directory} with servers "
            "chaining to the client-cert CA / the trusted CA / neither; seq: two consecutive connections to one TLS<=1.2 server (shared session cache) at one address with "
            "different SNI / trust settings; qhs: the QUIC upstream path (real ServerQuicLayer + quic_start_server against an in-memory aioquic server) over reference "
            "identity (DNS / IPv4 / IPv6) x SANs x chain x trust; "
            "nm: pattern/reference pairs for the name rule. distinct = distinct case; non-trivial = a TLS connection object was built.")
    budget = {"quick": 2800, "thorough": 20000}
    time_budget = {"quick": 35, "thorough": 500}
    fingerprints = ["mitmproxy.addons.tlsconfig:TlsConfig.tls_start_server", "mitmproxy.net.tls:create_proxy_server_context",
                    "mitmproxy.proxy.layers.tls:TLSLayer.receive_handshake_data", "mitmproxy.proxy.layers.tls:TLSLayer.on_handshake_error",
                    "mitmproxy.proxy.layers.tls:ServerTLSLayer.on_handshake_error", "mitmproxy.proxy.layers.tls:TLSLayer.start_tls",
                    "mitmproxy.proxy.tunnel:TunnelLayer._handle_event", "mitmproxy.proxy.tunnel:TunnelLayer._handshake_finished",
                    "mitmproxy.addons.tlsconfig:TlsConfig.quic_start_server", "mitmproxy.addons.tlsconfig:_ip_or_dns_name", "mitmproxy.proxy.layers.quic._stream_layers:QuicLayer.start_tls", "mitmproxy.proxy.layers.quic._stream_layers:QuicLayer.receive_handshake_data",
                    "mitmproxy.proxy.layers.quic._stream_layers:tls_settings_to_configuration"]
    trusted_base = ["OpenSSL (via pyOpenSSL): chain building, signature/time checks, X509_check_host/X509_check_ip semantics under the configured flags",
                    "cryptography.x509.verification as the independent chain verifier; Python ipaddress + idna codec",
                    "aioquic + service_identity: certificate verification on the QUIC path (the model reuses the OpenSSL transcription for its name rule; validated on the qhs matrix)"]
    parallel = False

    # ---- translator ---------------------------------------------------------------------------------------------
    def translate(self):
        import ast, inspect, textwrap
        from mitmproxy.addons import tlsconfig
        from mitmproxy.net import tls as net_tls
        lib = SSL._lib
        src = textwrap.dedent(inspect.getsource(tlsconfig.TlsConfig.tls_start_server))
        tree = ast.parse(src)
        insecure_none = False
        flags_default = False
        for n in ast.walk(tree):
            if isinstance(n, ast.If) and ast.unparse(n.test) == "ctx.options.ssl_insecure":
                body, orelse = ast.unparse(n.body[0]), ast.unparse(n.orelse[0]) if n.orelse else ""
                insecure_none = body == "verify = net_tls.Verify.VERIFY_NONE" and orelse == "verify = net_tls.Verify.VERIFY_PEER"
            if isinstance(n, ast.Call) and ast.unparse(n.func).endswith("X509_VERIFY_PARAM_set_hostflags"):
                flags_default = len(n.args) == 2 and ast.unparse(n.args[1]) == "DEFAULT_HOSTFLAGS"
        b = lambda v: "true" if v else "false"
        L = ["/- generated by harness/c15.py translate() from mitmproxy/addons/tlsconfig.py and mitmproxy/net/tls.py — do not edit -/",
             "namespace MitmVerif.Gen.C15", "",
             "/-- SSL._lib.X509_CHECK_FLAG_NO_PARTIAL_WILDCARDS -/",
             f"def noPartialWildcards : Nat := {int(lib.X509_CHECK_FLAG_NO_PARTIAL_WILDCARDS)}",
             "/-- SSL._lib.X509_CHECK_FLAG_NEVER_CHECK_SUBJECT -/",
             f"def neverCheckSubject : Nat := {int(getattr(lib, 'X509_CHECK_FLAG_NEVER_CHECK_SUBJECT', 0))}",
             "/-- tlsconfig.DEFAULT_HOSTFLAGS -/",
             f"def defaultHostflags : Nat := {int(tlsconfig.DEFAULT_HOSTFLAGS)}",
             "/-- net_tls.Verify.VERIFY_NONE.value / VERIFY_PEER.value -/",
             f"def verifyNone : Nat := {int(net_tls.Verify.VERIFY_NONE.value)}", f"def verifyPeer : Nat := {int(net_tls.Verify.VERIFY_PEER.value)}",
             "/-- tls_start_server, read from its AST: ssl_insecure selects VERIFY_NONE, otherwise VERIFY_PEER -/",
             f"def insecureSelectsNone : Bool := {b(insecure_none)}",
             "/-- tls_start_server passes DEFAULT_HOSTFLAGS to X509_VERIFY_PARAM_set_hostflags -/",
             f"def hostflagsArgIsDefault : Bool := {b(flags_default)}", "", "end MitmVerif.Gen.C15", ""]
        return {"MitmVerif/Gen/C15.lean": "\n".join(L)}

    def setup(self, tier):
        pki(); client_pki(); self.known_selftest()

    # ---- generator ----------------------------------------------------------------------------------------------
    def generate(self, rng, tier):
        def hs(names, target, trust="file", validity="ok", issuer="rootA", cn=None):
            return {"op": "hs", "cert": {"sans": NAMESETS[names], "cn": cn, "validity": validity, "issuer": issuer}, "names": names,
                    "client_sni": target[0], "server_sni": target[1], "address": target[2], "trust": trust}
        T0 = TARGETS[0]
        for names in NAMESETS:                                     # the name matrix against the plain target and the wildcard-relevant ones
            for t in (TARGETS[0], TARGETS[2], TARGETS[5], TARGETS[6], TARGETS[14]):
                yield hs(names, t)
        for names in ("matching", "none", "mismatched"):           # CN-only / CN fallback
            yield hs(names, T0, cn=HOST)
            yield hs(names, TARGETS[2], cn="192.0.2.1")
        for validity in ("ok", "expired", "future"):               # chain matrix x trust
            for issuer in ("rootA", "rootB", "self", "interA", "interA-nochain"):
                for trust in TRUST:
                    yield hs("matching", T0, trust, validity, issuer)
        # client_certs x where the server's chain leads (client-cert CA / configured trusted CA / neither) x trust
        for cc in (None, "leaf", "bundle", "dir"):
            for issuer in ("rootC", "rootA", "rootB", "self"):
                for trust in ("file", "dir", "default-store", "insecure"):
                    for t in (T0, TARGETS[2]):
                        c = hs("matching" if t is T0 else "ip-san", t, trust, "ok", issuer); c["client_certs"] = cc; yield c
        # the QUIC / HTTP-3 upstream path over the same space: reference identity (DNS name / IPv4 / IPv6, as SNI or as address) x SANs
        # (matching / other name / other IP / wildcard / none / CN only) x chain x trust
        QT = [TARGETS[0], TARGETS[1], TARGETS[2], TARGETS[3], TARGETS[5], TARGETS[15], (None, None, "192.0.2.99"), (None, None, "2001:db8::99")]
        for names in ("matching", "mismatched", "wildcard", "ip-san", "ip6-san", "none") + (("ip-as-dns", "many", "upper") if tier == "thorough" else ()):
            for t in QT:
                for trust in ("file", "insecure"):
                    c = hs(names, t, trust); c["op"] = "qhs"; yield c
        for issuer, validity in (("rootB", "ok"), ("self", "ok"), ("rootA", "expired"), ("rootA", "future"), ("interA", "ok"), ("interA-nochain", "ok")):
            for trust in (("file", "dir", "default-store", "insecure") if tier == "thorough" else ("file", "dir")):
                for t in (TARGETS[0], TARGETS[2]):
                    c = hs("matching" if t is TARGETS[0] else "ip-san", t, trust, validity, issuer); c["op"] = "qhs"; yield c
        for t in (TARGETS[0], TARGETS[2]):
            c = hs("none", t, "file", cn=HOST if t is TARGETS[0] else "192.0.2.1"); c["op"] = "qhs"; yield c
        # two consecutive connections to one server at one address: other SNI / other trust settings on the second
        def seq(names, first, second):
            mk = lambda t: {"client_sni": t[0], "server_sni": None, "trust": t[1]}
            return {"op": "seq", "conns": [dict(mk(first), cert={"sans": NAMESETS[names], "cn": None, "validity": t_val, "issuer": t_iss}), mk(second)]}
        for t_val, t_iss in (("ok", "rootA"), ("ok", "rootB"), ("expired", "rootA"), ("ok", "self")):
            for first in ((HOST, "file"), (HOST, "insecure"), ("other.example.com", "insecure"), (HOST, "dir")):
                for second in ((HOST, "file"), ("bank.example.net", "file"), ("other.example.com", "dir"), (HOST, "default-store"), ("bank.example.net", "insecure")):
                    yield seq("matching", first, second)
        for t in TARGETS:                                          # target forms
            for names in ("matching", "wildcard", "ip-san", "ip6-san", "idn", "idn-wildcard", "upper", "underscore-wildcard", "trailing-dot"):
                yield hs(names, t)
            yield hs("mismatched", t, "insecure")
        # tie of the transcribed classifier (C22.parseIp + idna ASCII fast path) to the real `_ip_or_dns_name`
        cl = ["", "example.com", "www.example.com.", "a..b", ".a", "a.", "a" * 63 + ".com", "a" * 64 + ".com", "x." + "b" * 63, "x." + "b" * 64, "1.2.3.4", "1.2.3",
              "1.2.3.4.5", "01.2.3.4", "256.1.1.1", "1.2.3.4 ", "::1", "::", "2001:db8::1", "2001:DB8::1", "::ffff:1.2.3.4", "1::2::3", "fe80::1%eth0", "fe80::1%",
              "[::1]", "1.2.3.4/32", "*.example.com", "foo_bar", "EXAMPLE.COM", "xn--bcher-kva.example", "-a.com", "a b", "12345::", "0:0:0:0:0:0:0:0", "1:2:3:4:5:6:7:8:9",
              "::1.2.3.4", "1.2.3.4.", ".", "..", "a" * 255, "192.0.2.1", "0x7f.1", "1.2.3.04", "٣.1.1.1"[1:]]
        for t in cl + [t[0] for t in TARGETS if t[0]] + [t[2] for t in TARGETS]:
            try: yield {"op": "cls", "s_hex": hx(t.encode("ascii"))}
            except UnicodeEncodeError: pass
        # the name rule itself: pattern x reference
        pats = ["*.example.com", "w*.example.com", "*w.example.com", "*.com", "*", "*.*.com", "www.*.com", "WWW.example.COM", "www.example.com", "", ".",
                "*.", "*.a", "*.a.b", "*.-a.b", "*.a-.b", "*.a.b-", "*.a..b", "*.a_b.c", "*.xn--bcher-kva.example", "*.EXAMPLE.com", "x.*.example.com", "**.example.com"]
        refs = ["www.example.com", "example.com", "a.b.example.com", "foo.com", "w.example.com", "WWW.EXAMPLE.COM", "x.a.b", "x.a", "a", "*.example.com",
                "x_y.example.com", "x.xn--bcher-kva.example", "xn--w-x.example.com", "-.example.com", ".example.com", "x.-a.b", "x.a..b", "x.a_b.c", ""]
        for p in pats:
            for r in refs:
                yield {"op": "nm", "p_hex": hx(p.encode()), "r_hex": hx(r.encode())}
        alpha = b"*.aw-_.A*."
        while True:
            x = rng.random()
            if x < 0.06:
                al = b"0123456789abcdefABCXYZ.:.:%-_*/ "
                yield {"op": "cls", "s_hex": hx(bytes(rng.pick(al) for _ in range(rng.randint(0, 24))))}
            elif x < 0.12:
                v = rng.pick(["%d.%d.%d.%d" % tuple(rng.randint(0, 300) for _ in range(4)), ":".join("%x" % rng.randint(0, 0x1ffff) for _ in range(rng.randint(1, 9))),
                              "::".join(":".join("%x" % rng.randint(0, 0xffff) for _ in range(rng.randint(0, 4))) for _ in range(2)),
                              ".".join("a" * rng.randint(0, 66) for _ in range(rng.randint(1, 4)))])
                yield {"op": "cls", "s_hex": hx(v.encode())}
            elif x < 0.16:
                t_val, t_iss = rng.pick(["ok", "ok", "expired"]), rng.pick(["rootA", "rootA", "rootB", "self", "rootC"])
                snis = [HOST, "other.example.com", "bank.example.net", "a.b.example.com"]
                yield seq(rng.pick(["matching", "wildcard", "mismatched"]), (rng.pick(snis), rng.pick(TRUST)), (rng.pick(snis), rng.pick(TRUST)))
            elif x < 0.45:
                c = hs(rng.pick(list(NAMESETS)), rng.pick(TARGETS), rng.pick(TRUST), rng.pick(["ok", "ok", "ok", "expired", "future"]),
                       rng.pick(["rootA", "rootA", "rootC", "rootB", "self", "interA"]), cn=rng.pick([None, None, HOST]))
                c["client_certs"] = rng.pick([None, "leaf", "bundle", "dir"])
                yield c
            elif x < 0.5:
                c = hs(rng.pick(["matching", "mismatched", "wildcard", "ip-san", "ip6-san", "none", "many", "upper"]),
                       rng.pick([TARGETS[0], TARGETS[1], TARGETS[2], TARGETS[3], TARGETS[5], TARGETS[15], (None, None, "192.0.2.99")]), rng.pick(TRUST),
                       rng.pick(["ok", "ok", "expired"]), rng.pick(["rootA", "rootA", "rootB", "interA"]))
                c["op"] = "qhs"; yield c
            elif x < 0.52:
                yield hs(rng.pick(list(NAMESETS)), rng.pick(TARGETS), rng.pick(TRUST), rng.pick(["ok", "ok", "ok", "expired", "future"]),
                         rng.pick(["rootA", "rootA", "rootA", "rootB", "self", "interA", "interA-nochain"]),
                         cn=rng.pick([None, None, HOST, "192.0.2.1", "*.example.com"]))
            else:
                p = bytes(rng.pick(alpha) for _ in range(rng.randint(0, 9)))
                if rng.chance(0.5): p = b"*." + p
                r = bytes(rng.pick(b"aw-_.A.") for _ in range(rng.randint(0, 9)))
                if rng.chance(0.4) and len(p) > 1: r = r[:3] + p[1:]
                yield {"op": "nm", "p_hex": hx(p), "r_hex": hx(r)}

    # ---- implementation -----------------------------------------------------------------------------------------
    def impl(self, case):
        if case["op"] == "nm":
            return {"py": py_match_dns(unhx(case["p_hex"]), unhx(case["r_hex"]))}
        if case["op"] == "seq":
            # consecutive connections to ONE server (one SSL context: session cache / tickets shared, TLS <= 1.2 so that a session is
            # resumable right after the handshake) at one address; each connection has its own SNI and trust settings
            sctx = self.server_ctx(case["conns"][0]["cert"], tls12=True)
            addr = "10.77.%d.%d" % divmod(int(hashlib.sha256(json.dumps(case, sort_keys=True).encode()).hexdigest()[:4], 16), 256)
            return {"conns": [self._hs(dict(c, cert=case["conns"][0]["cert"], address=addr), sctx) for c in case["conns"]]}
        if case["op"] == "qhs": return self._qhs(case)
        if case["op"] == "cls":
            # the real `_ip_or_dns_name` of tlsconfig.py on a string (tie of the Lean transcription classifyAscii)
            from mitmproxy.addons import tlsconfig
            try:
                g = tlsconfig._ip_or_dns_name(unhx(case["s_hex"]).decode("ascii"))
            except ValueError:
                return {"cls": "x"}
            if isinstance(g, x509.IPAddress): return {"cls": "i:" + hx(bytes([g.value.version]) + g.value.packed)}
            return {"cls": "d:" + hx(g.value.encode())}
        return self._hs(case, None)

    def _qhs(self, case):
        """the QUIC / HTTP-3 upstream path: real ServerQuicLayer + TlsConfig.quic_start_server against an in-memory aioquic server"""
        from collections import deque
        from aioquic.buffer import Buffer as QuicBuffer
        from aioquic.quic import events as quic_events
        from aioquic.quic.configuration import QuicConfiguration
        from aioquic.quic.connection import QuicConnection
        from aioquic.quic.packet import pull_quic_header
        from c14_tls import tls_addon
        from mitmproxy import connection
        from mitmproxy.proxy import commands, context, events, layer
        from mitmproxy.proxy.layers import quic
        from mitmproxy.proxy.layers.quic import SendQuicStreamData
        P = pki()
        ta, tctx = tls_addon("c15-conf")
        trust = case["trust"]
        tctx.options.ssl_insecure = trust.startswith("insecure")
        tctx.options.ssl_verify_upstream_trusted_ca = P["cafile"] if trust in ("file", "insecure") else None
        tctx.options.ssl_verify_upstream_trusted_confdir = P["cadir"] if trust == "dir" else None
        tctx.options.client_certs = None
        cert, extra = leaf(case["cert"])
        key = hashlib.sha256(json.dumps(case["cert"], sort_keys=True).encode()).hexdigest()[:24]
        certfile, keyfile = os.path.join(CERTS, f"q-{key}.crt"), os.path.join(CERTS, "q-leaf.key")
        for path, data in ((certfile, b"".join(c.public_bytes(serialization.Encoding.PEM) for c in [cert] + extra)), (keyfile, _pem_key(P["keys"]["leaf"]))):
            if not os.path.exists(path):
                open(path + ".tmp%d" % os.getpid(), "wb").write(data); os.replace(path + ".tmp%d" % os.getpid(), path)
        now = [0.0]
        ctx = context.Context(connection.Client(peername=("198.51.100.1", 51234), sockname=("198.51.100.2", 443), timestamp_start=1.0,
                                                transport_protocol="udp"), tctx.options)
        ctx.client.sni = case["client_sni"]
        ctx.server.address = (case["address"], 443)
        ctx.server.sni = case["server_sni"]
        ctx.server.transport_protocol = "udp"

        class App(layer.Layer):
            done, err = False, "n/a"
            def _handle_event(self, event):
                if isinstance(event, events.Start):
                    err = yield commands.OpenConnection(self.context.server)
                    self.done, self.err = True, err
                    if not err:
                        yield SendQuicStreamData(self.context.server, 0, SECRET, True)
                else:
                    yield from ()
        top = quic.ServerQuicLayer(ctx, time=lambda: now[0])
        app = App(ctx); top.child_layer = app
        cfg = QuicConfiguration(is_client=False, alpn_protocols=["h3"], max_datagram_frame_size=65536)
        cfg.load_cert_chain(certfile=certfile, keyfile=keyfile)
        srv, hooks, data_at_server, wakeups, queue, closed = [], [], bytearray(), [], deque(), [False]

        def drain():
            while ev := srv[0].next_event():
                if isinstance(ev, quic_events.StreamDataReceived): data_at_server.extend(ev.data)
            for data, _ in srv[0].datagrams_to_send(now[0]):
                if ctx.server.state is not connection.ConnectionState.CLOSED: queue.append(events.DataReceived(ctx.server, data))

        def handle(cmd):
            if isinstance(cmd, commands.StartHook):
                hooks.append(cmd.name)
                fn = getattr(ta, cmd.name, None)
                if fn is not None:
                    try: fn(*cmd.args())
                    except Exception as e: hooks.append("raised:" + type(e).__name__)
                queue.append(events.HookCompleted(cmd, None))
            elif isinstance(cmd, commands.OpenConnection):
                cmd.connection.state = connection.ConnectionState.OPEN
                cmd.connection.peername = (case["address"], 443); cmd.connection.timestamp_start = 1.0
                queue.append(events.OpenConnectionCompleted(cmd, None))
            elif isinstance(cmd, commands.SendData):
                now[0] += 0.01
                if not srv:
                    hdr = pull_quic_header(QuicBuffer(data=cmd.data), host_cid_length=8)
                    srv.append(QuicConnection(configuration=cfg, original_destination_connection_id=hdr.destination_cid))
                srv[0].receive_datagram(cmd.data, ("203.0.113.7", 40000), now[0]); drain()
            elif isinstance(cmd, commands.RequestWakeup):
                wakeups.append((now[0] + cmd.delay, cmd))
            elif isinstance(cmd, commands.CloseConnection):
                cmd.connection.state = connection.ConnectionState.CLOSED; closed[0] = True

        def pump():
            while queue:
                for cmd in top.handle_event(queue.popleft()): handle(cmd)
        layer_exception = None
        try:
            queue.append(events.Start()); pump()
            for _ in range(400):
                if app.done and (app.err or data_at_server): break
                if wakeups:
                    wakeups.sort(key=lambda x: x[0]); t, cmd = wakeups.pop(0)
                    now[0] = max(now[0], t) + 0.01; queue.append(events.Wakeup(cmd))
                else:
                    now[0] += 0.5
                if srv:
                    timer = srv[0].get_timer()
                    if timer is not None and timer <= now[0]: srv[0].handle_timer(now[0])
                    drain()
                pump()
        except Exception as e:
            # an exception out of the layer's handle_event: proxy/server.py logs "mitmproxy has crashed!" — the handshake never
            # completes, no hook fires, the child is never answered.  Observed as such and judged by the oracle.
            layer_exception = f"{type(e).__name__}: {e}"[:100]
        raised = [h for h in hooks if h.startswith("raised:")]
        est, failed = "tls_established_server" in hooks, "tls_failed_server" in hooks
        outcome = "hookRaised" if (raised or "quic_start_server" not in hooks) else "established" if est else "failed"
        return {"outcome": outcome, "hooks": [("tls_start_server" if h == "quic_start_server" else h) for h in hooks if h.startswith(("tls_", "quic_", "raised"))],
                "open_result": None if app.err is None else "n/a" if app.err == "n/a" else "error", "conn_error": bool(ctx.server.error), "closed": closed[0],
                "peer_plain": hx(bytes(data_at_server)), "peer_done": est, "sni_ext": None, "tls_established": bool(ctx.server.tls_established),
                "chain_ok": chain_ok(case["cert"]), "established_and_failed": est and failed, "layer_exception": layer_exception}

    def server_ctx(self, cert_spec, tls12=False, sni_seen=None):
        P = pki()
        cert, extra = leaf(cert_spec)
        sctx = SSL.Context(SSL.TLS_SERVER_METHOD)
        if tls12:
            sctx.set_max_proto_version(SSL.TLS1_2_VERSION)
            sctx.set_session_id(b"verif-c15")
            sctx.set_session_cache_mode(SSL.SESS_CACHE_SERVER)
        sctx.use_certificate(cert)
        for e in extra: sctx.add_extra_chain_cert(e)
        sctx.use_privatekey(P["keys"]["leaf"])
        self._sni_seen = []
        sctx.set_tlsext_servername_callback(lambda c: self._sni_seen.append(c.get_servername()))
        return sctx

    def _hs(self, case, sctx):
        from c14_tls import Child, Peer, tls_addon, addon_hooks, make_ctx, pump
        from common.world import World
        from mitmproxy.proxy import commands, events
        from mitmproxy.proxy.layers import tls as proxy_tls
        P = pki()
        ta, tctx = tls_addon("c15-conf")
        trust = case["trust"]
        tctx.options.ssl_insecure = trust.startswith("insecure")
        tctx.options.ssl_verify_upstream_trusted_ca = P["cafile"] if trust in ("file", "insecure") else None
        tctx.options.ssl_verify_upstream_trusted_confdir = P["cadir"] if trust == "dir" else None
        cc = case.get("client_certs")
        tctx.options.client_certs = client_pki()["files"][cc] if cc else None
        ctx = make_ctx(tctx, client_sni=case["client_sni"], address=(case["address"], 443), server_sni=case["server_sni"])

        def script(child, ev):
            if isinstance(ev, events.Start):
                err = yield commands.OpenConnection(ctx.server)
                child.open_result = err
                if not err:
                    yield commands.SendData(ctx.server, SECRET)
        tl = proxy_tls.ServerTLSLayer(ctx)
        child = Child(ctx, script)
        tl.child_layer = child
        hooks = []
        w = World(tl, ctx, on_hook=addon_hooks(ta, hooks))
        w.start()
        if sctx is None: sctx = self.server_ctx(case["cert"])
        self._sni_seen.clear()
        sni_seen = self._sni_seen
        sc = SSL.Connection(sctx); sc.set_accept_state()
        peer = Peer(sc)
        lab = w.label(ctx.server)
        pump(w, peer, lab)
        if w.errors:
            return {"exc": w.errors[0][0] + ": " + w.errors[0][1][:200]}
        started = "tls_start_server" in hooks
        raised = [h for h in hooks if h.startswith("raised:")]
        est = "tls_established_server" in hooks
        failed = "tls_failed_server" in hooks
        outcome = "hookRaised" if (raised or not started) else "established" if est else "failed"
        sn = sni_seen[0] if sni_seen else None
        return {"outcome": outcome, "hooks": [h for h in hooks if h.startswith("tls_") or h.startswith("raised")],
                "open_result": None if child.open_result is None else "n/a" if child.open_result == "n/a" else "error",
                "conn_error": bool(ctx.server.error), "closed": ("close", lab, False) in w.trace,
                "peer_plain": hx(bytes(peer.plain)), "peer_done": peer.done, "sni_ext": None if sn is None else hx(sn),
                "tls_established": bool(ctx.server.tls_established), "chain_ok": chain_ok(case["cert"]),
                "established_and_failed": est and failed}

    # ---- oracle -------------------------------------------------------------------------------------------------
    def oracle(self, case, obs):
        if case["op"] in ("nm", "cls"): return []
        if case["op"] == "seq":
            # the statement holds for every connection, whatever happened on earlier ones
            cert = case["conns"][0]["cert"]
            return [f"connection {i + 1}: {f}" for i, (c, o) in enumerate(zip(case["conns"], obs["conns"]))
                    for f in self.oracle(dict(c, op="hs", cert=cert, address="seq"), o)]
        if "exc" in obs: return ["layer raised " + obs["exc"]]
        fails = []
        if obs.get("layer_exception"): fails.append("layer raised " + obs["layer_exception"])
        insecure = case["trust"].startswith("insecure")
        trusted_root_configured = case["trust"] in ("file", "dir", "insecure")
        chain = obs["chain_ok"] and trusted_root_configured
        eff = eff_sni(case)
        cls = classify_server_name(eff) if eff else None
        ref = None
        if cls: ref = ("addr" if cls[0] == "i" else "host", unhx(cls.split(":")[1]))
        if obs["outcome"] == "established":
            if not insecure:
                # "completes a TLS handshake with a server only if the server's chain leads to a configured trusted CA, is currently valid,
                #  and names the server's SNI (DNS name, no partial wildcards, no Common Name fallback) or IP address"
                if not chain: fails.append("handshake completed although the chain is not valid under the configured trust (cryptography verifier)")
                if ref is None or not py_matches(case["cert"]["sans"], ref): fails.append(f"handshake completed although the certificate does not name {eff!r}")
            if obs["open_result"] is not None: fails.append("established but the child was not told success")
            if unhx(obs["peer_plain"]) != SECRET: fails.append("established but the server did not receive the child's data exactly")
        else:
            # "otherwise the connection fails with an error, the failure hooks fire, and no application data is sent to that server"
            if obs["peer_plain"] != "-": fails.append("application data reached the server although the handshake failed")
            if obs["open_result"] != "error": fails.append(f"child was told {obs['open_result']!r} instead of an error")
            if obs["tls_established"]: fails.append("connection marked tls_established after a failure")
            if obs["outcome"] == "failed":
                if "tls_failed_server" not in obs["hooks"]: fails.append("tls_failed_server hook did not fire")
                if not obs["conn_error"]: fails.append("no error recorded on the connection")
            if not obs["closed"]: fails.append("connection not closed after the failure")
            # "With ssl_insecure on, handshakes with such servers succeed."
            if insecure and obs["outcome"] == "failed": fails.append("handshake failed although ssl_insecure is on")
        if obs["established_and_failed"]: fails.append("both established and failed hooks fired")
        # the hook may refuse to build a connection object only for the reasons the INPUT gives: no usable server name
        # (the idna codec or OpenSSL rejects it) or no name at all while verification is on
        if obs["outcome"] == "hookRaised" and not (cls is None and (eff != "" or not insecure)):
            fails.append(f"tls_start_server raised / built nothing for the usable server name {eff!r}")
        return fails

    def known(self, case, obs, failure):
        return None          # no recorded findings: F-C15a was repaired in /repo (see known/C15.json "fixed")

    def known_selftest(self):
        # the former finding F-C15a (repaired): its witness and its consequences are no longer excused
        wq = {"op": "qhs", "cert": {"sans": [["dns", "192.0.2.1"], ["dns", "*.0.2.1"]], "cn": None, "validity": "ok", "issuer": "rootA"}, "names": "ip-as-dns",
              "client_sni": "www.example.com", "server_sni": None, "address": "10.0.0.1", "trust": "file"}
        wo = {"outcome": "failed", "hooks": ["tls_start_server"], "open_result": "n/a", "conn_error": False, "closed": False, "peer_plain": "-", "peer_done": False,
              "sni_ext": None, "tls_established": False, "chain_ok": True, "established_and_failed": False,
              "layer_exception": "CertificateError: Invalid DNS pattern b'192.0.2.1'."}
        fs = self.oracle(wq, wo)
        assert any(f.startswith("layer raised CertificateError") for f in fs) and any("tls_failed_server hook did not fire" in f for f in fs), fs
        assert all(self.known(wq, wo, f) is None for f in fs)
        self._oracle_selftest()

    def _oracle_selftest(self):
        """doctored observations just outside each lenient branch must be rejected (independent of the tree under test)"""
        mk = lambda sni, trust, issuer="rootA", names="matching": {"op": "hs", "cert": {"sans": NAMESETS[names], "cn": None, "validity": "ok", "issuer": issuer},
                                                                   "names": names, "client_sni": sni, "server_sni": None, "address": "10.0.0.1", "trust": trust}
        est = {"outcome": "established", "hooks": ["tls_start_server", "tls_established_server"], "open_result": None, "conn_error": False, "closed": False,
               "peer_plain": hx(SECRET), "peer_done": True, "sni_ext": hx(HOST.encode()), "tls_established": True, "chain_ok": True, "established_and_failed": False}
        failed = dict(est, outcome="failed", hooks=["tls_start_server", "tls_failed_server"], open_result="error", conn_error=True, closed=True,
                      peer_plain="-", tls_established=False)
        raised = dict(failed, outcome="hookRaised", hooks=["tls_start_server", "raised:Error", "tls_failed_server"])
        checks = [
            (mk(HOST, "file"), est, False), (mk(HOST, "file"), failed, False),
            (mk(HOST, "file", "rootB"), dict(est, chain_ok=False), True),                     # completes on an untrusted chain
            (mk(HOST, "default-store"), est, True),                                          # root not among the configured anchors
            (mk("foo.com", "file"), est, True),                                              # completes for a name the certificate lacks
            (mk(HOST, "file", names="partial-wildcard-suffix"), est, True),
            (mk(HOST, "file"), dict(est, peer_plain="-"), True),
            (mk(HOST, "file"), dict(failed, hooks=["tls_start_server"]), True),              # failure hook missing
            (mk(HOST, "file"), dict(failed, peer_plain=hx(SECRET)), True),                   # application data after a failure
            (mk(HOST, "file"), dict(failed, open_result=None), True),
            (mk(HOST, "file"), dict(failed, closed=False), True),
            (mk(HOST, "insecure", "rootB"), dict(failed, chain_ok=False), True),             # ssl_insecure must succeed
            # hookRaised is excused only when the INPUT has no usable server name
            (mk("www.example.com.", "file"), raised, host_param_ok(b"www.example.com.")),
            (mk(HOST, "file"), raised, True), (mk(HOST, "insecure"), raised, True),
            (mk("a..b", "insecure"), raised, False),
            (mk("a..b", "file"), dict(raised, peer_plain=hx(SECRET)), True),
        ]
        for c, o, want_fail in checks:
            got = bool(self.oracle(c, o))
            assert got == want_fail, f"C15 oracle selftest: expected {'a failure' if want_fail else 'no failure'} for {json.dumps(c)[:200]} / {json.dumps(o)[:200]}: {self.oracle(c, o)}"
        assert py_match_dns(b"*.example.com", b"www.example.com") and not py_match_dns(b"*.example.com", b"a.b.example.com") and not py_match_dns(b"w*.example.com", b"www.example.com")

    # ---- model tie ----------------------------------------------------------------------------------------------
    def model_lines(self, case):
        if case["op"] == "cls": return [f"cls {case['s_hex']}"]
        if case["op"] == "nm":
            return [f"match {case['p_hex']} {case['r_hex']}"]
        if case["op"] == "seq":
            cert = case["conns"][0]["cert"]
            return [self.model_lines(dict(c, op="hs", cert=cert, address="10.77.0.1"))[0] for c in case["conns"]]
        if case["op"] == "qhs":
            # the QUIC start path of the model (startServerQuic): no idna / set1_host step, plain classification of the name
            o = lambda v: "n" if v is None else hx(v.encode())
            eff = eff_sni(case)
            chain = int(chain_ok(case["cert"]) and case["trust"] in ("file", "dir", "insecure"))
            sans = ",".join(token(s) for s in case["cert"]["sans"]) or "nil"
            return [f"qhs {int(case['trust'].startswith('insecure'))} {o(case['server_sni'])} {o(case['client_sni'])} {hx(case['address'].encode())} "
                    f"{(classify(eff) if eff else None) or 'x'} {chain} {sans}"]
        o = lambda v: "n" if v is None else hx(v.encode())
        eff = eff_sni(case)
        cls = classify_server_name(eff) if eff else "x"
        trusted_root_configured = case["trust"] in ("file", "dir", "insecure")
        chain = int(chain_ok(case["cert"]) and trusted_root_configured)
        sans = ",".join(token(s) for s in case["cert"]["sans"]) or "nil"
        return [f"hs {int(case['trust'].startswith('insecure'))} {o(case['server_sni'])} {o(case['client_sni'])} {hx(case['address'].encode())} {cls or 'x'} {chain} {sans}"]

    def model_obs(self, case, replies):
        if case["op"] == "cls": return replies[0]
        if case["op"] == "seq":
            return [self.model_obs(dict(c, op="hs"), [r]) for c, r in zip(case["conns"], replies)]
        r = replies[0]
        if case["op"] == "nm":
            return r.split(" ")[0]                       # spec=0/1
        f = r.split(" ")
        if case["op"] == "qhs": return {"outcome": f[0]}
        ext = next((x[4:] for x in f if x.startswith("ext=")), None)
        return {"outcome": f[0], "sni_ext": None if f[0] == "hookRaised" else ext}

    def impl_view(self, case, obs):
        if case["op"] == "cls": return obs["cls"]
        if case["op"] == "seq":
            return [self.impl_view(dict(c, op="hs"), o) for c, o in zip(case["conns"], obs["conns"])]
        if case["op"] == "nm": return "spec=%d" % int(obs["py"])
        if "exc" in obs: return obs
        if case["op"] == "qhs": return {"outcome": obs["outcome"]}
        ext = obs["sni_ext"]
        return {"outcome": obs["outcome"], "sni_ext": None if obs["outcome"] == "hookRaised" else ("none" if ext is None else ext)}

    def classify(self, case, obs):
        if case["op"] == "cls": return ("cls", case["s_hex"])
        if case["op"] == "seq": return json.dumps(case, sort_keys=True)
        if case["op"] == "nm": return ("nm", case["p_hex"], case["r_hex"])
        if "exc" in obs or obs["outcome"] == "hookRaised": return None
        return json.dumps(case, sort_keys=True)

    def branches(self, case, obs):
        if case["op"] == "cls": return ["cls:" + obs["cls"][0]]
        if case["op"] == "seq":
            return ["seq:" + ">".join(o.get("outcome", "exc") for o in obs["conns"])]
        if case["op"] == "nm": return ["nm:" + ("match" if obs["py"] else "no-match")]
        if "exc" in obs: return ["exc"]
        if case["op"] == "qhs":
            return ["quic:" + obs["outcome"], "quic:names:" + case["names"] + ":" + obs["outcome"], "quic:trust:" + case["trust"]]
        return ["hs:" + obs["outcome"], "trust:" + case["trust"], "client_certs:%s:%s" % (case.get("client_certs"), obs["outcome"]), "names:" + case["names"] + ":" + obs["outcome"],
                "issuer:" + case["cert"]["issuer"] + "/" + case["cert"]["validity"] + ":" + obs["outcome"]]

    def neighbours(self, case, rng):
        if case["op"] != "hs": return
        for t in TARGETS:
            c = dict(case); c["client_sni"], c["server_sni"], c["address"] = t; yield c
        for n in NAMESETS:
            c = dict(case); c["cert"] = dict(case["cert"], sans=NAMESETS[n]); c["names"] = n; yield c

    def exhaustive(self, tier):
        for n in NAMESETS:
            for t in TARGETS:
                yield {"op": "hs", "cert": {"sans": NAMESETS[n], "cn": HOST, "validity": "ok", "issuer": "rootA"}, "names": n,
                       "client_sni": t[0], "server_sni": t[1], "address": t[2], "trust": "file"}
