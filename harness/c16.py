"""C16 — generated leaf certificates are valid for the identity the client asked for.

Anchors: mitmproxy/addons/tlsconfig.py TlsConfig.get_cert / _ip_or_dns_name, mitmproxy/certs.py dummy_cert,
CertStore.get_cert (generation branch).

impl():  the real TlsConfig (taddons, one per CA configuration: mitmproxy's own CA, a custom CA whose SKI is a truncated
         SHA-256, a custom CA without SKI, an intermediate CA with its root in the chain file) is asked for a certificate
         for (SNI, local address, server address, upstream certificate minted with `cryptography`); the result is parsed
         with `cryptography` and verified with cryptography.x509.verification (Rust, not OpenSSL) as a TLS server
         certificate for the SNI / IP the client asked for.
oracle(): the sentences of the property over that observable (no model needed).
model tie: the field plan computed by the Lean model (Model/C16.lean: getNames + dummyCert) vs the parsed certificate.
"""
import datetime, hashlib, ipaddress, json, os, urllib.parse, warnings
from common.check import PropertyCheck, hx, unhx
from common.paths import WORK

from cryptography import x509
from cryptography.hazmat.primitives import hashes, serialization
from cryptography.hazmat.primitives.asymmetric import ec, rsa
from cryptography.x509 import verification as V
from cryptography.x509.oid import ExtendedKeyUsageOID, NameOID

warnings.simplefilter("ignore")
CERTS = os.path.join(WORK, "certs", "c16")
CAS = ["default", "ski256", "noski", "chain", "default2", "default3"]
SAME_DN = ["default", "default2", "default3"]      # three independently generated mitmproxy CAs: same subject DN, different keys
KIND = {"email": 1, "uri": 6, "dirname": 4, "rid": 8, "other": 0}


# ---------------------------------------------------------------------------------------------- CA configurations
def _pem_key(k):
    return k.private_bytes(serialization.Encoding.PEM, serialization.PrivateFormat.TraditionalOpenSSL, serialization.NoEncryption())


def _ca_cert(subject_cn, key, issuer_name=None, issuer_key=None, ski="sha1", path_len=None):
    now = datetime.datetime.now(datetime.timezone.utc)
    name = x509.Name([x509.NameAttribute(NameOID.COMMON_NAME, subject_cn), x509.NameAttribute(NameOID.ORGANIZATION_NAME, "verif")])
    b = (x509.CertificateBuilder().subject_name(name).issuer_name(issuer_name or name).public_key(key.public_key())
         .serial_number(x509.random_serial_number()).not_valid_before(now - datetime.timedelta(days=3))
         .not_valid_after(now + datetime.timedelta(days=3650))
         .add_extension(x509.BasicConstraints(ca=True, path_length=path_len), critical=True)
         .add_extension(x509.KeyUsage(False, False, False, False, False, True, True, False, False), critical=True))
    if ski == "sha1":
        b = b.add_extension(x509.SubjectKeyIdentifier.from_public_key(key.public_key()), critical=False)
    elif ski == "sha256":
        der = key.public_key().public_bytes(serialization.Encoding.DER, serialization.PublicFormat.SubjectPublicKeyInfo)
        b = b.add_extension(x509.SubjectKeyIdentifier(hashlib.sha256(der).digest()[:20]), critical=False)
    if issuer_key is not None:
        b = b.add_extension(x509.AuthorityKeyIdentifier.from_issuer_public_key(issuer_key.public_key()), critical=False)
    return b.sign(issuer_key or key, hashes.SHA256())


def ensure_cas():
    """create the four confdirs once (RSA key generation is the slow part); returns {name: dir}"""
    from mitmproxy import certs
    from pathlib import Path
    out = {}
    for name in CAS:
        d = os.path.join(CERTS, name); out[name] = d
        f = os.path.join(d, "mitmproxy-ca.pem")
        if os.path.exists(f): continue
        os.makedirs(d, exist_ok=True)
        if name.startswith("default"):
            certs.CertStore.create_store(Path(d), "mitmproxy", 2048)
            continue
        key = rsa.generate_private_key(65537, 2048)
        if name == "chain":
            rk = ec.generate_private_key(ec.SECP256R1())
            root = _ca_cert("verif root", rk)
            inter = _ca_cert("verif intermediate", key, issuer_name=root.subject, issuer_key=rk, path_len=0)
            pem = _pem_key(key) + inter.public_bytes(serialization.Encoding.PEM) + root.public_bytes(serialization.Encoding.PEM)
        else:
            ca = _ca_cert("verif custom " + name, key, ski={"ski256": "sha256", "noski": None}[name])
            pem = _pem_key(key) + ca.public_bytes(serialization.Encoding.PEM)
        tmp = f + ".tmp%d" % os.getpid()
        with open(tmp, "wb") as fh: fh.write(pem)
        os.replace(tmp, f)
    return out


_ENV = None


def env():
    """one taddons context + one TlsConfig per CA configuration, per process"""
    global _ENV
    if _ENV is None:
        from mitmproxy.addons import tlsconfig
        from mitmproxy.test import taddons
        dirs = ensure_cas()
        cm = taddons.context()
        tctx = cm.__enter__()
        tas = {}
        tctx.master.addons.add(tlsconfig.TlsConfig())       # registers the tls options; the instances below are driven directly
        for name, d in dirs.items():
            ta = tlsconfig.TlsConfig()
            tctx.options.update(confdir=d)
            ta.configure({"confdir"})
            chain = x509.load_pem_x509_certificates(open(os.path.join(d, "mitmproxy-ca.pem"), "rb").read())
            tas[name] = (ta, chain)
        _ENV = (tctx, tas, cm, {"ta": tlsconfig.TlsConfig(), "dirs": dirs})
    return _ENV[0], _ENV[1]


def switched(ca):
    """ONE TlsConfig instance whose confdir option is switched to this CA (as a user changing confdir / regenerating the CA would)"""
    tctx, tas = env()
    sw = _ENV[3]
    tctx.options.update(confdir=sw["dirs"][ca])
    sw["ta"].configure({"confdir"})
    return sw["ta"], tas[ca][1]


_UPKEY = None


def upkey():
    global _UPKEY
    if _UPKEY is None:
        p = os.path.join(CERTS, "upstream-key.pem")
        if not os.path.exists(p):
            os.makedirs(CERTS, exist_ok=True)
            k = ec.generate_private_key(ec.SECP256R1())
            with open(p + ".tmp%d" % os.getpid(), "wb") as fh: fh.write(_pem_key(k))
            os.replace(p + ".tmp%d" % os.getpid(), p)
        _UPKEY = serialization.load_pem_private_key(open(p, "rb").read(), None)
    return _UPKEY


# ---------------------------------------------------------------------------------------------- names
def gname(spec):
    """case description of one upstream SAN -> cryptography GeneralName"""
    k = spec[0]
    if k == "dns": return x509.DNSName(spec[1])
    if k == "ip": return x509.IPAddress(ipaddress.ip_address(spec[1]))
    if k == "email": return x509.RFC822Name(spec[1])
    if k == "uri": return x509.UniformResourceIdentifier(spec[1])
    if k == "dirname": return x509.DirectoryName(x509.Name([x509.NameAttribute(NameOID.COMMON_NAME, spec[1])]))
    if k == "rid": return x509.RegisteredID(x509.ObjectIdentifier(spec[1]))
    if k == "other": return x509.OtherName(x509.ObjectIdentifier(spec[1]), bytes.fromhex(spec[2]))
    raise ValueError(k)


def token(g):
    """canonical token of a GeneralName: kind + str(value) — what the model calls GName"""
    if isinstance(g, x509.DNSName): return "d:" + hx(g.value.encode())
    if isinstance(g, x509.IPAddress): return "i:" + hx(str(g.value).encode())
    k = {x509.RFC822Name: 1, x509.UniformResourceIdentifier: 6, x509.DirectoryName: 4, x509.RegisteredID: 8, x509.OtherName: 0}[type(g)]
    return f"o{k}:" + hx(str(g.value).encode())


def classify(s):
    """independent statement of what _ip_or_dns_name is meant to do (ipaddress + idna codec): token or None"""
    try:
        return "i:" + hx(str(ipaddress.ip_address(s)).encode())
    except ValueError:
        pass
    try:
        return "d:" + hx(s.encode("idna"))
    except UnicodeError:
        return None


def names_match(san_tokens, ref_token):
    """RFC 6125 6.4 over tokens: IP exact; DNS equal (ASCII case-insensitive) or `*.s` covering exactly one non-empty label"""
    if ref_token is None: return False
    kind, h = ref_token.split(":"); ref = unhx(h).lower()
    for t in san_tokens:
        k, v = t.split(":"); v = unhx(v).lower()
        if k != kind or k not in "di": continue
        if v == ref: return True
        if k == "d" and v[:2] == b"*." and len(v) > 2 and ref.endswith(v[1:]):
            w = ref[:len(ref) - len(v) + 1]
            if w and b"." not in w: return True
    return False


def src(s):
    c = classify(s)
    return hx(s.encode()) + "=" + (c or "x")


def up_sans(up):
    """the upstream SAN list of a case: explicit `sans`, plus — for big ("cruise-liner") certificates — `many` = [n, where, name]: n generated
    host names with the requested name placed early / late / absent"""
    sans = list(up.get("sans", []))
    if up.get("many"):
        n, where, name = up["many"]
        gen = [["dns", "h%d.many.example" % i] for i in range(n)]
        try:
            ipaddress.ip_address(name); ent = ["ip", name]
        except ValueError:
            ent = ["dns", name]
        if where == "early" and n: gen[min(1, n - 1)] = ent
        elif where == "late" and n: gen[n - 1] = ent
        sans += gen
    return sans


def mint_upstream(up):
    subj = []
    if up.get("cn") is not None: subj.append(x509.NameAttribute(NameOID.COMMON_NAME, up["cn"], _validate=False))
    if up.get("org") is not None: subj.append(x509.NameAttribute(NameOID.ORGANIZATION_NAME, up["org"], _validate=False))
    now = datetime.datetime.now(datetime.timezone.utc)
    name = x509.Name(subj)
    b = (x509.CertificateBuilder().subject_name(name).issuer_name(name).public_key(upkey().public_key()).serial_number(7)
         .not_valid_before(now - datetime.timedelta(days=1)).not_valid_after(now + datetime.timedelta(days=1)))
    if up_sans(up): b = b.add_extension(x509.SubjectAlternativeName([gname(s) for s in up_sans(up)]), critical=False)
    if up.get("crl"):
        b = b.add_extension(x509.CRLDistributionPoints([x509.DistributionPoint([x509.UniformResourceIdentifier(u)], None, None, None) for u in up["crl"]]), critical=False)
    return b.sign(upkey(), hashes.SHA256())


def expected_crl(up, crl_path):
    if not up or not up.get("crl"): return None
    try:
        scheme, netloc, *_ = urllib.parse.urlsplit(up["crl"][0])
    except ValueError:
        return None
    return urllib.parse.urlunsplit((scheme, netloc, crl_path, None, None))


SNIS = [None, "", "example.com", "www.example.com", "my.bucket.s3.example.com", "a.b.example.com", "x.y.xn--bcher-kva.example", "a" * 63 + ".example", ".".join(["a" * 61] * 4) + ".abcde", "xn--bcher-kva.example",
        "bücher.example", "*.example.com", "*", "192.0.2.1", "::1", "2001:db8::1", "EXAMPLE.com", "foo_bar.example", "example.com.",
        "1.2.3", "-a.com", "a" * 62, "a" * 59 + ".com", "a" * 60 + ".com", "a" * 64 + ".com", "a..b", "::ffff:192.0.2.7", "localhost"]
LOCALS = ["127.0.0.1", "::1", "192.168.1.5", "::ffff:127.0.0.1", "10.1.2.3", "192.0.2.1", "2001:db8::1"]
ADDRS = [None, "10.0.0.1", "example.com", "other.example", "2001:db8::2", "EXAMPLE.COM", "192.0.2.1", "bücher.example", "a" * 64]
UPS = [
    None,
    {"cn": "example.com", "sans": [["dns", "example.com"], ["dns", "www.example.com"]], "org": "Ex Inc", "crl": ["http://crl.example.com/a.crl"]},
    {"cn": "a" * 64},
    {"cn": "Some Corp Server", "org": "O" * 100},
    {"cn": ".example.com"},
    {"cn": "a..b", "sans": [["dns", "x.example"]]},
    {"cn": "", "sans": [["dns", "x.example"]]},
    {"sans": [["dns", ""]]},
    {"sans": [["dns", "foo_bar.example"], ["dns", "*.example.com"], ["dns", "*"]]},
    {"cn": "x", "sans": [["email", "a@b.c"], ["uri", "http://x/"], ["dirname", "dn"], ["rid", "1.2.3"], ["other", "1.2.3", "0500"], ["ip", "192.0.2.9"], ["ip", "2001:db8::9"]]},
    {"cn": "bücher.example"},
    {"cn": "x", "crl": ["http://[::1/a"]},
    {"cn": "x", "crl": ["ldap://h/x", "http://second/"]},
    {"cn": "1.2.3.4", "org": ""},
    {"cn": "x" * 63},
    {"cn": "*.example.com", "sans": [["dns", "*.example.com"], ["dns", "example.com"]]},
    {"cn": "ex\x00ample.com"},
    {"cn": "Ünicode Ltd", "org": "Ünicode Ltd"},
    {"sans": [["ip", "192.0.2.1"], ["dns", "EXAMPLE.com"], ["dns", "example.com"]]},
    {"org": "only org"},
    {"cn": "www.example.com", "sans": [["dns", "www.example.com"], ["dns", "www.example.com"]]},
    # appliance-style certificates that spell an IP address as dNSName (and a host name in another case)
    {"sans": [["dns", "localhost"], ["dns", "127.0.0.1"], ["dns", "192.0.2.1"]]},
    {"cn": "192.0.2.1", "sans": [["dns", "192.0.2.1"]]},
    {"sans": [["dns", "::1"], ["dns", "2001:db8::1"], ["dns", "2001:DB8::1"]]},
    {"sans": [["dns", "EXAMPLE.COM"], ["dns", "Www.Example.Com"], ["dns", "10.0.0.1"]]},
    # wildcard SANs upstream (an X.509 wildcard covers exactly one label): requested names 0..3 labels below the base must stay in the leaf
    {"sans": [["dns", "*.s3.example.com"]]},
    {"cn": "*.s3.example.com", "sans": [["dns", "*.s3.example.com"], ["dns", "s3.example.com"], ["dns", "*.example.com"]], "org": "Wild Inc"},
    {"sans": [["dns", "*.xn--bcher-kva.example"], ["dns", "*.com"]]},
    {"sans": [["dns", "*.0.2.1"], ["dns", "*.2.1"], ["dns", "*"]]},
]
IP_AS_DNS = [21, 22, 23, 24]        # indices of the shapes above
WILD = [25, 26, 27, 28]
WILD_NAMES = ["s3.example.com", "b.s3.example.com", "my.bucket.s3.example.com", "a.my.bucket.s3.example.com", "example.com", "www.example.com",
              "a.b.example.com", "xn--bcher-kva.example", "x.xn--bcher-kva.example", "x.y.xn--bcher-kva.example", "a.b.bücher.example",
              "foo.com", "a.foo.com", "a.b.foo.com", "192.0.2.1", "2001:db8::1", "MY.Bucket.S3.example.com", "*.s3.example.com"]


class Check(PropertyCheck):
    prop = "C16"
    design_ref = "§5 C16"
    level_text = ("Lean theorems about the model of TlsConfig.get_cert + dummy_cert, for ALL requests and ANY classification function: "
                  "names_subset_sources (every SAN / the CN / O / CRLDP comes from SNI-or-local-address, server address or the upstream "
                  "certificate), sni_or_local_first_class (the requested identity is always a SAN of its own kind), matches_requested (C15's "
                  "specification `matches` accepts the SAN list for the requested identity), valid_at_issue (inside the validity window at issue "
                  "for any time-zone skew of the naive clock; offsets regenerated from certs.py), plan_wellformed (serverAuth EKU, SAN critical iff "
                  "no CN, CN only with 0<len<64 and equal to the first name, SANs distinct), upstream_never_blocks (no upstream name makes get_cert "
                  "raise); added in round 3: sources_all_named (nothing is dropped: the SAN set IS the source set — a host below an upstream wildcard stays), "
                  "requested_host_kept_verbatim / requested_ip_kept_packed / get_cert_total_ascii (with `_ip_or_dns_name` TRANSCRIBED for ASCII input — C22's ipaddress "
                  "parser + the idna codec's ASCII fast path, tied to the real function by C15's `cls` cases: an ASCII host-name SNI is in the leaf verbatim, an IP "
                  "literal as its packed address, and get_cert cannot raise for them), leaf_names_all_sources (no cap: every source name is a SAN of the leaf however long the upstream list; tied on upstream lists of up to 300 names), "
                  "sans_in_source_order (SANs = source list minus later repetitions, same head), matches_requested_openssl (C15's transcription of OpenSSL's host "
                  "check accepts the leaf for the requested name too), valid_throughout (valid from issue until expiry-2d-14h for any zone skew). Model tied to the code by comparing the model's field plan with the parsed real certificate; independently every real "
                  "certificate is verified by cryptography.x509.verification as a server certificate for the requested SNI/IP.")
    level_note = ("PARTIAL (relative to library laws): ASN.1 encoding, signing, chain building, EKU/validity enforcement are `cryptography`'s and enter "
                  "only through the differential run (strict verifier as oracle); `_ip_or_dns_name` is a parameter `classify` of the model for the general theorems (they hold for every "
                  "such function; the harness supplies the real classification per case) and is additionally transcribed for ASCII input (classifyAscii; non-ASCII "
                  "names — the codec's nameprep/punycode path — stay a parameter); urlsplit/urlunsplit of the CRL "
                  "URL are the harness's. The CertStore lookup/caching branch is C17's (the store is emptied before every case). SNI values that the strict "
                  "verifier refuses as reference identifiers (wildcard-looking, underscore, trailing dot, leading hyphen) are checked for chain validity and name "
                  "provenance only. ROUND-6 AUDIT DISCLOSURES: the clause 'issued by mitmproxy's CA' has NO Lean theorem (the model only has `akiFromSki`): issuer, signature and chain are "
                  "`cryptography`'s and are asked by the oracle alone (strict verifier + OpenSSL X509_STRICT against the CA current at issue, incl. equal-DN CA switches); the first conjunct "
                  "of plan_wellformed (`ekuServerAuth = true`) is true by construction of `dummyCert` — 'usable for TLS server authentication' rests on the tie (model plan vs parsed "
                  "certificate: EKU) and the strict verifier; `classifyAscii`/`classifyT` are not run by C16's driver, they are tied by C15's `cls` cases. Plus, since the oracle audit, the RFC 6125 name rule applied directly to the leaf's SAN list. "
                  "ORACLE AUDIT — lenient branches, each exercised by known_selftest(): (a) `raised` is excused only when the case's OWN names (SNI-or-local address, "
                  "server address) are not encodable by ipaddress/idna — never because of upstream names; (b) strict == ref-invalid (the verifier refuses the "
                  "reference identifier): chain verified for another SAN, name clause by names_match(); (c) not_valid_before is snapped to the generated offset within "
                  "1.5 s of the call window (clock reading); (d) ValueError/TypeError from get_cert are observed as `raised`, anything else surfaces as a harness "
                  "error; (e) the certificate store is emptied before each case (C17's subject); (f) OpenSSL's X509_STRICT verdict on the chain is demanded only when the configured CA has a SubjectKeyIdentifier (strict mode rejects an SKI-less CA whatever the leaf is). Expected values come from the case (classification of the case's "
                  "strings, upstream names as minted) and from the independent verifier; no clause compares two outputs of get_cert.")
    technique = "Lean 4 proof (all requests, parametric in the name classifier) + translator for validity offsets/CN bounds + differential run with an independent strict X.509 verifier"
    rule = ("grid of SNI forms (none, 63/64-byte labels, 253-byte names, IDN, A-labels, wildcard-looking, IPv4/IPv6, case, underscore, trailing dot) x local "
            "address x server address x upstream certificate shapes (CN/SAN/O/CRLDP incl. non-hostname CNs, empty and non-DNS SANs) x CA configuration "
            "(own CA, custom SKI, no SKI, intermediate+root, two more own CAs with the SAME subject DN); histories: one TlsConfig whose confdir is switched between CAs of equal DN, "
            "each leaf verified against the CA current at issue; then random combinations. distinct = distinct case; non-trivial = a certificate was produced.")
    budget = {"quick": 1500, "thorough": 12000}
    time_budget = {"quick": 35, "thorough": 500}
    fingerprints = ["mitmproxy.addons.tlsconfig:TlsConfig.get_cert", "mitmproxy.addons.tlsconfig:_ip_or_dns_name",
                    "mitmproxy.certs:dummy_cert", "mitmproxy.certs:CertStore.get_cert"]
    trusted_base = ["cryptography: X.509 building/signing/parsing and x509.verification (server policy) as the strict verifier",
                    "Python ipaddress + idna codec as the name classifier; urllib.parse for the CRL URL"]
    parallel = False

    # ---- translator ---------------------------------------------------------------------------------------------
    def translate(self):
        import ast, inspect, textwrap
        from mitmproxy import certs
        src_ = textwrap.dedent(inspect.getsource(certs.dummy_cert))
        lo = hi = None
        for node in ast.walk(ast.parse(src_)):
            if isinstance(node, ast.Assign) and getattr(node.targets[0], "id", None) == "is_valid_commonname":
                for cmp_ in ast.walk(node.value):
                    if isinstance(cmp_, ast.Compare) and any(isinstance(c, ast.Call) and getattr(c.func, "id", "") == "len" for c in [cmp_.left] + cmp_.comparators):
                        parts = [cmp_.left] + cmp_.comparators
                        consts = [p.value if isinstance(p, ast.Constant) else None for p in parts]
                        ops = [type(o).__name__ for o in cmp_.ops]
                        if len(parts) == 3 and ops == ["Lt", "Lt"]: lo, hi = consts[0], consts[2]
                        elif len(parts) == 2 and ops == ["Lt"]: lo, hi = -1, consts[1]
        if lo is None or hi is None or lo < 0:
            lo, hi = (999 if lo is None or lo < 0 else lo), (0 if hi is None else hi)       # unreadable / old form: makes the proofs fail → drift is visible
        L = ["/- generated by harness/c16.py translate() from mitmproxy/certs.py — do not edit -/",
             "namespace MitmVerif.Gen.C16", "",
             "/-- certs.CERT_VALIDITY_OFFSET in seconds -/",
             f"def validityOffset : Int := {int(certs.CERT_VALIDITY_OFFSET.total_seconds())}",
             "/-- certs.CERT_EXPIRY in seconds -/",
             f"def certExpiry : Int := {int(certs.CERT_EXPIRY.total_seconds())}",
             "/-- dummy_cert: `is_valid_commonname = commonname is not None and 0 < len(commonname) < 64` (bounds read from the AST) -/",
             f"def cnLenLowerExclusive : Nat := {lo}", f"def cnLenUpperExclusive : Nat := {hi}",
             "/-- dummy_cert: `now = datetime.datetime.now()` is naive local time read as UTC; |UTC offset| of any time zone, seconds -/",
             "def maxZoneSkew : Int := 50400", "", "end MitmVerif.Gen.C16", ""]
        return {"MitmVerif/Gen/C16.lean": "\n".join(L)}

    def setup(self, tier):
        ensure_cas(); upkey(); self.known_selftest()

    # ---- generator ----------------------------------------------------------------------------------------------
    def generate(self, rng, tier):
        def case(ca, sni, local, addr, up, opt=True):
            return {"ca": ca, "sni": sni, "local": local, "addr": addr, "up": up, "upstream_opt": opt}
        for sni in SNIS:                                   # every SNI form, no upstream
            yield case("default", sni, "127.0.0.1", "10.0.0.1", None)
        for up in UPS:                                     # every upstream shape
            yield case("default", "example.com", "127.0.0.1", "10.0.0.1", up)
        for ca in CAS:
            for sni in ("example.com", "192.0.2.1", None, "*.example.com", "a" * 60 + ".com"):
                yield case(ca, sni, "127.0.0.1", None, UPS[1])
        for addr in ADDRS:
            yield case("default", "example.com", "::1", addr, None)
            yield case("default", None, "::1", addr, UPS[9])
        yield case("default", "example.com", "127.0.0.1", "10.0.0.1", UPS[1], opt=False)
        # the requested identity is an IP (SNI literal, or no SNI -> local address) that the upstream certificate spells as dNSName:
        # the leaf must still carry it as iPAddress, or a strict verifier rejects it for that address
        # big upstream certificates: 0/1/99/100/101/150/300 SANs, the requested name early / late / absent in that list, long CNs, SNI and
        # no-SNI (local address) identities — the leaf must name what the client asked for however long the upstream list is
        for n in (0, 1, 99, 100, 101, 150, 300):
            for where in ("early", "late", "absent"):
                for sni, local, name in (("req.many.example", "127.0.0.1", "req.many.example"), (None, "127.0.0.1", "127.0.0.1"), ("2001:db8::1", "127.0.0.1", "2001:db8::1"),
                                         ("other.example", "::1", "req.many.example")):
                    for cn in (None, "h0.many.example", "x" * 64):
                        if n in (1, 150) and cn: continue
                        up = {"many": [n, where, name]}
                        if cn: up["cn"] = cn
                        yield case("default", sni, local, "10.0.0.1" if n % 2 else None, up)
        # histories over CAs with the SAME subject DN (every default mitmproxy CA is CN=mitmproxy,O=mitmproxy) within one process
        for a in SAME_DN:
            for b_ in SAME_DN:
                if a != b_:
                    yield {"hist": [[a, "example.com"], [b_, "example.com"]], "local": "127.0.0.1", "addr": "10.0.0.1", "up": None, "upstream_opt": True}
        yield {"hist": [["default", "a.example"], ["default2", "192.0.2.1"], ["default3", None], ["default", "b.example"], ["noski", "c.example"], ["default2", "d.example"]],
               "local": "127.0.0.1", "addr": None, "up": UPS[1], "upstream_opt": True}
        # wildcard SAN upstream x requested name 0,1,2,3 labels below the wildcard's base (SNI, or no SNI and the name as server address)
        for i in WILD + [15]:
            for n in WILD_NAMES:
                yield case("default", n, "127.0.0.1", "10.0.0.1", UPS[i])
                yield case("default", None, "127.0.0.1", n, UPS[i])
        for i in IP_AS_DNS:
            for sni, local in (("192.0.2.1", "127.0.0.1"), (None, "127.0.0.1"), (None, "192.0.2.1"), ("2001:db8::1", "127.0.0.1"), (None, "::1"),
                               (None, "2001:db8::1"), ("::1", "10.1.2.3"), ("example.com", "127.0.0.1"), ("www.example.com", "::1")):
                for addr in (None, "10.0.0.1", "192.0.2.1"):
                    yield case("default", sni, local, addr, UPS[i])
        while True:
            if rng.chance(0.06):
                yield {"hist": [[rng.pick(SAME_DN) if rng.chance(0.8) else rng.pick(CAS), rng.pick(["example.com", "192.0.2.1", None, "www.example.com"])]
                                for _ in range(rng.randint(2, 5))],
                       "local": rng.pick(LOCALS), "addr": rng.pick(ADDRS[:5]), "up": rng.pick(UPS) if rng.chance(0.4) else None, "upstream_opt": True}
                continue
            if rng.chance(0.05):
                nm = rng.pick(["req.many.example", "127.0.0.1", "2001:db8::1"])
                yield case("default", nm if rng.chance(0.7) else None, rng.pick(LOCALS), rng.pick(ADDRS[:4]),
                           {"many": [rng.pick([0, 1, 2, 98, 99, 100, 101, 102, 200, 300]), rng.pick(["early", "late", "absent"]), nm], "cn": rng.pick(["c.example", "y" * 64])})
                continue
            yield case(rng.pick(CAS) if rng.chance(0.3) else "default", rng.pick(SNIS), rng.pick(LOCALS), rng.pick(ADDRS),
                       rng.pick(UPS) if rng.chance(0.7) else None, opt=rng.chance(0.9))

    # ---- implementation -----------------------------------------------------------------------------------------
    def impl(self, case):
        if "hist" in case:
            # a history within one process: the same TlsConfig is pointed at one CA after the other (same subject DN, different keys);
            # every leaf is judged against the CA that is current when it is issued
            return {"leaves": [self._one(dict(case, ca=h[0], sni=h[1]), *switched(h[0])) for h in case["hist"]]}
        tctx, tas = env()
        return self._one(case, *tas[case["ca"]])

    def _one(self, case, ta, chain):
        from mitmproxy import connection, certs
        from mitmproxy.proxy import context
        from mitmproxy.connection import ConnectionState
        tctx, tas = env()
        ca = chain[0]
        tctx.options.upstream_cert = bool(case["upstream_opt"])
        ta.certstore.certs = {}; ta.certstore.expire_queue = []
        c = connection.Client(peername=("192.0.2.77", 1234), sockname=(case["local"], 8080), timestamp_start=1, state=ConnectionState.OPEN)
        ctx = context.Context(c, tctx.options)
        ctx.server = connection.Server(address=(case["addr"], 443) if case["addr"] is not None else None)
        if case["up"] is not None:
            ctx.server.certificate_list = [certs.Cert(mint_upstream(case["up"]))]
        c.sni = case["sni"]
        t0 = datetime.datetime.now()
        try:
            entry = ta.get_cert(ctx)
        except (ValueError, TypeError) as e:              # UnicodeError is a ValueError
            return {"raised": type(e).__name__}
        t1 = datetime.datetime.now()
        cert = entry.cert.to_cryptography()
        obs = {"raised": None}
        # issuer / signature
        obs["issuer_ok"] = cert.issuer == ca.subject
        try:
            cert.verify_directly_issued_by(ca); obs["sig_ok"] = True
        except Exception:
            obs["sig_ok"] = False
        utc = datetime.datetime.now(datetime.timezone.utc)
        obs["valid_now"] = cert.not_valid_before_utc <= utc <= cert.not_valid_after_utc
        off = int(certs.CERT_VALIDITY_OFFSET.total_seconds())
        nb = cert.not_valid_before_utc.replace(tzinfo=None)
        d0, d1 = (nb - t0).total_seconds(), (nb - t1).total_seconds()
        obs["nb"] = off if d1 - 1.5 <= off <= d0 + 1.5 else int(d0)
        obs["dur"] = int((cert.not_valid_after_utc - cert.not_valid_before_utc).total_seconds())
        try:
            eku = cert.extensions.get_extension_for_class(x509.ExtendedKeyUsage)
            obs["eku"] = sorted(o.dotted_string for o in eku.value); obs["eku_critical"] = eku.critical
        except x509.ExtensionNotFound:
            obs["eku"] = None; obs["eku_critical"] = None
        cn = cert.subject.get_attributes_for_oid(NameOID.COMMON_NAME)
        org = cert.subject.get_attributes_for_oid(NameOID.ORGANIZATION_NAME)
        obs["subject_oids"] = [a.oid.dotted_string for a in cert.subject]
        obs["cn"] = hx(cn[0].value.encode()) if cn else None
        obs["org"] = hx(org[0].value.encode()) if org else None
        san = cert.extensions.get_extension_for_class(x509.SubjectAlternativeName)
        obs["sans"] = [token(g) for g in san.value]; obs["san_critical"] = san.critical
        try:
            aki = cert.extensions.get_extension_for_class(x509.AuthorityKeyIdentifier).value.key_identifier
        except x509.ExtensionNotFound:
            aki = None
        try:
            ski = ca.extensions.get_extension_for_class(x509.SubjectKeyIdentifier).value.digest
        except x509.ExtensionNotFound:
            ski = None
        keyid = x509.SubjectKeyIdentifier.from_public_key(ca.public_key()).digest
        obs["ca_has_ski"] = ski is not None
        obs["aki"] = "ski" if ski is not None and aki == ski else "key" if ski is None and aki == keyid else "other"
        try:
            dp = cert.extensions.get_extension_for_class(x509.CRLDistributionPoints).value
            obs["crl"] = [hx(p.full_name[0].value.encode()) for p in dp]
        except x509.ExtensionNotFound:
            obs["crl"] = []
        obs["ext_oids"] = sorted(e.oid.dotted_string for e in cert.extensions)
        obs["is_ca"] = any(isinstance(e.value, x509.BasicConstraints) and e.value.ca for e in cert.extensions)
        obs["crl_path"] = ta.crl_path()
        # strict verification for the requested identity
        store = V.Store([chain[-1]]); inter = list(chain[:-1])
        req = case["sni"] or case["local"]

        def verify(subject):
            try:
                V.PolicyBuilder().store(store).build_server_verifier(subject).verify(cert, inter)
                return "ok"
            except V.VerificationError as e:
                return "fail:" + str(e)[:160]

        def subject_of(tok):
            kind, h = tok.split(":")
            text = unhx(h).decode()
            try:
                if kind == "i": return x509.IPAddress(ipaddress.ip_address(text))
                s = x509.DNSName(text)
                V.PolicyBuilder().store(store).build_server_verifier(s)     # raises ValueError for names it refuses as reference
                return s
            except ValueError:
                return None
        # a second strict verifier, OpenSSL with X509_V_FLAG_X509_STRICT (chain only; e.g. "authority and subject key identifier mismatch")
        from OpenSSL import crypto
        st = crypto.X509Store(); st.add_cert(crypto.X509.from_cryptography(chain[-1])); st.set_flags(crypto.X509StoreFlags.X509_STRICT)
        try:
            crypto.X509StoreContext(st, crypto.X509.from_cryptography(cert), [crypto.X509.from_cryptography(x) for x in inter]).verify_certificate()
            obs["ossl_strict"] = "ok"
        except crypto.X509StoreContextError as e:
            obs["ossl_strict"] = "fail:" + str(e)[:120]
        rt = classify(req)
        subj = subject_of(rt) if rt else None
        if subj is not None:
            obs["strict"] = verify(subj)
        else:
            obs["strict"] = "ref-invalid"
            fb = next((s for s in (subject_of(t) for t in obs["sans"] if t[0] in "di" and "*" not in unhx(t.split(":")[1]).decode()) if s is not None), None)
            obs["chain_strict"] = verify(fb) if fb is not None else "no-usable-san"
        return obs

    # ---- oracle -------------------------------------------------------------------------------------------------
    @staticmethod
    def sources(case):
        """tokens the certificate may name (independent of the code under test)"""
        out = []
        up = case["up"] if case["upstream_opt"] else None
        if up:
            if up.get("cn"):
                c = classify(up["cn"])
                if c: out.append(c)
            out += [token(gname(s)) for s in up_sans(up)]
        r = classify(case["sni"] or case["local"])
        if r: out.append(r)
        if case["addr"] is not None:
            a = classify(case["addr"])
            if a: out.append(a)
        return out

    def _oracle1(self, case, obs):
        fails = []
        req = case["sni"] or case["local"]
        in_domain = classify(req) is not None and (case["addr"] is None or classify(case["addr"]) is not None)
        if obs["raised"]:
            # "For any client SNI (DNS name, internationalised name, IP literal) ... and any upstream certificate names, the certificate mitmproxy presents ..."
            # a request whose own names are encodable must get a certificate, whatever the upstream certificate says
            return [f"get_cert raised {obs['raised']} for an encodable SNI/address"] if in_domain else []
        # "issued by mitmproxy's CA"
        if not obs["issuer_ok"] or not obs["sig_ok"]: fails.append("not issued/signed by the configured CA")
        # "valid at the time of issue"
        if not obs["valid_now"]: fails.append("not inside its validity window at issue")
        # "usable for TLS server authentication"
        if not obs["eku"] or ExtendedKeyUsageOID.SERVER_AUTH.dotted_string not in obs["eku"]: fails.append("EKU lacks serverAuth")
        if obs["is_ca"]: fails.append("leaf is a CA certificate")
        # "verifies for that SNI or address under a strict X.509 verifier"
        if obs["strict"].startswith("fail"): fails.append(f"strict verifier rejects it for {req!r}: {obs['strict'][5:]}")
        if obs["strict"] == "ref-invalid":
            if obs.get("chain_strict", "").startswith("fail"):
                fails.append(f"strict verifier rejects the chain: {obs['chain_strict'][5:]}")
            # the verifier cannot be asked about this reference (underscore, leading hyphen, trailing dot, '*'): the name clause is then
            # judged by the RFC 6125 rule itself (exact / one-label wildcard / IP exact) over the leaf's SAN list
            if not names_match(obs["sans"], classify(req)): fails.append(f"no subjectAltName of the leaf names {req!r} (RFC 6125 rule)")
        elif obs["strict"] == "ok" and not names_match(obs["sans"], classify(req)):
            fails.append(f"strict verifier accepted a leaf none of whose subjectAltNames names {req!r}")   # cross-check of the two references
        # ... under a strict X.509 verifier: OpenSSL's strict mode on the chain.  Not asked when the configured CA itself has no
        # SubjectKeyIdentifier: strict mode rejects such a CA certificate whatever the leaf looks like.
        if obs.get("ca_has_ski") and obs.get("ossl_strict", "ok").startswith("fail"):
            fails.append(f"OpenSSL (X509_STRICT) rejects the chain: {obs['ossl_strict'][5:]}")
        # "It names only identities taken from the SNI (or local address), the server address and the upstream certificate."
        srcs = self.sources(case)
        extra = [t for t in obs["sans"] if t not in srcs]
        if extra: fails.append(f"SAN entries from nowhere: {extra}")
        if obs["cn"] is not None and obs["cn"] not in [t.split(":")[1] for t in srcs]: fails.append("CN is not the text of any source name")
        up = case["up"] if case["upstream_opt"] else None
        if obs["org"] is not None and not (up and up.get("org") and hx(up["org"].encode()) == obs["org"]): fails.append("organization not from the upstream certificate")
        if any(o not in ("2.5.4.3", "2.5.4.10") for o in obs["subject_oids"]): fails.append("unexpected subject attributes")
        return fails

    @staticmethod
    def _subs(case):
        return [dict({k: v for k, v in case.items() if k != "hist"}, ca=h[0], sni=h[1]) for h in case["hist"]]

    def oracle(self, case, obs):
        if "hist" not in case: return self._oracle1(case, obs)
        return [f"leaf {i + 1} (CA {c['ca']}): {f}" for i, (c, o) in enumerate(zip(self._subs(case), obs["leaves"])) for f in self._oracle1(c, o)]

    def model_lines(self, case):
        if "hist" not in case: return self._model_lines1(case)
        return [self._model_lines1(c)[0] for c in self._subs(case)]

    def impl_view(self, case, obs):
        if "hist" not in case: return self._impl_view1(case, obs)
        return [self._impl_view1(c, o) for c, o in zip(self._subs(case), obs["leaves"])]

    def classify(self, case, obs):
        if "hist" not in case: return self._classify1(case, obs)
        return json.dumps(case, sort_keys=True)

    def branches(self, case, obs):
        if "hist" not in case: return self._branches1(case, obs)
        return ["hist:len=%d" % len(case["hist"])] + ["hist:" + b for c, o in zip(self._subs(case), obs["leaves"]) for b in self._branches1(c, o)[:2]]

    def shrink_candidates(self, case):
        """a history is only meaningful with at least two steps (a one-step 'history' fails only on state left by earlier cases of the
        same process and would not replay)"""
        if "hist" in case:
            if len(case["hist"]) > 2:
                for i in range(len(case["hist"])):
                    yield dict(case, hist=case["hist"][:i] + case["hist"][i + 1:])
            return
        from common.check import generic_shrink
        yield from generic_shrink(case)

    def known_selftest(self):
        """doctored observations just outside each lenient branch must be rejected (independent of the tree under test)"""
        case = lambda sni, up=None, addr="10.0.0.1": {"ca": "default", "sni": sni, "local": "127.0.0.1", "addr": addr, "up": up, "upstream_opt": True}
        d = lambda x: "d:" + hx(x.encode())
        good = {"raised": None, "issuer_ok": True, "sig_ok": True, "valid_now": True, "eku": ["1.3.6.1.5.5.7.3.1"], "is_ca": False, "strict": "ok",
                "sans": [d("example.com"), "i:" + hx(b"10.0.0.1")], "cn": hx(b"example.com"), "org": None, "subject_oids": ["2.5.4.3"], "san_critical": False}
        und = dict(good, strict="ref-invalid", chain_strict="ok", sans=[d("foo_bar.example"), "i:" + hx(b"10.0.0.1")], cn=hx(b"foo_bar.example"))
        wild_up = {"sans": [["dns", "*.example"]]}
        checks = [
            (case("example.com"), good, False),
            (case("example.com"), dict(good, strict="fail:no matching subjectAltName"), True),
            (case("example.com"), dict(good, valid_now=False), True), (case("example.com"), dict(good, eku=[]), True),
            (case("example.com"), dict(good, sig_ok=False), True), (case("example.com"), dict(good, is_ca=True), True),
            (case("example.com"), dict(good, ca_has_ski=True, ossl_strict="fail:authority and subject key identifier mismatch"), True),
            (case("example.com"), dict(good, ca_has_ski=False, ossl_strict="fail:Missing Subject Key Identifier"), False),   # the CA's own deficiency
            (case("example.com"), dict(good, sans=good["sans"] + [d("evil.example")]), True),               # a name from nowhere
            (case("example.com"), dict(good, org=hx(b"Evil Inc")), True),
            # raised: excused only when the case's own names are not encodable
            (case("example.com"), {"raised": "UnicodeError"}, True), (case("a" * 64 + ".com"), {"raised": "UnicodeError"}, False),
            (case("example.com", addr="a" * 64), {"raised": "UnicodeError"}, False),
            (case("example.com", up={"cn": "a" * 64}), {"raised": "UnicodeError"}, True),
            # reference the strict verifier refuses: the chain is still verified and the name rule is applied directly
            (case("foo_bar.example"), und, False),
            (case("foo_bar.example"), dict(und, chain_strict="fail:expired"), True),
            (case("foo_bar.example"), dict(und, sans=["i:" + hx(b"10.0.0.1")], cn=None, subject_oids=[]), True),      # requested name dropped
            (case("x_y.z.example", up=wild_up), dict(und, sans=[d("*.example"), "i:" + hx(b"10.0.0.1")], cn=hx(b"*.example")), True),   # two labels below a wildcard
            (case("x_y.example", up=wild_up), dict(und, sans=[d("*.example"), "i:" + hx(b"10.0.0.1")], cn=hx(b"*.example")), False),    # one label below: covered
        ]
        for c, o, want_fail in checks:
            got = bool(self._oracle1(c, o))
            assert got == want_fail, f"C16 oracle selftest: expected {'a failure' if want_fail else 'no failure'} for {json.dumps(c)[:200]} / {json.dumps(o)[:200]}: {self.oracle(c, o)}"

    # ---- model tie ----------------------------------------------------------------------------------------------
    def _model_lines1(self, case):
        up = case["up"] if case["upstream_opt"] else None
        if up is None:
            upf = "none"
        else:
            cn = "n" if up.get("cn") is None else src(up["cn"])
            sans = ",".join(token(gname(s)) for s in up_sans(up)) or "nil"
            org = "n" if up.get("org") is None else hx(up["org"].encode())
            tctx, tas = env()
            crl = expected_crl(up, tas[case["ca"]][0].crl_path())
            upf = "|".join([cn, sans, org, "n" if crl is None else hx(crl.encode())])
        sni = "n" if case["sni"] is None else src(case["sni"])
        addr = "n" if case["addr"] is None else src(case["addr"])
        ski = 0 if case["ca"] == "noski" else 1
        return [f"leaf {ski} {upf} {sni} {src(case['local'])} {addr}"]

    def model_obs(self, case, replies):
        return list(replies) if "hist" in case else replies[0]

    def _impl_view1(self, case, obs):
        if obs["raised"]: return "raised"
        o = lambda v: "none" if v is None else v
        crl = obs["crl"][0] if obs["crl"] else None
        eku = "serverAuth" if obs["eku"] == [ExtendedKeyUsageOID.SERVER_AUTH.dotted_string] and obs["eku_critical"] is False else "other"
        return (f"cn={o(obs['cn'])};org={o(obs['org'])};crit={int(obs['san_critical'])};sans={','.join(obs['sans']) or 'nil'};crl={o(crl)};"
                f"aki={obs['aki']};eku={eku};nb={obs['nb']};na={obs['nb'] + obs['dur']}")

    def _classify1(self, case, obs):
        return None if obs["raised"] else (case["ca"], case["sni"], case["local"], case["addr"], str(case["up"]), case["upstream_opt"])

    def _branches1(self, case, obs):
        if obs["raised"]: return ["raised:" + obs["raised"]]
        b = ["ca:" + case["ca"], "strict:" + obs["strict"].split(":")[0], "cn:" + ("present" if obs["cn"] else "absent"),
             "san-critical" if obs["san_critical"] else "san-noncritical", "upstream:" + ("used" if case["up"] and case["upstream_opt"] else "none")]
        if obs["crl"]: b.append("crldp")
        if obs["org"]: b.append("org")
        rt = classify(case["sni"] or case["local"])
        b.append("requested:" + ("ip" if rt and rt[0] == "i" else "dns"))
        return b

    def neighbours(self, case, rng):
        for sni in SNIS:
            c = dict(case); c["sni"] = sni; yield c
        for up in UPS:
            c = dict(case); c["up"] = up; yield c

    def exhaustive(self, tier):
        for sni in SNIS:
            for up in UPS:
                yield {"ca": "default", "sni": sni, "local": "127.0.0.1", "addr": "10.0.0.1", "up": up, "upstream_opt": True}
